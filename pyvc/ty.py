"""Type descriptors of the verified Python subset and their z3 sorts.

Every symbolic value is a pair (z3 term, type descriptor).  Encoding assumptions (part of the trusted
base, see DESIGN.md section 7):
  * int   -> z3 Int (exact: Python ints are unbounded)
  * bool  -> z3 Bool
  * str used for identity only (node ids, contig names, orientations, tag keys) -> z3 Int *codes*;
    distinct literals get distinct negative codes, unknown strings are arbitrary codes >= 0.  Only
    equality is meaningful; the engine never does arithmetic on a Str term.
  * text (character level, C16) -> z3 String
  * tuple / small class / namedtuple -> z3 datatype record
  * list -> record (arr: Array Int T, len: Int);   dict -> record (has: Array K Bool, val: Array K V)
    (insertion order is not part of DictT; OrdDictT adds an explicit key list)
  * set -> Array T Bool
  * Optional[T] / "False or T" -> datatype none | some(T)
"""

import z3

_SORTS = {}
_STR_CODES = {}
_STR_BY_CODE = {}


def str_code(s):
    if s not in _STR_CODES:
        c = -(len(_STR_CODES) + 1)
        _STR_CODES[s] = c
        _STR_BY_CODE[c] = s
    return _STR_CODES[s]


def str_of_code(c):
    if c in _STR_BY_CODE:
        return _STR_BY_CODE[c]
    return "n%d" % c


class Ty:
    name = "?"

    def sort(self):
        raise NotImplementedError

    def __repr__(self):
        return self.name

    def __eq__(self, o):
        return isinstance(o, Ty) and self.name == o.name

    def __hash__(self):
        return hash(self.name)

    def fresh(self, prefix):
        return z3.FreshConst(self.sort(), prefix)

    def decode(self, model, term):
        return str(model.eval(term, model_completion=True))


class IntT(Ty):
    name = "Int"

    def sort(self):
        return z3.IntSort()

    def decode(self, model, term):
        v = model.eval(term, model_completion=True)
        try:
            return v.as_long()
        except Exception:
            return str(v)


class BoolT(Ty):
    name = "Bool"

    def sort(self):
        return z3.BoolSort()

    def decode(self, model, term):
        return z3.is_true(model.eval(term, model_completion=True))


class StrT(Ty):
    name = "Str"

    def sort(self):
        return z3.IntSort()

    def decode(self, model, term):
        v = model.eval(term, model_completion=True)
        try:
            return str_of_code(v.as_long())
        except Exception:
            return str(v)


class TextT(Ty):
    name = "Text"

    def sort(self):
        return z3.StringSort()

    def decode(self, model, term):
        v = model.eval(term, model_completion=True)
        try:
            return v.as_string()
        except Exception:
            return str(v)


class NoneT(Ty):
    name = "None"

    def sort(self):
        return z3.BoolSort()  # a dummy carrier; the value is irrelevant

    def decode(self, model, term):
        return None


class RealT(Ty):
    """python float, modelled as a mathematical real with UNINTERPRETED division (floats as reals: DESIGN section 7)"""
    name = "Real"

    def sort(self):
        return z3.RealSort()

    def decode(self, model, term):
        return str(model.eval(term, model_completion=True))


INT, BOOL, STR, TEXT, NONE = IntT(), BoolT(), StrT(), TextT(), NoneT()
REAL = RealT()


def _mangle(name):
    return name.replace("<", "_l_").replace(">", "_r").replace(",", "_c_")


def _mk_record(name, fields):
    if name in _SORTS:
        return _SORTS[name]
    name_ = _mangle(name)
    dt = z3.Datatype(name_)
    dt.declare("mk_" + name_, *[(name_ + "_" + f, s) for f, s in fields])
    srt = dt.create()
    _SORTS[name] = srt
    return srt


class TupleT(Ty):
    def __init__(self, *elts, names=None):
        self.elts = list(elts)
        self.names = list(names) if names else None  # namedtuple field names
        self.name = "Tup<" + ",".join(e.name for e in self.elts) + ">"

    def sort(self):
        return _mk_record(self.name, [("f%d" % i, e.sort()) for i, e in enumerate(self.elts)])

    def mk(self, terms):
        return self.sort().constructor(0)(*terms)

    def get(self, term, i):
        return self.sort().accessor(0, i)(term)

    def decode(self, model, term):
        return tuple(e.decode(model, self.get(term, i)) for i, e in enumerate(self.elts))


class ObjT(Ty):
    def __init__(self, cname, **fields):
        self.cname = cname
        self.fields = dict(fields)
        self.name = "Obj<" + cname + ">"
        self.order = list(self.fields)

    def sort(self):
        return _mk_record(self.name, [(f, self.fields[f].sort()) for f in self.order])

    def mk(self, terms):
        return self.sort().constructor(0)(*terms)

    def get(self, term, f):
        return self.sort().accessor(0, self.order.index(f))(term)

    def set(self, term, f, v):
        return self.mk([v if g == f else self.get(term, g) for g in self.order])

    def decode(self, model, term):
        return {"__class__": self.cname, **{f: self.fields[f].decode(model, self.get(term, f)) for f in self.order}}


class ListT(Ty):
    def __init__(self, elt):
        self.elt = elt
        self.name = "List<" + elt.name + ">"

    def sort(self):
        return _mk_record(self.name, [("arr", z3.ArraySort(z3.IntSort(), self.elt.sort())), ("len", z3.IntSort())])

    def mk(self, arr, ln):
        return self.sort().constructor(0)(arr, ln)

    def arr(self, t):
        return self.sort().accessor(0, 0)(t)

    def len(self, t):
        return self.sort().accessor(0, 1)(t)

    def empty(self):
        return self.mk(z3.FreshConst(z3.ArraySort(z3.IntSort(), self.elt.sort()), "arr0"), z3.IntVal(0))

    def decode(self, model, term):
        n = model.eval(self.len(term), model_completion=True)
        try:
            n = n.as_long()
        except Exception:
            return "<list len %s>" % n
        if n < 0 or n > 64:
            return "<list len %d>" % n
        a = self.arr(term)
        return [self.elt.decode(model, z3.Select(a, z3.IntVal(i))) for i in range(n)]


class DictT(Ty):
    def __init__(self, k, v):
        self.k, self.v = k, v
        self.name = "Dict<" + k.name + "," + v.name + ">"

    def sort(self):
        return _mk_record(self.name, [("has", z3.ArraySort(self.k.sort(), z3.BoolSort())),
                                      ("val", z3.ArraySort(self.k.sort(), self.v.sort()))])

    def mk(self, has, val):
        return self.sort().constructor(0)(has, val)

    def has(self, t):
        return self.sort().accessor(0, 0)(t)

    def val(self, t):
        return self.sort().accessor(0, 1)(t)

    def empty(self):
        return self.mk(z3.K(self.k.sort(), z3.BoolVal(False)), z3.FreshConst(z3.ArraySort(self.k.sort(), self.v.sort()), "val0"))

    def store(self, t, k, v):
        return self.mk(z3.Store(self.has(t), k, True), z3.Store(self.val(t), k, v))

    def remove(self, t, k):
        return self.mk(z3.Store(self.has(t), k, False), self.val(t))

    def decode(self, model, term):
        return "<dict %s>" % model.eval(self.has(term), model_completion=True)


class OrdDictT(DictT):
    """dict whose insertion order is observable: extra field keys (list of keys in insertion order)"""

    def __init__(self, k, v):
        self.k, self.v = k, v
        self.kl = ListT(k)
        self.name = "OrdDict<" + k.name + "," + v.name + ">"

    def sort(self):
        return _mk_record(self.name, [("has", z3.ArraySort(self.k.sort(), z3.BoolSort())),
                                      ("val", z3.ArraySort(self.k.sort(), self.v.sort())), ("keys", self.kl.sort())])

    def mk(self, has, val, keys):
        return self.sort().constructor(0)(has, val, keys)

    def keys(self, t):
        return self.sort().accessor(0, 2)(t)

    def empty(self):
        return self.mk(z3.K(self.k.sort(), z3.BoolVal(False)), z3.FreshConst(z3.ArraySort(self.k.sort(), self.v.sort()), "val0"), self.kl.empty())

    def store(self, t, k, v):
        ks = self.keys(t)
        appended = self.kl.mk(z3.Store(self.kl.arr(ks), self.kl.len(ks), k), self.kl.len(ks) + 1)
        return self.mk(z3.Store(self.has(t), k, True), z3.Store(self.val(t), k, v), z3.If(z3.Select(self.has(t), k), ks, appended))

    def remove(self, t, k):
        raise NotImplementedError("removal from an ordered dict is not modelled")

    def decode(self, model, term):
        ks = self.kl.decode(model, self.keys(term))
        return {"keys_in_order": ks}


class SetT(Ty):
    def __init__(self, elt):
        self.elt = elt
        self.name = "Set<" + elt.name + ">"

    def sort(self):
        return z3.ArraySort(self.elt.sort(), z3.BoolSort())

    def empty(self):
        return z3.K(self.elt.sort(), z3.BoolVal(False))

    def decode(self, model, term):
        return "<set %s>" % model.eval(term, model_completion=True)


class OptT(Ty):
    """None | T   (kind='none')   or   False | T   (kind='false')"""

    def __init__(self, inner, kind="none"):
        self.inner = inner
        self.kind = kind
        self.name = ("Opt<" if kind == "none" else "FalseOr<") + inner.name + ">"

    def sort(self):
        if self.name in _SORTS:
            return _SORTS[self.name]
        nm = _mangle(self.name)
        dt = z3.Datatype(nm)
        dt.declare("none_" + nm)
        dt.declare("some_" + nm, ("val_" + nm, self.inner.sort()))
        srt = dt.create()
        _SORTS[self.name] = srt
        return srt

    def none(self):
        return self.sort().constructor(0)()

    def some(self, t):
        return self.sort().constructor(1)(t)

    def is_none(self, t):
        return self.sort().recognizer(0)(t)

    def is_some(self, t):
        return self.sort().recognizer(1)(t)

    def val(self, t):
        return self.sort().accessor(1, 0)(t)

    def decode(self, model, term):
        if z3.is_true(model.eval(self.is_none(term), model_completion=True)):
            return None if self.kind == "none" else False
        return self.inner.decode(model, self.val(term))


def FalseOr(t):
    return OptT(t, kind="false")


def Opt(t):
    return OptT(t, kind="none")


class MapT(Ty):
    """total map (ghost arrays): z3 Array K V, no presence bit"""

    def __init__(self, k, v):
        self.k, self.v = k, v
        self.name = "Map<" + k.name + "," + v.name + ">"

    def sort(self):
        return z3.ArraySort(self.k.sort(), self.v.sort())

    def decode(self, model, term):
        return "<map %s>" % model.eval(term, model_completion=True)

