"""Discharge obligations: z3 (python API, in a process pool) first, /usr/bin/cvc5 for z3's unknowns.

Statuses: 'discharged' (unsat), 'refuted' (sat, with model text), 'unknown'.  unknown/timeouts are never
mapped to a violation by the callers.
"""

import os
import subprocess
import tempfile
import time
import multiprocessing as mp

import z3

Z3_TIMEOUT_MS = int(os.environ.get("PYVC_Z3_TIMEOUT_MS", "30000"))
CVC5_TIMEOUT_S = int(os.environ.get("PYVC_CVC5_TIMEOUT_S", "15"))


def to_smt2(hyps, goal):
    s = z3.Solver()
    for h in hyps:
        s.add(h)
    s.add(z3.Not(goal))
    return s.to_smt2()


Z3_BIN = os.environ.get("PYVC_Z3_BIN") or ("/usr/local/bin/z3-new" if os.path.exists("/usr/local/bin/z3-new") else None)


def _z3_check(smt2, timeout_ms):
    """z3 as a killable subprocess (the in-process API occasionally ignores its timeout on quantified goals)"""
    import shutil
    zbin = Z3_BIN or shutil.which("z3-new") or shutil.which("z3")
    with tempfile.NamedTemporaryFile("w", suffix=".smt2", delete=False) as f:
        f.write(smt2 + "\n(get-model)\n")
        path = f.name
    t0 = time.time()
    hard = timeout_ms / 1000.0 + 3
    try:
        p = subprocess.run([zbin, "-t:%d" % timeout_ms, "-T:%d" % int(hard + 1), "-smt2", path], capture_output=True, text=True, timeout=hard + 5)
        out = p.stdout
    except subprocess.TimeoutExpired:
        out = "timeout"
    finally:
        os.unlink(path)
    dt = time.time() - t0
    first = out.strip().splitlines()[0] if out.strip() else ""
    if first == "unsat":
        return "discharged", "z3", dt, None
    if first == "sat":
        return "refuted", "z3", dt, out[4:4000]
    return "unknown", "z3", dt, (first or "no output")[:200]


def _cvc5_check(smt2, timeout_s):
    if not os.path.exists("/usr/bin/cvc5"):
        return "unknown", "cvc5", 0.0, "cvc5 not installed"
    with tempfile.NamedTemporaryFile("w", suffix=".smt2", delete=False) as f:
        # z3 prints (check-sat) at the end; cvc5 needs a logic
        f.write("(set-logic ALL)\n" + smt2)
        path = f.name
    t0 = time.time()
    try:
        p = subprocess.run(["/usr/bin/cvc5", "--tlimit=%d" % (timeout_s * 1000), "--strings-exp", path],
                           capture_output=True, text=True, timeout=timeout_s + 5)
        out = p.stdout.strip().splitlines()
        res = out[0] if out else ""
    except subprocess.TimeoutExpired:
        res = "timeout"
    finally:
        os.unlink(path)
    dt = time.time() - t0
    if res == "unsat":
        return "discharged", "cvc5", dt, None
    if res == "sat":
        return "refuted", "cvc5", dt, "(cvc5 sat; model not extracted)"
    return "unknown", "cvc5", dt, res[:200]


def _work(job):
    """portfolio per obligation: z3 with a short budget, then cvc5, then z3 with the full budget.  (Several obligations are hard for
    z3's trigger-based instantiation and immediate for cvc5, and vice versa.)"""
    idx, smt2, z3_ms, use_cvc5 = job
    try:
        short = min(4000, z3_ms)
        st, be, dt, info = _z3_check(smt2, short)
        total = dt
        if st != "unknown":
            return idx, st, be, total, info
        if use_cvc5:
            st2, be2, dt2, info2 = _cvc5_check(smt2, CVC5_TIMEOUT_S)
            total += dt2
            if st2 != "unknown":
                return idx, st2, be2, total, info2
        else:
            info2 = "(cvc5 skipped)"
        if z3_ms > short:
            st3, be3, dt3, info3 = _z3_check(smt2, z3_ms)
            total += dt3
            if st3 != "unknown":
                return idx, st3, be3, total, info3
            info = info3
        return idx, "unknown", "z3+cvc5", total, "z3: %s; cvc5: %s" % (info, info2)
    except Exception as e:  # noqa
        return idx, "error", "z3", 0.0, "%s: %s" % (type(e).__name__, e)


_POOL = None


def pool():
    global _POOL
    if _POOL is None:
        n = int(os.environ.get("PYVC_JOBS", str(min(16, os.cpu_count() or 4))))
        _POOL = mp.get_context("fork").Pool(n)
    return _POOL


_CONST_CACHE = {}


def _const_names(f):
    """names of the uninterpreted constants (arity 0) occurring in f"""
    k = f.get_id()
    if k in _CONST_CACHE:
        return _CONST_CACHE[k]
    out = set()
    stack = [f]
    seen = set()
    while stack:
        t = stack.pop()
        i = t.get_id()
        if i in seen:
            continue
        seen.add(i)
        if z3.is_quantifier(t):
            stack.append(t.body())
        elif z3.is_app(t):
            if t.num_args() == 0 and t.decl().kind() == z3.Z3_OP_UNINTERPRETED:
                out.add(t.decl().name())
            else:
                stack.extend(t.children())
    _CONST_CACHE[k] = out
    return out


def slice_hyps(hyps, goal, ghosts):
    """Sound hypothesis slicing for contracts with many ghost arrays: a hypothesis that talks about ghost arrays, none of which is
    (transitively) connected to the goal, is dropped.  Proving from fewer hypotheses is still a proof; on `unknown` the caller retries
    with all hypotheses."""
    import re
    pat = re.compile(r"^(?:gh_|h_|post_)(%s)(?:!\d+)?$" % "|".join(re.escape(g) for g in ghosts))

    def fam(f):
        out = set()
        for nm in _const_names(f):
            m = pat.match(nm)
            if m:
                out.add(m.group(1))
        return out
    rel = fam(goal)
    fams = [fam(h) for h in hyps]
    changed = True
    while changed:
        changed = False
        for fs in fams:
            if fs and (fs & rel) and not fs <= rel:
                rel |= fs
                changed = True
    return [h for h, fs in zip(hyps, fams) if not fs or (fs & rel)]


def _work_short(job):
    idx, smt2, z3_ms, use_cvc5 = job
    try:
        st, be, dt, info = _z3_check(smt2, min(4000, z3_ms))
        return idx, st, be, dt, info
    except Exception as e:  # noqa
        return idx, "error", "z3", 0.0, "%s: %s" % (type(e).__name__, e)


def _retry_work(job):
    smt2, ms = job
    try:
        return _z3_check(smt2, ms)
    except Exception as e:  # noqa
        return ("unknown", "z3", 0.0, "retry failed: %s" % e)


def _pmap(fn, jobs, parallel):
    if not jobs:
        return []
    if parallel and len(jobs) > 1:
        return pool().map(fn, jobs, chunksize=1)
    return [fn(j) for j in jobs]


def discharge(obligs, z3_ms=None, use_cvc5=True, parallel=True):
    """obligs: list of engine.Oblig.  Returns list of dict(name, kind, status, backend, time, info).
    Stages: (1) z3, 4 s, all hypotheses; (2) for contracts with many ghost arrays: z3 / cvc5 / z3 on the hypotheses sliced by ghost family;
    (3) cvc5 then z3 with the full budget on all hypotheses."""
    z3_ms = z3_ms or Z3_TIMEOUT_MS
    results = [None] * len(obligs)
    smt = {}
    jobs = []
    for i, o in enumerate(obligs):
        g = z3.simplify(o.goal) if z3.is_bool(o.goal) else o.goal
        if z3.is_true(g) and o.kind != "canary":
            results[i] = dict(name=o.name, kind=o.kind, status="discharged", backend="simplifier", time=0.0, info=None, line=o.line)
            continue
        smt[i] = to_smt2(o.hyps, o.goal)
        jobs.append((i, smt[i], z3_ms, use_cvc5))

    def record(res, add=True):
        pending = []
        for idx, st, be, dt, info in res:
            o = obligs[idx]
            prev = results[idx]["time"] if (results[idx] and add) else 0.0
            results[idx] = dict(name=o.name, kind=o.kind, status=st, backend=be, time=round(dt + prev, 4), info=info, line=o.line)
            if st == "unknown":
                pending.append(idx)
        return pending

    pending = record(_pmap(_work_short, jobs, parallel), add=False)
    if z3_ms <= 4000 and not use_cvc5:
        return results
    min_gh = int(os.environ.get("PYVC_SLICE_MIN_GHOSTS", "6"))
    sl_jobs = []
    for idx in pending:
        o = obligs[idx]
        gh = getattr(o, "ghosts", None)
        if gh and len(gh) >= min_gh and o.kind != "canary":
            hy = slice_hyps(o.hyps, o.goal, gh)
            if len(hy) < len(o.hyps):
                sl_jobs.append((idx, to_smt2(hy, o.goal), z3_ms, use_cvc5))
    if sl_jobs:
        still = set(record(_pmap(_work, sl_jobs, parallel)))
        pending = [i for i in pending if i in still or i not in {j[0] for j in sl_jobs}]
    record(_pmap(_work_full, [(i, smt[i], z3_ms, use_cvc5) for i in pending], parallel))
    return results


def _work_full(job):
    """all hypotheses, after the short z3 attempt failed: cvc5, then z3 with the full budget"""
    idx, smt2, z3_ms, use_cvc5 = job
    try:
        total = 0.0
        info2 = "(cvc5 skipped)"
        if use_cvc5:
            st2, be2, dt2, info2 = _cvc5_check(smt2, CVC5_TIMEOUT_S)
            total += dt2
            if st2 != "unknown":
                return idx, st2, be2, total, info2
        st3, be3, dt3, info3 = _z3_check(smt2, z3_ms)
        total += dt3
        if st3 != "unknown":
            return idx, st3, be3, total, info3
        return idx, "unknown", "z3+cvc5", total, "z3: %s; cvc5: %s" % (info3, info2)
    except Exception as e:  # noqa
        return idx, "error", "z3", 0.0, "%s: %s" % (type(e).__name__, e)


def model_for(oblig, timeout_ms=20000):
    """In-process re-solve of one refuted obligation to decode its declared inputs."""
    s = z3.Solver()
    s.set("timeout", timeout_ms)
    for h in oblig.hyps:
        s.add(h)
    s.add(z3.Not(oblig.goal))
    if s.check() != z3.sat:
        return None
    m = s.model()
    out = {}
    for name, v in (oblig.inputs or []):
        try:
            out[name] = v.ty.decode(m, v.t)
        except Exception as e:  # noqa
            out[name] = "<undecodable: %s>" % e
    return out, m


def is_sat(hyps, timeout_ms=10000):
    s = z3.Solver()
    s.set("timeout", timeout_ms)
    for h in hyps:
        s.add(h)
    r = s.check()
    return "sat" if r == z3.sat else ("unsat" if r == z3.unsat else "unknown")


# ---- quantifier-free relaxation: instantiate the universally quantified hypotheses over the ground index terms ----
def _conjuncts(f):
    if z3.is_and(f):
        out = []
        for c in f.children():
            out += _conjuncts(c)
        return out
    return [f]


def _is_forall(f):
    return z3.is_quantifier(f) and f.is_forall()


def _ground_int_terms(fs, limit):
    seen, out = set(), []

    def visit(t, bound_depth):
        if z3.is_quantifier(t):
            return  # terms under binders may mention bound variables; skipped
        if z3.is_app(t):
            if t.sort() == z3.IntSort() and t.get_id() not in seen and not z3.is_int_value(t):
                seen.add(t.get_id())
                out.append(t)
            for c in t.children():
                visit(c, bound_depth)

    for f in fs:
        visit(f, 0)
    out.sort(key=lambda t: len(str(t)))
    return out[:limit]


def _skolemize_goal(goal, hyps):
    """negated goal as a list of quantifier-free-ish facts plus fresh skolem constants"""
    g = goal
    extra = []
    while True:
        if z3.is_implies(g):
            extra.append(g.arg(0))
            g = g.arg(1)
            continue
        if _is_forall(g):
            vs = [z3.FreshConst(g.var_sort(i), "sk") for i in range(g.num_vars())]
            g = z3.substitute_vars(g.body(), *reversed(vs))
            continue
        break
    return extra, g


def relax_check(hyps, goal, timeout_ms=15000, max_terms=14, rounds=2):
    """returns ('discharged'|'candidate'|'unknown', info).  'discharged' is sound (instances are consequences)."""
    extra, g = _skolemize_goal(goal, hyps)
    flat = []
    for h in list(hyps) + extra:
        flat += _conjuncts(h)
    quant = [h for h in flat if _is_forall(h)]
    qf = [h for h in flat if not z3.is_quantifier(h) and not _has_quant(h)]
    neg = z3.Not(g)
    facts = list(qf)
    if not _has_quant(neg):
        facts.append(neg)
    else:
        return "unknown", "negated goal keeps a quantifier"
    insts = []
    for _ in range(rounds):
        terms = _ground_int_terms(facts + insts, max_terms)
        if not terms:
            terms = [z3.IntVal(0)]
        new = []
        import itertools
        for q in quant:
            nv = q.num_vars()
            if nv > 2 or any(q.var_sort(i) != z3.IntSort() for i in range(nv)):
                continue
            for tup in itertools.product(terms, repeat=nv):
                new.append(z3.substitute_vars(q.body(), *reversed(tup)))
                if len(new) > 2500:
                    break
            if len(new) > 2500:
                break
        insts = new
    s = z3.Solver()
    s.set("timeout", timeout_ms)
    for f in facts:
        s.add(f)
    for f in insts:
        if not _has_quant(f):
            s.add(f)
    r = s.check()
    if r == z3.unsat:
        return "discharged", "quantifier-free instantiation (%d instances)" % len(insts)
    if r == z3.sat:
        return "candidate", str(s.model())[:3000]
    return "unknown", s.reason_unknown()


def _has_quant(f):
    if z3.is_quantifier(f):
        return True
    if z3.is_app(f):
        return any(_has_quant(c) for c in f.children())
    return False
