"""Assumed contracts of Python builtins / library calls used by the functions under contract, and the
spec-language builtins (forall, exists, implies, old, ...).  Everything in here is part of the trusted
base: `ASSUMED` lists each library fact in words, and every use is recorded in the evidence.
"""

import ast
import z3

from .ty import (INT, BOOL, STR, TEXT, NONE, Ty, IntT, BoolT, StrT, TextT, NoneT, TupleT, ObjT, ListT, DictT, SetT,
                 OptT, OrdDictT, MapT, RealT, REAL, str_code)
from .engine import Val, IntV, BoolV, StrV, NoneV, Unsupported, EmptyListT, PathDead, SpecEnv

ASSUMED = {
    "int(str)": "int(s) on a decimal string is a total function atoi(s); int(\"%d\" % n) == n",
    "str(int)": "str(n) / \"%d\" % n is an injective function itoa(n)",
    "format": "\"a\\tb\" % (...) builds the tab-separated field list [a, b]; a field made of several conversions is cat(...) of its pieces",
    "sorted": "sorted(xs) / xs.sort() returns a permutation of xs in non-decreasing order of the key",
    "dict-iteration": "iterating a dict/set visits every key exactly once (order: insertion order for OrdDict, arbitrary otherwise; two iterations over the same unmodified dict/set value use the same order)",
    "re.split-path": "list(filter(None, re.split('(>)|(<)', p))) yields the alternating orientation/name tokens of the path p",
}

LINE = ListT(STR)


def _lambda_vars(eng, n, st, tys):
    lam = n
    if not isinstance(lam, ast.Lambda):
        raise Unsupported("quantifier body must be a lambda")
    names = [a.arg for a in lam.args.args]
    if tys is None:
        tys = [INT] * len(names)
    if len(tys) != len(names):
        raise Unsupported("quantifier arity")
    vs = [Val(z3.FreshConst(t.sort(), "q_" + nm), t) for nm, t in zip(names, tys)]
    return names, vs, lam.body


def _quant(eng, n, st, forall):
    args = list(n.args)
    tys = None
    if len(args) == 2:
        t = eng.ev(args[0], st) if not isinstance(args[0], (ast.List, ast.Tuple)) else [eng.ev(a, st) for a in args[0].elts]
        tys = t if isinstance(t, list) else [t]
        for x in tys:
            if not isinstance(x, Ty):
                raise Unsupported("quantifier type argument")
        lam = args[1]
    else:
        lam = args[0]
    names, vs, body = _lambda_vars(eng, lam, st, tys)
    saved = {nm: st.env.get(nm) for nm in names}
    for nm, v in zip(names, vs):
        st.env[nm] = v
    try:
        b = eng.truthy(eng.ev(body, st))
    finally:
        for nm, v in saved.items():
            if v is None:
                st.env.pop(nm, None)
            else:
                st.env[nm] = v
    q = z3.ForAll if forall else z3.Exists
    return Val(q([v.t for v in vs], b), BOOL)


def b_forall(eng, n, st):
    return _quant(eng, n, st, True)


def b_exists(eng, n, st):
    return _quant(eng, n, st, False)


def b_implies(eng, n, st):
    a = eng.truthy(eng.ev(n.args[0], st))
    eng.guards.append(a)
    try:
        b = eng.truthy(eng.ev(n.args[1], st))
    finally:
        eng.guards.pop()
    return Val(z3.Implies(a, b), BOOL)


def b_iff(eng, n, st):
    a = eng.truthy(eng.ev(n.args[0], st))
    b = eng.truthy(eng.ev(n.args[1], st))
    return Val(a == b, BOOL)


def b_old(eng, n, st):
    ctx = getattr(eng, "_spec_ctx", None)
    oldenv = (ctx.old if ctx is not None and ctx.old is not None else st.old)
    s = st.copy()
    s.env = dict(oldenv)
    # quantified variables currently bound stay visible
    for k, v in st.env.items():
        if k not in s.env:
            s.env[k] = v
    return eng.ev(n.args[0], s)


def b_len(eng, n, st):
    v = eng.ev(n.args[0], st)
    if isinstance(v.ty, OptT):
        v = eng.coerce(v, v.ty.inner, st, n, "len()")
    if isinstance(v.ty, ListT):
        return Val(v.ty.len(v.t), INT)
    if isinstance(v.ty, TupleT):
        return IntV(len(v.ty.elts))
    if isinstance(v.ty, EmptyListT):
        return IntV(0)
    if isinstance(v.ty, TextT):
        return Val(z3.Length(v.t), INT)
    if isinstance(v.ty, StrT):
        f = eng.uf("strlen", [STR], INT)
        eng.assumptions_used.add("len() of an identity string is an uninterpreted function (>= 0, 0 exactly for '')")
        st.assume(z3.And(f(v.t) >= 0, (f(v.t) == 0) == (v.t == str_code(""))))
        return Val(f(v.t), INT)
    if isinstance(v.ty, ObjT) and "__len__" in getattr(v.ty, "dunder", {}):
        f = v.ty.dunder["__len__"]
        fv = Val(v.ty.get(v.t, f), v.ty.fields[f])
        if fv.ty == INT:
            return fv
        v = fv
    if isinstance(v.ty, (SetT, DictT)):
        has = v.ty.has(v.t) if isinstance(v.ty, DictT) else v.t
        kty = v.ty.k if isinstance(v.ty, DictT) else v.ty.elt
        t = card_of(eng, has, kty)
        st.assume(t >= 0)
        return Val(t, INT)
    raise Unsupported("len() of %s at line %s" % (v.ty, getattr(n, "lineno", "?")))


def card_of(eng, has, kty):
    """cardinality of a membership array: uninterpreted, tied to the ghost key enumeration in key_order (len(keyseq) == card)"""
    eng.assumptions_used.add("len() of a set/dict is an uninterpreted cardinality function (>= 0), equal to the length of its ghost key enumeration")
    card = eng.uf("card_" + kty.name.replace("<", "_").replace(">", "_").replace(",", "_").replace(" ", ""), [SetT(kty)], INT)
    return card(has)


def atoi(eng):
    eng.assumptions_used.add("assumed: " + ASSUMED["int(str)"])
    return eng.uf("atoi", [STR], INT)


def itoa(eng):
    eng.assumptions_used.add("assumed: " + ASSUMED["str(int)"])
    return eng.uf("itoa", [INT], STR)


def b_int(eng, n, st):
    v = eng.ev(n.args[0], st)
    if isinstance(v.ty, IntT):
        return v
    if isinstance(v.ty, StrT):
        return Val(atoi(eng)(v.t), INT)
    if isinstance(v.ty, BoolT):
        return Val(z3.If(v.t, 1, 0), INT)
    raise Unsupported("int() of %s at line %s" % (v.ty, getattr(n, "lineno", "?")))


def b_float(eng, n, st):
    v = eng.ev(n.args[0], st)
    if isinstance(v.ty, RealT):
        return v
    if isinstance(v.ty, IntT):
        return Val(z3.ToReal(v.t), REAL)
    raise Unsupported("float() of %s" % v.ty)


def b_str(eng, n, st):
    v = eng.ev(n.args[0], st)
    if isinstance(v.ty, StrT):
        return v
    if isinstance(v.ty, IntT):
        t_ = itoa(eng)(v.t)
        st.assume(atoi(eng)(t_) == v.t)
        return Val(t_, STR)
    if isinstance(v.ty, ListT) and isinstance(v.ty.elt, StrT):
        return v  # str() of a string that is modelled as a field/token list
    raise Unsupported("str() of %s" % v.ty)


def b_minmax(which):
    def f(eng, n, st):
        vs = [eng.ev(a, st) for a in n.args]
        if len(vs) < 2 or not all(isinstance(v.ty, IntT) for v in vs):
            raise Unsupported("%s() form at line %s" % (which, getattr(n, "lineno", "?")))
        t = vs[0].t
        for v in vs[1:]:
            t = z3.If(v.t < t, v.t, t) if which == "min" else z3.If(v.t > t, v.t, t)
        return Val(t, INT)
    return f


def b_abs(eng, n, st):
    v = eng.ev(n.args[0], st)
    return Val(z3.If(v.t < 0, -v.t, v.t), INT)


def b_list(eng, n, st):
    if not n.args:
        return Val(None, EmptyListT())
    a = n.args[0]
    # list(filter(None, re.split("(>)|(<)", X)))  -> token list of a path
    if isinstance(a, ast.Call) and ast.unparse(a.func) == "filter" and ast.unparse(a.args[0]) == "None":
        inner = a.args[1]
        if isinstance(inner, ast.Call) and ast.unparse(inner.func) == "re.split" and ast.unparse(inner.args[0]) in ("'(>)|(<)'",):
            p = eng.ev(inner.args[1], st)
            eng.assumptions_used.add("assumed: " + ASSUMED["re.split-path"])
            return path_tokens(eng, p, st, n)
    if isinstance(a, ast.Call) and ast.unparse(a.func) == "filter" and isinstance(a.args[0], ast.Lambda):
        # list(filter(lambda x: P(x), L)): the elements of L that satisfy P, in L's order (ghost position maps both ways)
        lam = a.args[0]
        L = eng.ev(a.args[1], st) if not (isinstance(a.args[1], ast.Call) and ast.unparse(a.args[1].func) == "list") else b_list(eng, a.args[1], st)
        if isinstance(L.ty, ListT):
            eng.assumptions_used.add("assumed: list(filter(P, L)) = the elements of L satisfying P, in order")
            ty = L.ty
            F = Val(ty.fresh("filtered"), ty)
            fpos = z3.FreshConst(z3.ArraySort(z3.IntSort(), z3.IntSort()), "fpos")
            finv = z3.FreshConst(z3.ArraySort(z3.IntSort(), z3.IntSort()), "finv")
            j, i2 = z3.FreshConst(z3.IntSort(), "fj"), z3.FreshConst(z3.IntSort(), "fi")
            nm = lam.args.args[0].arg

            def pred(t):
                saved = st.env.get(nm)
                st.env[nm] = Val(t, ty.elt)
                eng.in_spec += 1
                try:
                    return eng.truthy(eng.ev(lam.body, st))
                finally:
                    eng.in_spec -= 1
                    if saved is None:
                        st.env.pop(nm, None)
                    else:
                        st.env[nm] = saved
            LF, LL = ty.len(F.t), ty.len(L.t)
            st.assume(LF >= 0)
            st.assume(z3.ForAll([j], z3.Implies(z3.And(0 <= j, j < LF), z3.And(0 <= fpos[j], fpos[j] < LL, z3.Select(ty.arr(L.t), fpos[j]) == z3.Select(ty.arr(F.t), j),
                                                                            pred(z3.Select(ty.arr(F.t), j)), finv[fpos[j]] == j))))
            st.assume(z3.ForAll([j, i2], z3.Implies(z3.And(0 <= j, j < i2, i2 < LF), fpos[j] < fpos[i2])))
            st.assume(z3.ForAll([i2], z3.Implies(z3.And(0 <= i2, i2 < LL, pred(z3.Select(ty.arr(L.t), i2))), z3.And(0 <= finv[i2], finv[i2] < LF, fpos[finv[i2]] == i2))))
            if "filter_pos" in eng.c.ghost:
                st.env["filter_pos"] = Val(fpos, MapT(INT, INT))
                st.env["filter_inv"] = Val(finv, MapT(INT, INT))
            return F
    if isinstance(a, ast.Call) and isinstance(a.func, ast.Attribute) and a.func.attr == "keys" and not a.args:
        d = eng.ev(a.func.value, st)
        if isinstance(d.ty, OrdDictT):
            return Val(d.ty.keys(d.t), d.ty.kl)
        if isinstance(d.ty, DictT):
            seq, _pos = key_order(eng, d.ty.has(d.t), d.ty.k, st)
            return seq
    v = eng.ev(a, st)
    if isinstance(v.ty, ListT):
        return v
    raise Unsupported("list() of %s at line %s" % (v.ty, getattr(n, "lineno", "?")))


def path_tokens(eng, p, st, n):
    """A path value is modelled directly as its token list ListT(STR) (alternating orientation / name)."""
    if isinstance(p.ty, ListT) and isinstance(p.ty.elt, StrT):
        return p
    if isinstance(p.ty, StrT):
        v = Val(eng.uf("tokens_of", [STR], LINE)(p.t), LINE)
        st.assume(LINE.len(v.t) >= 0)
        return v
    raise Unsupported("path tokens of %s at line %s" % (p.ty, getattr(n, "lineno", "?")))


def b_isinstance(eng, n, st):
    v = eng.ev(n.args[0], st)
    tn = ast.unparse(n.args[1])
    m = {"bytes": None, "str": (StrT, TextT), "int": (IntT,), "list": (ListT,), "dict": (DictT,), "tuple": (TupleT,)}
    if tn == "bytes":
        return BoolV(False) if not getattr(v.ty, "is_bytes", False) else BoolV(True)
    if tn in m:
        return BoolV(isinstance(v.ty, m[tn]))
    if isinstance(v.ty, ObjT):
        return BoolV(v.ty.cname == tn)
    raise Unsupported("isinstance(.., %s)" % tn)


def b_defined(eng, n, st):
    nm = n.args[0].id
    if nm in st.defd:
        return Val(st.defd[nm], BOOL)
    return BoolV(nm in st.env)


def b_is_none(eng, n, st):
    v = eng.ev(n.args[0], st)
    if isinstance(v.ty, OptT):
        return Val(v.ty.is_none(v.t), BOOL)
    return BoolV(isinstance(v.ty, NoneT))


def b_val(eng, n, st):
    v = eng.ev(n.args[0], st)
    if isinstance(v.ty, OptT):
        return Val(v.ty.val(v.t), v.ty.inner)
    return v


def b_ite(eng, n, st):
    c = eng.truthy(eng.ev(n.args[0], st))
    a = eng.ev(n.args[1], st)
    b = eng.ev(n.args[2], st)
    a, b = eng.same_type(a, b, st, n)
    return Val(z3.If(c, a.t, b.t), a.ty)


def b_print(eng, n, st):
    """print(x, file=w): w is an output sink modelled as the list of printed records"""
    fk = [k for k in n.keywords if k.arg == "file"]
    if not fk:
        if not n.args:
            return NoneV  # print() to stdout: not an observable of any property
        raise Unsupported("print without file= at line %s" % n.lineno)
    w = eng.ev(fk[0].value, st)
    if not isinstance(w.ty, ListT):
        raise Unsupported("print target %s" % w.ty)
    x = eng.coerce(eng.ev(n.args[0], st), w.ty.elt, st, n, "printed record")
    new = Val(w.ty.mk(z3.Store(w.ty.arr(w.t), w.ty.len(w.t), x.t), w.ty.len(w.t) + 1), w.ty)
    eng.assign_target(fk[0].value, new, st, n)
    return NoneV


def b_sorted(eng, n, st):
    v = eng.ev(n.args[0], st)
    return sorted_list(eng, v, n, st)


def sorted_list(eng, v, n, st, key=None):
    """assumed contract of sorted()/list.sort(): permutation (witnessed both ways by ghost maps) + order"""
    if isinstance(v.ty, SetT) and isinstance(v.ty.elt, IntT):
        # sorted(set of ints): strictly increasing list with exactly the members (ghost position map, no existential)
        eng.assumptions_used.add("assumed: " + ASSUMED["sorted"])
        lty = ListT(INT)
        res = Val(lty.fresh("sortedset"), lty)
        L = lty.len(res.t)
        pos = z3.FreshConst(z3.ArraySort(z3.IntSort(), z3.IntSort()), "spos")
        i, j, x = z3.FreshConst(z3.IntSort(), "si"), z3.FreshConst(z3.IntSort(), "sj"), z3.FreshConst(z3.IntSort(), "sx")
        st.assume(L >= 0)
        st.assume(z3.ForAll([i, j], z3.Implies(z3.And(0 <= i, i < j, j < L), z3.Select(lty.arr(res.t), i) < z3.Select(lty.arr(res.t), j))))
        st.assume(z3.ForAll([i], z3.Implies(z3.And(0 <= i, i < L), z3.Select(v.t, z3.Select(lty.arr(res.t), i)))))
        st.assume(z3.ForAll([x], z3.Implies(z3.Select(v.t, x), z3.And(0 <= pos[x], pos[x] < L, z3.Select(lty.arr(res.t), pos[x]) == x))))
        return res
    if isinstance(v.ty, SetT) and isinstance(v.ty.elt, StrT):
        # sorted(set of strings): a function of the set; members exactly the set, strictly increasing in python's string order,
        # which is an uninterpreted strict total order `str_lt` on the identity-string codes
        eng.assumptions_used.add("assumed: sorted(set of str) lists exactly the members, strictly increasing in python's (lexicographic) string order str_lt")
        lty = ListT(STR)
        f = eng.uf("sorted_strs", [v.ty], lty)
        lt = eng.uf("str_lt", [STR, STR], BOOL)
        pos = eng.uf("sorted_strs_pos", [v.ty, STR], INT)
        if "sorted_strs" not in eng.global_axioms:
            s_ = z3.FreshConst(v.ty.sort(), "ss")
            i, j, x = z3.FreshConst(z3.IntSort(), "si"), z3.FreshConst(z3.IntSort(), "sj"), z3.FreshConst(z3.IntSort(), "sx")
            r = f(s_)
            L = lty.len(r)
            eng.global_axioms["sorted_strs"] = z3.ForAll([s_], z3.And(
                L >= 0,
                z3.ForAll([i, j], z3.Implies(z3.And(0 <= i, i < j, j < L), lt(z3.Select(lty.arr(r), i), z3.Select(lty.arr(r), j)))),
                z3.ForAll([i], z3.Implies(z3.And(0 <= i, i < L), z3.And(z3.Select(s_, z3.Select(lty.arr(r), i)), pos(s_, z3.Select(lty.arr(r), i)) == i))),
                z3.ForAll([x], z3.Implies(z3.Select(s_, x), z3.And(0 <= pos(s_, x), pos(s_, x) < L, z3.Select(lty.arr(r), pos(s_, x)) == x)))))
        return Val(f(v.t), lty)
    if isinstance(v.ty, SetT):
        raise Unsupported("sorted(set) of %s at line %s" % (v.ty.elt, n.lineno))
    ty = v.ty
    if not isinstance(ty, ListT):
        raise Unsupported("sorted of %s" % ty)
    eng.assumptions_used.add("assumed: " + ASSUMED["sorted"])
    res = Val(ty.fresh("sorted"), ty)
    L = ty.len(v.t)
    st.assume(ty.len(res.t) == L)
    fwd = z3.FreshConst(z3.ArraySort(z3.IntSort(), z3.IntSort()), "perm")
    bwd = z3.FreshConst(z3.ArraySort(z3.IntSort(), z3.IntSort()), "perminv")
    i = z3.FreshConst(z3.IntSort(), "pi")
    rng = z3.And(0 <= i, i < L)
    st.assume(z3.ForAll([i], z3.Implies(rng, z3.And(0 <= fwd[i], fwd[i] < L, bwd[fwd[i]] == i,
                                                    z3.Select(ty.arr(res.t), fwd[i]) == z3.Select(ty.arr(v.t), i)))))
    st.assume(z3.ForAll([i], z3.Implies(rng, z3.And(0 <= bwd[i], bwd[i] < L, fwd[bwd[i]] == i))))
    # redundant consequence, stated for the benefit of trigger-based instantiation: res[t] is the element that moved to t
    st.assume(z3.ForAll([i], z3.Implies(rng, z3.Select(ty.arr(res.t), i) == z3.Select(ty.arr(v.t), bwd[i]))))
    eng.last_perm = (fwd, bwd)
    if "sort_perm" in eng.c.ghost:
        st.env["sort_perm"] = Val(fwd, MapT(INT, INT))
        st.env["sort_perm_inv"] = Val(bwd, MapT(INT, INT))
    kw = {k.arg: k.value for k in n.keywords}
    keyf = kw.get("key", key)
    if keyf is not None and isinstance(keyf, ast.Call) and ast.unparse(keyf.func).endswith("cmp_to_key"):
        # sort with a comparator: permutation + order w.r.t. the comparator (a pure function under contract)
        cmpname = ast.unparse(keyf.args[0])
        con = eng.reg.lookup_simple(eng.c.file, cmpname, eng.imports)
        eng.assumptions_used.add("assumed: list.sort(key=cmp_to_key(f)) yields a permutation ordered w.r.t. f when f is a total order (proved for compare_gaf in C08)")
        if con is not None and con.pure:
            f = eng.uf("fn_" + con.func.replace(".", "_"), [con.params[p] for p in con.params], con.returns)
            a, b = z3.FreshConst(z3.IntSort(), "sa"), z3.FreshConst(z3.IntSort(), "sb")
            st.assume(z3.ForAll([a, b], z3.Implies(z3.And(0 <= a, a < b, b < L), f(z3.Select(ty.arr(res.t), a), z3.Select(ty.arr(res.t), b)) <= 0)))
        return res
    a, b = z3.FreshConst(z3.IntSort(), "sa"), z3.FreshConst(z3.IntSort(), "sb")

    def keyof(t):
        if keyf is None:
            if isinstance(ty.elt, (IntT, StrT)):
                return t
            raise Unsupported("sorted() of non-int list without key")
        if isinstance(keyf, ast.Lambda):
            nm = keyf.args.args[0].arg
            saved = st.env.get(nm)
            st.env[nm] = Val(t, ty.elt)
            eng.in_spec += 1  # the key is evaluated on a generic element: its own failures (KeyError...) are the caller's domain
            try:
                kv = eng.ev(keyf.body, st)
            finally:
                eng.in_spec -= 1
                if saved is None:
                    st.env.pop(nm, None)
                else:
                    st.env[nm] = saved
            return kv
        raise Unsupported("sort key form")

    ka = keyof(z3.Select(ty.arr(res.t), a))
    kb = keyof(z3.Select(ty.arr(res.t), b))
    if isinstance(ka, Val):
        if isinstance(ka.ty, IntT):
            le = ka.t <= kb.t
        elif isinstance(ka.ty, TupleT) and all(isinstance(e, IntT) for e in ka.ty.elts):
            le = lex_le([ka.ty.get(ka.t, j) for j in range(len(ka.ty.elts))], [kb.ty.get(kb.t, j) for j in range(len(kb.ty.elts))])
        else:
            # keys involving identity strings: the string order is not modelled; only the permutation part of the contract is used
            eng.assumptions_used.add("sort key with a string component: only 'the result is a permutation' is used (order not modelled)")
            return res
    elif keyf is None and isinstance(ty.elt, StrT):
        # plain sorted() of strings: python's string order as the uninterpreted strict total order str_lt on identity codes
        lt = eng.uf("str_lt", [STR, STR], BOOL)
        eng.assumptions_used.add("assumed: sorted(list of str) is ordered by python's (lexicographic) string order str_lt (uninterpreted)")
        le = z3.Or(ka == kb, lt(ka, kb))
    else:
        le = ka <= kb
    st.assume(z3.ForAll([a, b], z3.Implies(z3.And(0 <= a, a < b, b < L), le)))
    return res


def lex_le(xs, ys):
    if not xs:
        return z3.BoolVal(True)
    return z3.Or(xs[0] < ys[0], z3.And(xs[0] == ys[0], lex_le(xs[1:], ys[1:])))


def lex_lt(xs, ys):
    if not xs:
        return z3.BoolVal(False)
    return z3.Or(xs[0] < ys[0], z3.And(xs[0] == ys[0], lex_lt(xs[1:], ys[1:])))


def b_lex_lt(eng, n, st):
    a = eng.ev(n.args[0], st)
    b = eng.ev(n.args[1], st)
    xs = [z3.If(t, 1, 0) if isinstance(e, BoolT) else t for t, e in ((a.ty.get(a.t, j), a.ty.elts[j]) for j in range(len(a.ty.elts)))]
    ys = [z3.If(t, 1, 0) if isinstance(e, BoolT) else t for t, e in ((b.ty.get(b.t, j), b.ty.elts[j]) for j in range(len(b.ty.elts)))]
    return Val(lex_lt(xs, ys), BOOL)


def b_set(eng, n, st):
    if not n.args:
        return Val(None, EmptySetT())
    v = eng.ev(n.args[0], st)
    if isinstance(v.ty, SetT):
        return v
    if isinstance(v.ty, ListT):
        sty = SetT(v.ty.elt)
        x = z3.FreshConst(v.ty.elt.sort(), "sx")
        i = z3.FreshConst(z3.IntSort(), "si")
        body = z3.Exists([i], z3.And(0 <= i, i < v.ty.len(v.t), z3.Select(v.ty.arr(v.t), i) == x))
        r = z3.FreshConst(sty.sort(), "setof")
        st.assume(z3.ForAll([x], z3.Select(r, x) == body))
        return Val(r, sty)
    raise Unsupported("set() of %s" % v.ty)


class EmptySetT(Ty):
    name = "EmptySet"

    def sort(self):
        raise Unsupported("untyped empty set; declare the variable in the contract's locals")


def b_dict(eng, n, st):
    if not n.args and not n.keywords:
        return Val(None, EmptyDictT())
    if len(n.args) == 1:
        v = eng.ev(n.args[0], st)
        if isinstance(v.ty, DictT):
            return v
    raise Unsupported("dict(...) at line %s" % n.lineno)


class EmptyDictT(Ty):
    name = "EmptyDict"

    def sort(self):
        raise Unsupported("untyped empty dict; declare the variable in the contract's locals")


def b_untok(eng, n, st):
    v = eng.ev(n.args[0], st)
    return Val(untok(eng)(v.t), LINE)


def b_cat(eng, n, st):
    a = eng.ev(n.args[0], st)
    b = eng.ev(n.args[1], st)
    return Val(cat(eng)(a.t, b.t), STR)


def b_keys(eng, n, st):
    v = eng.ev(n.args[0], st)
    if isinstance(v.ty, OrdDictT):
        return Val(v.ty.keys(v.t), v.ty.kl)
    if isinstance(v.ty, DictT) and getattr(eng, "in_ghost", False):
        # ghost code may name an enumeration of a plain dict's keys (distinct, exactly the members, as long as len(d))
        seq, _pos = key_order(eng, v.ty.has(v.t), v.ty.k, st)
        return seq
    raise Unsupported("keys() of %s" % v.ty)


def b_getattr(eng, n, st):
    obj = eng.ev(n.args[0], st)
    name = eng.ev(n.args[1], st)
    ty = obj.ty
    if not isinstance(ty, ObjT) or not isinstance(name.ty, StrT):
        raise Unsupported("getattr form at line %s" % n.lineno)
    groups = {}
    for f in ty.order:
        groups.setdefault(ty.fields[f].name, []).append(f)
    # the fields the name can denote on this path decide the result type
    cands = []
    for f in ty.order:
        s = z3.Solver()
        s.set("timeout", 500)
        s.add(*st.pc)
        s.add(name.t == str_code(f))
        if s.check() != z3.unsat:
            cands.append(f)
    if not cands:
        eng.oblige(st, "safety", "AttributeError:getattr", z3.BoolVal(False), n)
        raise PathDead()
    tys = {ty.fields[f].name for f in cands}
    if len(tys) != 1:
        raise Unsupported("getattr may denote fields of different types %s at line %s" % (cands, n.lineno))
    eng.oblige(st, "safety", "AttributeError:getattr(%s)" % ast.unparse(n.args[1]), z3.Or(*[name.t == str_code(f) for f in cands]), n)
    t = ty.get(obj.t, cands[-1])
    for f in reversed(cands[:-1]):
        t = z3.If(name.t == str_code(f), ty.get(obj.t, f), t)
    return Val(t, ty.fields[cands[0]])


def b_startswith(eng, recv, n, st):
    a = eng.ev(n.args[0], st)
    sv = z3.simplify(a.t)
    from .ty import str_of_code
    if z3.is_int_value(sv) and len(str_of_code(sv.as_long())) == 1:
        return Val(eng.uf("str_head", [STR], STR)(recv.t) == a.t, BOOL)
    raise Unsupported("startswith form at line %s" % n.lineno)


def b_same(eng, n, st):
    """structural (term) equality, stronger than element-wise list equality"""
    a = eng.ev(n.args[0], st)
    b = eng.ev(n.args[1], st)
    a, b = eng.same_type(a, b, st, n)
    return Val(a.t == b.t, BOOL)


def b_sorted_strs(eng, n, st):
    v = eng.ev(n.args[0], st)
    return sorted_list(eng, v, n, st)


def b_shift_above(eng, n, st):
    """shift_above(arr, u, d): the array x -> arr[x] + (d if x > u else 0)   (ghost array-wide update)"""
    a = eng.ev(n.args[0], st)
    u = eng.ev(n.args[1], st)
    d = eng.ev(n.args[2], st)
    r = z3.FreshConst(a.ty.sort(), "shifted")
    x = z3.FreshConst(z3.IntSort(), "sx")
    st.assume(z3.ForAll([x], z3.Select(r, x) == z3.Select(a.t, x) + z3.If(x > u.t, d.t, 0)))
    return Val(r, a.ty)


def l_sys_exit(eng, n, st):
    code = eng.ev(n.args[0], st) if n.args else IntV(0)
    st.env["__exit_code__"] = code
    raise RaiseNow("SystemExit")


class RaiseNow(Exception):
    def __init__(self, exc):
        self.exc = exc


def b_cache_positions(eng, n, st):
    """cache_positions(posmap, L): the map that sends every element of the list L to its index and agrees with posmap elsewhere (ghost)"""
    pm = eng.ev(n.args[0], st)
    L = eng.ev(n.args[1], st)
    r = z3.FreshConst(pm.ty.sort(), "cachepos")
    i = z3.FreshConst(z3.IntSort(), "cpi")
    x = z3.FreshConst(pm.ty.k.sort(), "cpx")
    lt = L.ty
    inl = z3.Exists([i], z3.And(0 <= i, i < lt.len(L.t), z3.Select(lt.arr(L.t), i) == x))
    st.assume(z3.ForAll([x], z3.Implies(z3.Not(inl), z3.Select(r, x) == z3.Select(pm.t, x))))
    # for members: some index holding the element (unique when the elements are pairwise different)
    st.assume(z3.ForAll([i], z3.Implies(z3.And(0 <= i, i < lt.len(L.t)), z3.And(0 <= z3.Select(r, z3.Select(lt.arr(L.t), i)), z3.Select(r, z3.Select(lt.arr(L.t), i)) < lt.len(L.t),
                                                                               z3.Select(lt.arr(L.t), z3.Select(r, z3.Select(lt.arr(L.t), i))) == z3.Select(lt.arr(L.t), i)))))
    return Val(r, pm.ty)


def b_assign_members(eng, n, st):
    """assign_members(m, S, v): the map that sends every member of the set S to v and agrees with m elsewhere (ghost array-wide update)"""
    m = eng.ev(n.args[0], st)
    S = eng.ev(n.args[1], st)
    v = eng.coerce(eng.ev(n.args[2], st), m.ty.v, st, n)
    r = z3.FreshConst(m.ty.sort(), "assigned")
    x = z3.FreshConst(m.ty.k.sort(), "amx")
    st.assume(z3.ForAll([x], z3.Select(r, x) == z3.If(z3.Select(S.t, x), v.t, z3.Select(m.t, x))))
    return Val(r, m.ty)


def b_last_keypos(eng, n, st):
    """last_keypos(): position map of the most recent ghost enumeration of a set (list comprehension over a set)"""
    v = getattr(eng, "last_keypos", None)
    if v is None:
        raise Unsupported("last_keypos() before any set enumeration at line %s" % n.lineno)
    return v


def b_keypos_n(eng, n, st):
    """keypos_n(k): position map of the k-th ghost enumeration (set / dict iteration order) made so far in this function"""
    k = n.args[0].value
    return eng.key_orders[k][1]


def b_keyseq_n(eng, n, st):
    """keyseq_n(k): the k-th ghost enumeration itself (a list of distinct members covering the set)"""
    k = n.args[0].value
    return eng.key_orders[k][0]


def b_const_map(eng, n, st):
    """const_map(m, v): the map of m's type that sends every key to v (ghost initialisation)"""
    m = eng.ev(n.args[0], st)
    v = eng.coerce(eng.ev(n.args[1], st), m.ty.v, st, n)
    return Val(z3.K(m.ty.k.sort(), v.t), m.ty)


def b_members(eng, n, st):
    """members(S): (ghost) the enumeration of a set in its iteration order, the one a later `for x in S` over the same set value uses"""
    v = eng.ev(n.args[0], st)
    if not isinstance(v.ty, SetT):
        raise Unsupported("members() of %s" % v.ty)
    seq, _pos = key_order(eng, v.t, v.ty.elt, st)
    return seq


def b_remap(eng, n, st):
    """remap(m, lambda x: cond, lambda x: val): (ghost) the map that sends x to val(x) where cond(x) holds and agrees with m elsewhere"""
    m = eng.ev(n.args[0], st)
    cl, vl = n.args[1], n.args[2]
    x = z3.FreshConst(m.ty.k.sort(), "rmx")
    out = []
    for lam in (cl, vl):
        nm = lam.args.args[0].arg
        saved = st.env.get(nm)
        st.env[nm] = Val(x, m.ty.k)
        eng.in_spec += 1
        try:
            out.append(eng.ev(lam.body, st))
        finally:
            eng.in_spec -= 1
            if saved is None:
                st.env.pop(nm, None)
            else:
                st.env[nm] = saved
    cond = eng.truthy(out[0])
    val = eng.coerce(out[1], m.ty.v, st, n)
    r = z3.FreshConst(m.ty.sort(), "remapped")
    st.assume(z3.ForAll([x], z3.Select(r, x) == z3.If(cond, val.t, z3.Select(m.t, x))))
    return Val(r, m.ty)


def b_card(eng, n, st):
    """card(S): (spec) the uninterpreted cardinality of a set / of a dict's key set, the one len() uses"""
    v = eng.ev(n.args[0], st)
    if isinstance(v.ty, DictT):
        return Val(card_of(eng, v.ty.has(v.t), v.ty.k), INT)
    if isinstance(v.ty, SetT):
        return Val(card_of(eng, v.t, v.ty.elt), INT)
    raise Unsupported("card() of %s" % v.ty)


def b_card_mono(eng, n, st):
    """card_mono(S, D): the INSTANCE  (every member of S is a key of D) -> card(S) <= card(D)  of the monotonicity of finite cardinality, and
    card(S) >= 0; meant for contract `axioms` (listed as an assumption: a theorem about finite sets, not about the code)"""
    s_ = eng.ev(n.args[0], st)
    d_ = eng.ev(n.args[1], st)
    hs = s_.t if isinstance(s_.ty, SetT) else s_.ty.has(s_.t)
    hd = d_.t if isinstance(d_.ty, SetT) else d_.ty.has(d_.t)
    kty = s_.ty.elt if isinstance(s_.ty, SetT) else s_.ty.k
    x = z3.FreshConst(kty.sort(), "cmx")
    return Val(z3.And(card_of(eng, hs, kty) >= 0,
                      z3.Implies(z3.ForAll([x], z3.Implies(z3.Select(hs, x), z3.Select(hd, x))), card_of(eng, hs, kty) <= card_of(eng, hd, kty))), BOOL)


BUILTINS = {
    "card": b_card, "card_mono": b_card_mono,
    "remap": b_remap,
    "members": b_members,
    "const_map": b_const_map,
    "keypos_n": b_keypos_n, "keyseq_n": b_keyseq_n,
    "last_keypos": b_last_keypos,
    "assign_members": b_assign_members,
    "cache_positions": b_cache_positions,
    "shift_above": b_shift_above,
    "float": b_float,
    "sorted_strs": b_sorted_strs,
    "same": b_same,
    "getattr": b_getattr,
    "untok": b_untok, "cat": b_cat, "keys": b_keys,
    "forall": b_forall, "exists": b_exists, "implies": b_implies, "iff": b_iff, "old": b_old, "len": b_len, "int": b_int,
    "str": b_str, "min": b_minmax("min"), "max": b_minmax("max"), "abs": b_abs, "list": b_list, "isinstance": b_isinstance,
    "defined": b_defined, "is_none": b_is_none, "val": b_val, "ite": b_ite, "print": b_print, "sorted": b_sorted,
    "lex_lt": b_lex_lt, "set": b_set, "dict": b_dict,
}

LIBCALLS = {}
PATTERN_CALLS = {}


def p_tab_join(eng, n, st):
    v = eng.ev(n.args[0], st)
    if isinstance(v.ty, ListT) and isinstance(v.ty.elt, StrT):
        eng.assumptions_used.add("assumed: '\\t'.join(fields) is the tab-separated line with exactly these fields (fields contain no tab)")
        return Val(v.t, v.ty, meta={"leading_tab": False})
    raise Unsupported("'\\t'.join of %s at line %s" % (v.ty, n.lineno))


PATTERN_CALLS["'\\t'.join"] = p_tab_join


def l_pickle_dump(eng, n, st):
    v = eng.ev(n.args[0], st)
    eng.assumptions_used.add("assumed: pickle.dump followed by pickle.load returns an equal object")
    for g, gty in eng.c.ghost.items():
        if g.startswith("pickled") and gty == v.ty:
            st.env[g] = v
            return NoneV
    raise Unsupported("pickle.dump: the contract declares no ghost `pickled_*` of type %s" % v.ty)


LIBCALLS["pickle.dump"] = l_pickle_dump


def l_re_split(eng, n, st):
    pat = ast.unparse(n.args[0])
    x = eng.ev(n.args[1], st)
    if pat == "'>|<'" and isinstance(x.ty, StrT):
        eng.assumptions_used.add("assumed: re.split('>|<', p) = [''] + the node names of the path p")
        v = Val(eng.uf("split_names", [STR], LINE)(x.t), LINE)
        st.assume(LINE.len(v.t) >= 1)
        return v
    raise Unsupported("re.split(%s, ...) at line %s has no contract" % (pat, n.lineno))


LIBCALLS["re.split"] = l_re_split

RE_MATCH_NAMES = {}


def l_re_match(eng, n, st):
    """re.match(LITERAL, s): an uninterpreted predicate of s per regex literal; what the literal accepts is the subject of the regex lemmas"""
    if not isinstance(n.args[0], ast.Constant):
        raise Unsupported("re.match with a non-literal pattern at line %s" % n.lineno)
    pat = n.args[0].value
    name = RE_MATCH_NAMES.setdefault(pat, "re_match_%d" % len(RE_MATCH_NAMES))
    eng.regex_literals = getattr(eng, "regex_literals", {})
    eng.regex_literals[name] = pat
    x = eng.ev(n.args[1], st)
    return Val(eng.uf(name, [STR], BOOL)(x.t), BOOL)


def l_re_findall(eng, n, st):
    pat = ast.unparse(n.args[0])
    x = eng.ev(n.args[1], st)
    if pat == "'[><][^><]+'" and isinstance(x.ty, StrT):
        eng.assumptions_used.add("assumed: re.findall('[><][^><]+', p) = the oriented steps of the path string p, in order")
        v = Val(eng.uf("steps_of", [STR], LINE)(x.t), LINE)
        st.assume(LINE.len(v.t) >= 0)
        return v
    raise Unsupported("re.findall(%s, ...) at line %s has no contract" % (pat, n.lineno))


def p_empty_join(eng, n, st):
    v = eng.ev(n.args[0], st)
    if isinstance(v.ty, ListT) and isinstance(v.ty.elt, StrT):
        t_ = strjoin(eng)(v.t)
        st.assume(untok(eng)(t_) == v.t)
        return Val(t_, STR)
    raise Unsupported("''.join of %s at line %s" % (v.ty, n.lineno))


PATTERN_CALLS["''.join"] = p_empty_join
LIBCALLS["re.findall"] = l_re_findall
LIBCALLS["re.match"] = l_re_match
LIBCALLS["sys.exit"] = l_sys_exit


# ---- methods on values ---------------------------------------------------------------------------------
def m_list_append(eng, recv, n, st):
    ty = recv.ty
    x = eng.ev(n.args[0], st)
    if isinstance(ty, EmptyListT):
        ty = ListT(x.ty)
        recv = Val(ty.empty(), ty)
    x = eng.coerce(x, ty.elt, st, n, "appended element")
    eng.check_alias(n.func.value, n)
    new = Val(ty.mk(z3.Store(ty.arr(recv.t), ty.len(recv.t), x.t), ty.len(recv.t) + 1), ty)
    if isinstance(ty.elt, (StrT, IntT)):
        y = z3.FreshConst(ty.elt.sort(), "cy")
        c = cnt_uf(eng, ty)
        st.assume(z3.ForAll([y], c(new.t, y) == c(recv.t, y) + z3.If(y == x.t, 1, 0)))
    eng.assign_target(n.func.value, new, st, n)
    return NoneV


def m_list_pop(eng, recv, n, st):
    ty = recv.ty
    if n.args:
        raise Unsupported("list.pop(i) at line %s" % n.lineno)
    L = ty.len(recv.t)
    eng.may_raise(st, "IndexError", L <= 0, "pop from empty list", n)
    res = Val(z3.Select(ty.arr(recv.t), L - 1), ty.elt)
    eng.check_alias(n.func.value, n)
    eng.assign_target(n.func.value, Val(ty.mk(ty.arr(recv.t), L - 1), ty), st, n)
    return res


def m_list_remove(eng, recv, n, st):
    """list.remove(x): ValueError unless x occurs; the result is one element shorter and keeps only elements of the old list
    (which occurrence goes is not modelled: nothing stronger is offered to contracts)"""
    ty = recv.ty
    x = eng.coerce(eng.ev(n.args[0], st), ty.elt, st, n, "list element")
    i = z3.FreshConst(z3.IntSort(), "lr")
    L = ty.len(recv.t)
    eng.may_raise(st, "ValueError", z3.Not(z3.Exists([i], z3.And(0 <= i, i < L, z3.Select(ty.arr(recv.t), i) == x.t))), "list.remove(x): x not in list", n)
    new = Val(ty.mk(z3.FreshConst(z3.ArraySort(z3.IntSort(), ty.elt.sort()), "removed"), L - 1), ty)
    eng.check_alias(n.func.value, n)
    eng.assign_target(n.func.value, new, st, n)
    return NoneV


def m_list_reverse(eng, recv, n, st):
    ty = recv.ty
    i = z3.FreshConst(z3.IntSort(), "rv")
    L = ty.len(recv.t)
    arr = z3.FreshConst(z3.ArraySort(z3.IntSort(), ty.elt.sort()), "rev")
    st.assume(z3.ForAll([i], z3.Select(arr, i) == z3.Select(ty.arr(recv.t), L - 1 - i)))
    new = Val(ty.mk(arr, L), ty)
    eng.check_alias(n.func.value, n)
    eng.assign_target(n.func.value, new, st, n)
    return NoneV


def m_list_sort(eng, recv, n, st):
    new = sorted_list(eng, recv, n, st)
    eng.check_alias(n.func.value, n)
    eng.assign_target(n.func.value, new, st, n)
    return NoneV


def cnt_uf(eng, ty):
    return eng.uf("cnt_" + ty.elt.name, [ty, ty.elt], INT)


def m_list_count(eng, recv, n, st):
    """xs.count(v): multiplicity function cnt(xs, v), axiomatised at [] and at every append (DESIGN 2.1 rule 7)"""
    x = eng.coerce(eng.ev(n.args[0], st), recv.ty.elt, st, n, "count argument")
    return Val(cnt_uf(eng, recv.ty)(recv.t, x.t), INT)


def m_set_add(eng, recv, n, st):
    ty = recv.ty
    x = eng.ev(n.args[0], st)
    if isinstance(ty, EmptySetT):
        ty = SetT(x.ty)
        recv = Val(ty.empty(), ty)
        st.assume(card_of(eng, recv.t, ty.elt) == 0)  # the empty set
    x = eng.coerce(x, ty.elt, st, n, "set element")
    eng.check_alias(n.func.value, n)
    new = z3.Store(recv.t, x.t, True)
    # insertion law of the (uninterpreted) cardinality: one more element iff it was not a member
    st.assume(card_of(eng, new, ty.elt) == card_of(eng, recv.t, ty.elt) + z3.If(z3.Select(recv.t, x.t), 0, 1))
    eng.assign_target(n.func.value, Val(new, ty), st, n)
    return NoneV


def m_set_remove(eng, recv, n, st):
    ty = recv.ty
    x = eng.coerce(eng.ev(n.args[0], st), ty.elt, st, n, "set element")
    eng.may_raise(st, "KeyError", z3.Not(z3.Select(recv.t, x.t)), "set.remove", n)
    eng.check_alias(n.func.value, n)
    eng.assign_target(n.func.value, Val(z3.Store(recv.t, x.t, False), ty), st, n)
    return NoneV


def m_set_discard(eng, recv, n, st):
    ty = recv.ty
    x = eng.coerce(eng.ev(n.args[0], st), ty.elt, st, n, "set element")
    eng.check_alias(n.func.value, n)
    eng.assign_target(n.func.value, Val(z3.Store(recv.t, x.t, False), ty), st, n)
    return NoneV


def m_set_update(eng, recv, n, st):
    ty = recv.ty
    other = eng.ev(n.args[0], st)
    if isinstance(ty, EmptySetT):
        if isinstance(other.ty, ListT):
            ty = SetT(other.ty.elt)
        elif isinstance(other.ty, SetT):
            ty = other.ty
        else:
            raise Unsupported("set.update typing")
        recv = Val(ty.empty(), ty)
    x = z3.FreshConst(ty.elt.sort(), "ux")
    new = z3.FreshConst(ty.sort(), "updated")
    if isinstance(other.ty, SetT):
        st.assume(z3.ForAll([x], z3.Select(new, x) == z3.Or(z3.Select(recv.t, x), z3.Select(other.t, x))))
    elif isinstance(other.ty, ListT):
        i = z3.FreshConst(z3.IntSort(), "ui")
        st.assume(z3.ForAll([x], z3.Select(new, x) == z3.Or(z3.Select(recv.t, x), z3.Exists([i], z3.And(0 <= i, i < other.ty.len(other.t), z3.Select(other.ty.arr(other.t), i) == x)))))
    else:
        raise Unsupported("set.update(%s)" % other.ty)
    eng.check_alias(n.func.value, n)
    eng.assign_target(n.func.value, Val(new, ty), st, n)
    return NoneV


def m_dict_keys(eng, recv, n, st):
    raise Unsupported("dict.keys() outside a for loop at line %s" % n.lineno)


def m_dict_pop(eng, recv, n, st):
    ty = recv.ty
    k = eng.coerce(eng.ev(n.args[0], st), ty.k, st, n, "dict key")
    has = z3.Select(ty.has(recv.t), k.t)
    if len(n.args) < 2:
        eng.may_raise(st, "KeyError", z3.Not(has), "dict.pop(%s)" % ast.unparse(n.args[0]), n)
        res = Val(z3.Select(ty.val(recv.t), k.t), ty.v)
    else:
        d = eng.ev(n.args[1], st)
        if isinstance(d.ty, NoneT):
            oty = OptT(ty.v)
            res = Val(z3.If(has, oty.some(z3.Select(ty.val(recv.t), k.t)), oty.none()), oty)
        else:
            d = eng.coerce(d, ty.v, st, n, "default")
            res = Val(z3.If(has, z3.Select(ty.val(recv.t), k.t), d.t), ty.v)
    new = Val(ty.remove(recv.t, k.t), ty)
    eng.check_alias(n.func.value, n)
    eng.assign_target(n.func.value, new, st, n)
    return res


def m_dict_get(eng, recv, n, st):
    ty = recv.ty
    k = eng.coerce(eng.ev(n.args[0], st), ty.k, st, n, "dict key")
    has = z3.Select(ty.has(recv.t), k.t)
    if len(n.args) < 2:
        oty = OptT(ty.v)
        return Val(z3.If(has, oty.some(z3.Select(ty.val(recv.t), k.t)), oty.none()), oty)
    d = eng.coerce(eng.ev(n.args[1], st), ty.v, st, n, "default")
    return Val(z3.If(has, z3.Select(ty.val(recv.t), k.t), d.t), ty.v)


def m_sink_write(eng, recv, n, st):
    ty = recv.ty
    x = eng.coerce(eng.ev(n.args[0], st), ty.elt, st, n, "written record")
    new = Val(ty.mk(z3.Store(ty.arr(recv.t), ty.len(recv.t), x.t), ty.len(recv.t) + 1), ty)
    eng.assign_target(n.func.value, new, st, n)
    return NoneV


def m_sink_tell(eng, recv, n, st):
    eng.assumptions_used.add("assumed writer contract: tell() before the k-th write is woff(k), the offset at which a reader finds the k-th written record (strictly increasing)")
    return Val(eng.uf("woff", [INT], INT)(recv.ty.len(recv.t)), INT)


def m_str_rstrip(eng, recv, n, st):
    if n.args:
        a = n.args[0]
        if isinstance(a, ast.Constant) and a.value == "\r\n":
            return Val(eng.uf("rstrip_crlf", [STR], STR)(recv.t), STR)
        raise Unsupported("rstrip with arguments at line %s" % n.lineno)
    return Val(eng.uf("rstrip", [STR], STR)(recv.t), STR)


def m_str_rsplit(eng, recv, n, st):
    """s.rsplit(":", 1): split at the LAST colon - an uninterpreted function yielding 1 or 2 parts"""
    a = eng.ev(n.args[0], st) if n.args else None
    if len(n.args) == 2 and isinstance(n.args[1], ast.Constant) and n.args[1].value == 1 and a is not None \
            and z3.is_int_value(z3.simplify(a.t)) and z3.simplify(a.t).as_long() == str_code(":"):
        v = Val(eng.uf("rsplit_colon_1", [STR], LINE)(recv.t), LINE)
        st.assume(z3.And(LINE.len(v.t) >= 1, LINE.len(v.t) <= 2))
        return v
    raise Unsupported("str.rsplit form at line %s" % n.lineno)


def m_str_strip(eng, recv, n, st):
    if n.args:
        raise Unsupported("strip with arguments at line %s" % n.lineno)
    return Val(eng.uf("strip", [STR], STR)(recv.t), STR)


def m_str_replace(eng, recv, n, st):
    a = eng.ev(n.args[0], st)
    b = eng.ev(n.args[1], st)
    return Val(eng.uf("str_replace", [STR, STR, STR], STR)(recv.t, a.t, b.t), STR)


def m_str_isdigit(eng, recv, n, st):
    return Val(eng.uf("str_isdigit", [STR], BOOL)(recv.t), BOOL)


def m_str_decode(eng, recv, n, st):
    return recv  # bytes and str carry the same text in the model (the bytes branch of the code is covered by the bounded stand-in)


def m_str_split_tab(eng, recv, n, st):
    a = eng.ev(n.args[0], st) if n.args else None
    if len(n.args) == 2 and isinstance(n.args[1], ast.Constant) and isinstance(n.args[1].value, int) and n.args[1].value >= 1 \
            and z3.is_int_value(z3.simplify(a.t)) and z3.simplify(a.t).as_long() == str_code(":"):
        # s.split(":", m): between 1 and m+1 parts (uninterpreted)
        m = n.args[1].value
        v = Val(eng.uf("split_colon_%d" % m, [STR], LINE)(recv.t), LINE)
        st.assume(z3.And(LINE.len(v.t) >= 1, LINE.len(v.t) <= m + 1))
        return v
    if len(n.args) > 1:
        raise Unsupported("str.split with maxsplit at line %s" % n.lineno)
    for sep, fn in ((":", "split_colon"), ("-", "split_dash")):
        if a is not None and z3.is_int_value(z3.simplify(a.t)) and z3.simplify(a.t).as_long() == str_code(sep):
            v = Val(eng.uf(fn, [STR], LINE)(recv.t), LINE)
            if "len-" + fn not in eng.global_axioms:
                x_ = z3.FreshConst(z3.IntSort(), "spx")
                eng.global_axioms["len-" + fn] = z3.ForAll([x_], LINE.len(eng.uf(fn, [STR], LINE)(x_)) >= 1)
            return v
    if a is not None and z3.is_int_value(z3.simplify(a.t)) and z3.simplify(a.t).as_long() == str_code(" "):
        v = Val(eng.uf("words_of", [STR], LINE)(recv.t), LINE)
        st.assume(LINE.len(v.t) >= 1)
        return v
    if a is not None and z3.is_int_value(z3.simplify(a.t)) and z3.simplify(a.t).as_long() == str_code("\t"):
        v = Val(eng.uf("fields_of", [STR], LINE)(recv.t), LINE)
        st.assume(LINE.len(v.t) >= 1)
        return v
    raise Unsupported("str.split form at line %s" % n.lineno)


def m_linesink_write(eng, recv, n, st):
    """text sink that is a list of finished lines + the fields of the line being written:
       write("\\n") finishes the line; write("a\\tb") starts a line (only when it is empty); write("\\tc\\td") adds fields"""
    ty = recv.ty
    if not (isinstance(ty, ObjT) and ty.cname == "LineSink"):
        raise Unsupported("write on %s" % ty)
    a0 = n.args[0]
    if isinstance(a0, ast.Constant) and isinstance(a0.value, str) and "\t" in a0.value:
        # a literal with tabs: the same field-list reading as a %-format without conversions
        fmt = a0.value
        leading = fmt.startswith("\t")
        fs = [StrV(x) for x in (fmt[1:] if leading else fmt).split("\t")]
        t0 = LINE.empty()
        arr = LINE.arr(t0)
        for i, f in enumerate(fs):
            arr = z3.Store(arr, i, f.t)
        v = Val(LINE.mk(arr, z3.IntVal(len(fs))), LINE, meta={"leading_tab": leading})
    else:
        v = eng.ev(a0, st)
    done = Val(ty.get(recv.t, "done"), ty.fields["done"])
    cur = Val(ty.get(recv.t, "cur"), ty.fields["cur"])
    lty = ty.fields["done"]
    if isinstance(v.ty, StrT):
        sv = z3.simplify(v.t)
        if z3.is_int_value(sv) and sv.as_long() == str_code("\n"):
            nd = lty.mk(z3.Store(lty.arr(done.t), lty.len(done.t), cur.t), lty.len(done.t) + 1)
            new = ty.mk([nd, LINE.empty()])
            eng.assign_target(n.func.value, Val(new, ty), st, n)
            return NoneV
        raise Unsupported("LineSink.write of a bare string at line %s" % n.lineno)
    if v.ty == LINE:
        if v.meta is not None and v.meta.get("leading_tab") is False:
            eng.oblige(st, "safety", "line-started-on-an-empty-line", LINE.len(cur.t) == 0, n)
        nc = eng.list_concat(cur, v, st)
        eng.assign_target(n.func.value, Val(ty.mk([done.t, nc.t]), ty), st, n)
        return NoneV
    raise Unsupported("LineSink.write(%s) at line %s" % (v.ty, n.lineno))


METHODS = {
    ("ObjT", "write"): m_linesink_write,
    ("ListT", "write"): m_sink_write, ("ListT", "put"): m_sink_write, ("ListT", "tell"): m_sink_tell, ("StrT", "rstrip"): m_str_rstrip, ("StrT", "strip"): m_str_strip, ("StrT", "rsplit"): m_str_rsplit, ("StrT", "isdigit"): m_str_isdigit, ("StrT", "replace"): m_str_replace,
    ("StrT", "decode"): m_str_decode, ("StrT", "split"): m_str_split_tab,
    ("StrT", "startswith"): b_startswith,
    ("ListT", "pop"): m_list_pop, ("ListT", "remove"): m_list_remove,
    ("ListT", "append"): m_list_append, ("EmptyListT", "append"): m_list_append, ("ListT", "reverse"): m_list_reverse,
    ("ListT", "sort"): m_list_sort, ("ListT", "count"): m_list_count,
    ("SetT", "add"): m_set_add, ("EmptySetT", "add"): m_set_add, ("SetT", "remove"): m_set_remove, ("SetT", "discard"): m_set_discard,
    ("SetT", "update"): m_set_update, ("EmptySetT", "update"): m_set_update,
    ("DictT", "pop"): m_dict_pop, ("DictT", "get"): m_dict_get, ("DictT", "keys"): m_dict_keys,
}

AUGASSIGN = {}


# ---- string building (token lists / field lists) -------------------------------------------------------
def flatten_add(n):
    if isinstance(n, ast.BinOp) and isinstance(n.op, ast.Add):
        return flatten_add(n.left) + flatten_add(n.right)
    return [n]


def aug_builder(eng, cur, s, st):
    """`builder += a + b + ...` where builder is declared as a token list ListT(STR)"""
    ty = cur.ty
    t = cur
    for part in flatten_add(s.value):
        v = eng.ev(part, st)
        if isinstance(v.ty, OptT) and isinstance(v.ty.inner, StrT):
            v = eng.coerce(v, STR, st, s, "string operand")
        if isinstance(v.ty, StrT):
            t = Val(ty.mk(z3.Store(ty.arr(t.t), ty.len(t.t), v.t), ty.len(t.t) + 1), ty)
        elif v.ty == ty:
            if v.meta is not None and v.meta.get("leading_tab") is False:
                # "a\tb" appended to a builder: only the empty builder keeps the field structure
                eng.oblige(st, "safety", "format-without-leading-tab-appended-to-empty-line", ty.len(t.t) == 0, s)
            t = eng.list_concat(t, v, st)
        else:
            raise Unsupported("string builder += %s at line %s" % (v.ty, s.lineno))
    return t


def aug_str_plus_fields(eng, cur, s, st):
    """raw_line += "\\tA\\tB..." : the result is the field list [raw_line, A, B, ...] (raw_line itself keeps its own tabs)"""
    v = eng.ev(s.value, st)
    if isinstance(v.ty, ListT) and isinstance(v.ty.elt, StrT) and v.meta is not None and v.meta.get("leading_tab"):
        head = eng.coerce(cur, LINE, st, s, "line prefix")
        return eng.list_concat(head, v, st)
    raise Unsupported("str += %s at line %s" % (v.ty, s.lineno))


AUGASSIGN[("StrT", "Add")] = aug_str_plus_fields
AUGASSIGN[("ListT", "Add")] = lambda eng, cur, s, st: aug_builder(eng, cur, s, st) if isinstance(cur.ty.elt, StrT) else _aug_default(eng, cur, s, st)


def _aug_default(eng, cur, s, st):
    v = eng.ev(s.value, st)
    if v.ty == cur.ty:
        return eng.list_concat(cur, v, st)
    raise Unsupported("+= on %s with %s at line %s" % (cur.ty, v.ty, s.lineno))


def cat(eng):
    return eng.uf("cat", [STR, STR], STR)


def strjoin(eng):
    eng.assumptions_used.add("assumed: ''.join(tokens) is injective on canonical token lists (untok(strjoin(l)) == l)")
    return eng.uf("strjoin", [LINE], STR)


def untok(eng):
    return eng.uf("untok", [STR], LINE)


def format_fields(eng, fmt, args, st, n):
    """field list of a literal %-format whose conversions are %s / %d and whose separators are tabs"""
    fields = fmt.split("\t")
    ai = 0
    out = []
    for f in fields:
        pieces = []
        i = 0
        lit = ""
        while i < len(f):
            if f[i] == "%":
                if i + 1 < len(f) and f[i + 1] in "sd":
                    if lit:
                        pieces.append(StrV(lit))
                        lit = ""
                    if ai >= len(args):
                        raise Unsupported("format arity at line %s" % n.lineno)
                    a = args[ai]
                    ai += 1
                    if isinstance(a.ty, OptT) and isinstance(a.ty.inner, (IntT, StrT)):
                        a = eng.coerce(a, a.ty.inner, st, n, "format argument")
                    if isinstance(a.ty, IntT):
                        t_ = itoa(eng)(a.t)
                        st.assume(atoi(eng)(t_) == a.t)
                        a = Val(t_, STR)
                    elif isinstance(a.ty, StrT):
                        pass
                    elif isinstance(a.ty, ListT) and isinstance(a.ty.elt, StrT):
                        t_ = strjoin(eng)(a.t)
                        st.assume(untok(eng)(t_) == a.t)
                        a = Val(t_, STR)
                    else:
                        raise Unsupported("format argument of type %s at line %s" % (a.ty, n.lineno))
                    pieces.append(a)
                    i += 2
                    continue
                raise Unsupported("format conversion %r at line %s" % (f[i:i + 2], n.lineno))
            lit += f[i]
            i += 1
        if lit:
            pieces.append(StrV(lit))
        if not pieces:
            out.append(StrV(""))
            continue
        t = pieces[0]
        for p in pieces[1:]:
            t = Val(cat(eng)(t.t, p.t), STR)
        out.append(t)
    if ai != len(args):
        raise Unsupported("format arity at line %s" % n.lineno)
    return out


def lib_format(eng, n, st):
    fmt = n.left.value
    r = eng.ev(n.right, st) if not isinstance(n.right, ast.Tuple) else None
    if r is None:
        args = [eng.ev(e, st) for e in n.right.elts]
    elif isinstance(r.ty, TupleT):
        args = [Val(r.ty.get(r.t, i), r.ty.elts[i]) for i in range(len(r.ty.elts))]
    else:
        args = [r]
    return format_value(eng, fmt, args, st, n)


def format_value(eng, fmt, args, st, n):
    eng.assumptions_used.add("assumed: " + ASSUMED["format"])
    leading = fmt.startswith("\t")
    fs = format_fields(eng, fmt[1:] if leading else fmt, args, st, n)
    if "\t" not in fmt and not leading:
        return fs[0]  # a single string
    ty = LINE
    t = ty.empty()
    arr = ty.arr(t)
    for i, f in enumerate(fs):
        arr = z3.Store(arr, i, f.t)
    return Val(ty.mk(arr, z3.IntVal(len(fs))), ty, meta={"leading_tab": leading})


# ---- iteration sources ------------------------------------------------------------------------------------
class IterSrc:
    def __init__(self, length, elem, clen=None, listval=None):
        self.length = length
        self._elem = elem
        self._clen = clen
        self._listval = listval

    def const_len(self):
        return self._clen

    def elem(self, eng, i, st):
        return self._elem(i, st)

    def as_list_val(self, eng):
        if self._listval is None:
            raise Unsupported("iteration source has no list value")
        return self._listval


def iteration(eng, it, st, stmt):
    # range(...)
    if isinstance(it, ast.Call) and isinstance(it.func, ast.Name):
        f = it.func.id
        if f == "range":
            a = [eng.ev(x, st) for x in it.args]
            if len(a) == 1:
                lo, hi, step = z3.IntVal(0), a[0].t, 1
            elif len(a) == 2:
                lo, hi, step = a[0].t, a[1].t, 1
            else:
                sv = z3.simplify(a[2].t)
                if not z3.is_int_value(sv):
                    raise Unsupported("range step must be constant")
                lo, hi, step = a[0].t, a[1].t, sv.as_long()
            if step > 0:
                n = z3.If(hi > lo, (hi - lo + (step - 1)) / step, 0)
            else:
                n = z3.If(lo > hi, (lo - hi + (-step - 1)) / (-step), 0)
            n = z3.simplify(n)
            return IterSrc(n, lambda i, s: Val(lo + i * step, INT), clen=(n.as_long() if z3.is_int_value(n) else None))
        if f == "enumerate":
            inner = iteration(eng, it.args[0], st, stmt)
            start = eng.ev(it.args[1], st).t if len(it.args) > 1 else z3.IntVal(0)

            def el(i, s):
                e = inner.elem(eng, i, s)
                ty = TupleT(INT, e.ty)
                return Val(ty.mk([i + start, e.t]), ty)
            return IterSrc(inner.length, el, clen=inner.const_len())
        if f == "reversed":
            inner = iteration(eng, it.args[0], st, stmt)
            return IterSrc(inner.length, lambda i, s: inner.elem(eng, inner.length - 1 - i, s), clen=inner.const_len())
        if f == "zip":
            inners = [iteration(eng, a, st, stmt) for a in it.args]
            n = inners[0].length
            for x in inners[1:]:
                n = z3.If(x.length < n, x.length, n)

            def el(i, s):
                es = [x.elem(eng, i, s) for x in inners]
                ty = TupleT(*[e.ty for e in es])
                return Val(ty.mk([e.t for e in es]), ty)
            return IterSrc(z3.simplify(n), el)
    if isinstance(it, (ast.Tuple, ast.List)):
        vals = [eng.ev(e, st) for e in it.elts]

        def el(i, s):
            k = z3.simplify(i)
            return vals[k.as_long()]
        return IterSrc(z3.IntVal(len(vals)), el, clen=len(vals))
    # dict views
    if isinstance(it, ast.Call) and isinstance(it.func, ast.Attribute) and it.func.attr in ("keys", "items", "values") and not it.args:
        d = eng.ev(it.func.value, st)
        if isinstance(d.ty, DictT):
            return dict_iteration(eng, d, it.func.attr, st)
    v = eng.ev(it, st)
    if isinstance(v.ty, OptT) and isinstance(v.ty.inner, (ListT, DictT, SetT)):
        v = eng.coerce(v, v.ty.inner, st, stmt, "iterated value")  # TypeError on None is a safety obligation
    if isinstance(v.ty, ListT):
        return IterSrc(v.ty.len(v.t), lambda i, s: Val(z3.Select(v.ty.arr(v.t), i), v.ty.elt), listval=v)
    if isinstance(v.ty, DictT):
        return dict_iteration(eng, v, "keys", st)
    if isinstance(v.ty, SetT):
        return set_iteration(eng, v, st)
    raise Unsupported("iteration over %s at line %s" % (v.ty, stmt.lineno))


def key_order(eng, has, kty, st, ordered_keys=None):
    """ghost enumeration of the keys of a set/dict: a list `seq` of distinct keys covering exactly the members"""
    eng.assumptions_used.add("assumed: " + ASSUMED["dict-iteration"])
    lty = ListT(kty)
    # one enumeration per membership array: iterating the same unmodified dict / set twice visits the keys in the same order
    cache = getattr(eng, "key_order_cache", None)
    if cache is None:
        cache = eng.key_order_cache = {}
    ck = (has.get_id(), kty.name)
    if ck in cache:
        seq, pos = cache[ck]
    else:
        seq = Val(lty.fresh("keyseq"), lty)
        pos = z3.FreshConst(z3.ArraySort(kty.sort(), z3.IntSort()), "keypos")
        cache[ck] = (seq, pos)
    i = z3.FreshConst(z3.IntSort(), "ki")
    k = z3.FreshConst(kty.sort(), "kk")
    L = lty.len(seq.t)
    st.assume(L >= 0)
    st.assume(L == card_of(eng, has, kty))
    if not hasattr(eng, "key_orders"):
        eng.key_orders = []
    eng.key_orders.append((seq, Val(pos, MapT(kty, INT))))
    eng.last_keypos = Val(pos, MapT(kty, INT))
    st.assume(z3.ForAll([i], z3.Implies(z3.And(0 <= i, i < L), z3.And(z3.Select(has, z3.Select(lty.arr(seq.t), i)), pos[z3.Select(lty.arr(seq.t), i)] == i))))
    st.assume(z3.ForAll([k], z3.Implies(z3.Select(has, k), z3.And(0 <= pos[k], pos[k] < L, z3.Select(lty.arr(seq.t), pos[k]) == k))))
    return seq, pos


def dict_iteration(eng, d, what, st):
    ty = d.ty
    if isinstance(ty, OrdDictT):
        seq = Val(ty.keys(d.t), ty.kl)
    else:
        seq, _pos = key_order(eng, ty.has(d.t), ty.k, st)
    lty = seq.ty

    def el(i, s):
        k = z3.Select(lty.arr(seq.t), i)
        if what == "keys":
            return Val(k, ty.k)
        if what == "values":
            return Val(z3.Select(ty.val(d.t), k), ty.v)
        tt = TupleT(ty.k, ty.v)
        return Val(tt.mk([k, z3.Select(ty.val(d.t), k)]), tt)
    return IterSrc(lty.len(seq.t), el, listval=seq if what == "keys" else None)


def set_iteration(eng, v, st):
    seq, _pos = key_order(eng, v.t, v.ty.elt, st)
    lty = seq.ty
    return IterSrc(lty.len(seq.t), lambda i, s: Val(z3.Select(lty.arr(seq.t), i), v.ty.elt), listval=seq)
