"""Registry of sidecar contracts and the per-function verification driver (obligations + guards)."""

import time
import z3

from .engine import Engine, Contract, Loop, Unsupported, Oblig, Val, SpecEnv, DROPPED, State
from . import solve
from .ty import *  # noqa


class Registry:
    def __init__(self):
        self.by_key = {}
        self.lemmas = []

    def add(self, c):
        self.by_key[c.key] = c
        return c

    def lookup_simple(self, file, name, imports):
        c = self.by_key.get((file, name))
        if c is not None:
            return c
        dotted = imports.get(name)
        if dotted:
            return self.lookup_dotted(dotted)
        return None

    def lookup_dotted(self, dotted):
        parts = dotted.split(".")
        for i in range(len(parts) - 1, 0, -1):
            f = "/".join(parts[:i]) + ".py"
            fn = ".".join(parts[i:])
            c = self.by_key.get((f, fn))
            if c is not None:
                return c
        return None

    def lookup_method(self, cname, attr, ty=None):
        cands = [c for (f, fn), c in self.by_key.items() if c.func == cname + "." + attr]
        if ty is not None:
            for c in cands:
                if list(c.params.values())[0] == ty:
                    return c
        return cands[0] if cands else None

    def any_method(self, attr):
        for (f, fn), c in self.by_key.items():
            if "." in fn and fn.split(".")[-1] == attr:
                return c
        return None

    def any_function(self, name):
        for (f, fn), c in self.by_key.items():
            if fn == name:
                return c
        return None


class Lemma:
    """A stand-alone first-order fact proved once and usable as a hint; vars: name -> Ty"""

    def __init__(self, name, vars, hyps, goal, contract=None, instantiate=()):
        self.name, self.vars, self.hyps, self.goal, self.contract, self.instantiate = name, vars, hyps, goal, contract, instantiate


def verify_function(con, reg, repo="/repo", z3_ms=None, extra=None):
    """Returns dict with obligations' results, canaries, and bookkeeping for the evidence."""
    t0 = time.time()
    eng = Engine(con, reg, repo)
    out = dict(function=con.qual, file=con.file, status="ok", results=[], canaries=[], assumptions=[], unsupported=None,
               n_paths=0, lifted_asserts=list(con.lifted_asserts), fragment=con.fragment)
    try:
        obligs = eng.run()
        if extra:
            obligs = obligs + extra(eng)
    except Unsupported as e:
        out["status"] = "unsupported"
        out["unsupported"] = str(e)
        out["wall_s"] = round(time.time() - t0, 3)
        return out, eng
    seen = {}
    for o in obligs:
        k = seen.get(o.name, 0)
        seen[o.name] = k + 1
        if k:
            o.name = "%s#p%d" % (o.name, k)
    res = solve.discharge(obligs, z3_ms=z3_ms)
    for r, o in zip(res, obligs):
        r["_oblig"] = o
    out["results"] = res
    out["n_paths"] = eng.n_paths
    out["assumptions"] = sorted(eng.assumptions_used)
    # guards: reachability canaries (a contradictory precondition / invariant would prove everything): `False` must NOT be
    # provable from the hypotheses at function entry, at every loop body entry and at a return point
    can = []
    gax = list(eng.global_axioms.values())
    seen_labels = {}
    for label, hyps in eng.reach:
        seen_labels[label] = seen_labels.get(label, 0) + 1
        if seen_labels[label] > 4:
            continue
        can.append(Oblig("%s::canary::reach:%s#%d" % (con.qual, label, seen_labels[label]), "canary", gax + list(hyps), z3.BoolVal(False)))
    for i, (st, rv) in enumerate(eng.return_states[:8]):
        can.append(Oblig("%s::canary::must-fail:post-False#%d" % (con.qual, i), "canary", gax + list(st.pc), z3.BoolVal(False)))
    cres = solve.discharge(can, z3_ms=1500, use_cvc5=False)
    mf = [r for r in cres if "must-fail" in r["name"]]
    # a label is fine when at least one of the (up to 4) paths reaching it is not provably dead (dead paths that the cheap pruner did
    # not remove are legitimate: e.g. a branch excluded by a quantified precondition)
    by_label = {}
    for r in cres:
        if "must-fail" not in r["name"]:
            lab = r["name"].split("::canary::")[1].rsplit("#", 1)[0]
            by_label.setdefault(lab, []).append(r["status"])
    for lab, sts in by_label.items():
        okl = any(s_ != "discharged" for s_ in sts)
        out["canaries"].append(dict(kind="not-provably-false", label=lab, result="reachable" if okl else "ALL PATHS DEAD", ok=okl))
    if mf:
        okc = any(r["status"] != "discharged" for r in mf)
        out["canaries"].append(dict(kind="must-fail", label="post::False on some return path (of %d sampled)" % len(mf), result="not provable" if okc else "PROVABLE", ok=okc))
    out["wall_s"] = round(time.time() - t0, 3)
    return out, eng


def relational(con, reg, repo, claims, argsets, requires_of=None):
    """Relational obligations on a pure loop-free function: claims is {label: builder(vals...)}.
    argsets: names of symbolic records to create; each is a dict param->Val built by the caller."""
    raise NotImplementedError
