"""pyvc engine: symbolic execution of the REAL function ASTs of /repo against sidecar contracts,
producing verification conditions (obligations) for z3 / cvc5.

The source text is read from the working tree on every run (see `load_function`).  What the extraction
drops, for every function, is fixed and reported in the evidence (`DROPPED`).  Anything outside the
supported subset raises `Unsupported`, which the checks report as *undecided* (exit 2), never as a
violation and never as success.
"""

import ast
import copy
import os
import z3

from .ty import (INT, BOOL, STR, TEXT, NONE, Ty, IntT, BoolT, StrT, TextT, NoneT, TupleT, ObjT, ListT, DictT, SetT,
                 OptT, OrdDictT, MapT, RealT, REAL, str_code)

DROPPED = [
    "calls on logger.* / logging.* (statement level)",
    "docstrings and bare string expression statements",
    "`with timers(...)` / `with step_timer(...)` wrappers (body kept)",
    "log_memory_usage(...) statements",
    "the GAFTOOLS_VERIF-guarded hook statement (if os.environ.get(\"GAFTOOLS_VERIF\") ...)",
    "`import` statements inside function bodies",
]


class Unsupported(Exception):
    pass


class Val:
    __slots__ = ("t", "ty", "meta")

    def __init__(self, t, ty, meta=None):
        self.t, self.ty, self.meta = t, ty, meta

    def __repr__(self):
        return "Val(%s : %s)" % (self.t, self.ty)


def IntV(n):
    return Val(z3.IntVal(n), INT)


def BoolV(b):
    return Val(z3.BoolVal(b), BOOL)


def StrV(s):
    return Val(z3.IntVal(str_code(s)), STR)


NoneV = Val(z3.BoolVal(False), NONE)


class State:
    def __init__(self):
        self.env = {}
        self.pc = []
        self.defd = {}  # name -> z3 Bool: definedness flag of maybe-unbound locals that live across loop iterations
        self.old = None  # entry environment (for old(...))
        self.facts = []  # like pc but not shown as path; assumptions from contracts (kept separate only for reporting)
        self.named = {}  # label -> formula of an anchor assertion proved on this path (for Loop.pres_from)

    def copy(self):
        s = State()
        s.env = dict(self.env)
        s.pc = list(self.pc)
        s.defd = dict(self.defd)
        s.old = self.old
        s.facts = list(self.facts)
        s.named = dict(self.named)
        return s

    def assume(self, f):
        if z3.is_true(f):
            return
        self.pc.append(f)


class Oblig:
    def __init__(self, name, kind, hyps, goal, line=None, note=None):
        self.name, self.kind, self.hyps, self.goal, self.line, self.note = name, kind, list(hyps), goal, line, note
        self.expect_fail = False
        self.inputs = None  # list of (name, Val) to decode in a counter-model


class Loop:
    def __init__(self, invariant=None, decreases=None, index=None, fingerprint=None, ghost_before=None,
                 ghost_body_start=None, ghost_body_end=None, modifies=None, seq_name=None, hints=None, exit_facts=None, pres_from=None,
                 assume_before=None, assume_head=None):
        self.invariant = invariant or {}
        self.decreases = decreases
        self.index = index
        self.fingerprint = fingerprint
        self.ghost_before = ghost_before
        self.ghost_body_start = ghost_body_start
        self.ghost_body_end = ghost_body_end
        self.modifies = modifies or []
        self.seq_name = seq_name
        self.hints = hints or []
        self.exit_facts = exit_facts or []
        self.assume_head = list(assume_head or [])  # instances of mathematical theorems (e.g. card_mono) assumed at the loop head; listed as assumptions
        self.assume_before = list(assume_before or [])  # DEFINITIONS of ghost arrays over the loop's sequence (recorded as assumptions)
        self.pres_from = pres_from or {}  # invariant name -> labels of anchor assertions: preservation is proved from those facts
        #                                    (plus the quantifier-free path facts) only


class Contract:
    """Sidecar contract of one function (or method `Class.method`) of /repo."""

    def __init__(self, file, func, params, returns=NONE, requires=(), ensures=None, loops=None, ghost=None,
                 locals=None, modifies=(), spec_funcs=None, ufuns=None, types=None, raises=None, ghost_at=None,
                 assert_at=None, lifted_asserts=(), alias_ok=(), pure=False, fragment=None, notes=None, module_env=None,
                 decreases=None, axioms=(), trusted=False, post_hints=(), exc_ensures=None, assume_at=None, unroll=None,
                 variant="", outputs=None, call_ghost=None, defaults=None, defs=None, ghost_reads=None, call_overrides=None):
        self.file, self.func = file, func
        self.params = dict(params)
        self.returns = returns
        self.requires = list(requires)
        self.ensures = dict(ensures or {})
        self.loops = dict(loops or {})
        self.ghost = dict(ghost or {})
        self.locals = dict(locals or {})
        self.modifies = list(modifies)
        self.spec_funcs = dict(spec_funcs or {})
        self.ufuns = dict(ufuns or {})
        self.types = dict(types or {})
        self.raises = dict(raises or {})  # exception name -> condition expr (over params) under which it MAY be raised; "*" = any time
        self.ghost_at = dict(ghost_at or {})  # anchor -> ghost statements (python source)
        self.assert_at = dict(assert_at or {})  # anchor -> {label: expr}
        self.assume_at = dict(assume_at or {})
        self.lifted_asserts = list(lifted_asserts)
        self.alias_ok = list(alias_ok)
        self.pure = pure
        self.fragment = fragment  # (start_pattern, end_pattern) statement range inside the function
        self.notes = notes
        self.module_env = dict(module_env or {})  # module-level constants visible to the function: name -> (Ty, python value builder)
        self.decreases = decreases  # for recursive functions
        self.axioms = list(axioms)  # spec-level assumed facts (listed in the evidence as assumptions)
        self.trusted = trusted  # contract assumed, body not verified (library / external)
        self.post_hints = list(post_hints)
        self.exc_ensures = dict(exc_ensures or {})
        self.unroll = dict(unroll or {})
        self.variant = variant
        self.outputs = list(outputs or [])
        self.call_ghost = dict(call_ghost or {})
        self.defaults = dict(defaults or {})
        self.ghost_reads = list(ghost_reads or [])
        self.call_overrides = dict(call_overrides or {})
        self.defs = dict(defs or {})  # name -> (argtypes, rettype, lambda source): function symbol with a definitional axiom

    @property
    def key(self):
        return (self.file, self.func + self.variant)

    @property
    def qual(self):
        return self.file[:-3].replace("/", ".") + ":" + self.func + self.variant


# ------------------------------------------------------------------------------------------------
def load_function(repo, file, func):
    """Parse the working-tree source and return (FunctionDef node, module ast, source text)."""
    path = os.path.join(repo, file)
    src = open(path).read()
    mod = ast.parse(src, filename=path)
    parts = func.split(".")
    body = mod.body
    node = None
    for i, p in enumerate(parts):
        found = None
        for n in body:
            if isinstance(n, (ast.FunctionDef, ast.ClassDef)) and n.name == p:
                found = n
                break
        if found is None:
            raise Unsupported("anchor-not-found: %s in %s" % (func, file))
        node = found
        body = found.body
    if not isinstance(node, ast.FunctionDef):
        raise Unsupported("anchor-not-found: %s is not a function" % func)
    return node, mod, src


def module_imports(mod):
    """alias -> dotted module/function name, from top-level imports"""
    out = {}
    for n in mod.body:
        if isinstance(n, ast.Import):
            for a in n.names:
                out[a.asname or a.name.split(".")[0]] = a.name if a.asname else a.name.split(".")[0]
                if a.asname:
                    out[a.asname] = a.name
        elif isinstance(n, ast.ImportFrom):
            for a in n.names:
                out[a.asname or a.name] = (n.module or "") + "." + a.name
    return out


def _is_dropped_stmt(n):
    if isinstance(n, ast.Expr):
        v = n.value
        if isinstance(v, ast.Constant) and isinstance(v.value, str):
            return True
        if isinstance(v, ast.Call):
            f = ast.unparse(v.func)
            if f.startswith(("logger.", "logging.")) or f in ("log_memory_usage",):
                return True
            if f.endswith((".start", ".stop")) and f.split(".")[0] in ("step_timer", "timers"):
                return True
    if isinstance(n, (ast.Import, ast.ImportFrom)):
        return True
    if isinstance(n, ast.If) and "GAFTOOLS_VERIF" in ast.unparse(n.test):
        return True
    return False


class Engine:
    def __init__(self, contract, registry, repo="/repo"):
        self.c = contract
        self.reg = registry
        self.repo = repo
        self.obligs = []
        self.guards = []
        self.in_spec = 0
        self.raise_conds = None  # dict excname -> [cond] when evaluating inside a try body
        self.catch = set()
        self.fn, self.mod, self.src = load_function(repo, contract.file, contract.func)
        self.imports = module_imports(self.mod)
        self.ufs = {}
        self.loop_ord = 0
        self.macros = {}
        for k, v in contract.spec_funcs.items():
            self.macros[k] = ast.parse(v.strip(), mode="eval").body
        self.assumptions_used = set()
        self.dropped_used = set()
        self.n_paths = 0
        self.lifted_found = set()
        self.reach = []  # (label, hyps) reachability canaries
        self.return_states = []
        self.cur_line = None
        self.anchor_hits = set()
        self.global_axioms = {}
        self.mutated_names = set()
        self.alias_of = {}
        self.escaped = set()

    # ---- obligations ---------------------------------------------------------------------------
    def oblige(self, st, kind, label, goal, node=None, note=None):
        if self.in_spec:
            return
        if z3.is_true(goal):
            goal = z3.BoolVal(True)
        line = getattr(node, "lineno", None) or self.cur_line
        name = "%s::%s::%s" % (self.c.qual, kind, label)
        if line is not None and kind in ("safety", "pre", "assert"):
            name += "@L%d" % line
        g = goal
        if self.guards:
            g = z3.Implies(z3.And(*self.guards), goal)
        o = Oblig(name, kind, list(self.global_axioms.values()) + list(st.pc), g, line, note)
        o.inputs = self.inputs
        o.ghosts = [g_ for g_, t_ in self.c.ghost.items() if isinstance(t_, MapT)]
        self.obligs.append(o)
        return o

    def may_raise(self, st, exc, cond, label, node=None):
        """An operation raises `exc` when `cond` holds.  Inside a matching try it forks, otherwise it is a safety obligation."""
        if self.in_spec:
            return
        if self.raise_conds is not None and (exc in self.catch or "Exception" in self.catch or "BaseException" in self.catch):
            c = cond if not self.guards else z3.And(*(self.guards + [cond]))
            self.raise_conds.setdefault(exc, []).append(c)
            return
        self.oblige(st, "safety", "%s:%s" % (exc, label), z3.Not(cond), node)

    # ---- helpers -------------------------------------------------------------------------------
    def uf(self, name, argtys, retty):
        if name not in self.ufs:
            self.ufs[name] = (z3.Function(name, *[t.sort() for t in argtys], retty.sort()), argtys, retty)
        return self.ufs[name][0]

    def truthy(self, v):
        ty = v.ty
        if isinstance(ty, BoolT):
            return v.t
        if isinstance(ty, IntT):
            return v.t != 0
        if isinstance(ty, StrT):
            return v.t != str_code("")
        if isinstance(ty, NoneT):
            return z3.BoolVal(False)
        if isinstance(ty, ListT):
            return ty.len(v.t) != 0
        if isinstance(ty, OptT):
            inner = Val(ty.val(v.t), ty.inner)
            if isinstance(ty.inner, (ObjT, TupleT)):
                return ty.is_some(v.t)
            return z3.And(ty.is_some(v.t), self.truthy(inner))
        if isinstance(ty, (ObjT, TupleT)):
            return z3.BoolVal(True)
        if isinstance(ty, TextT):
            return z3.Length(v.t) != 0
        if isinstance(ty, SetT):
            x = z3.FreshConst(ty.elt.sort(), "nonempty")
            return z3.Exists([x], z3.Select(v.t, x))
        raise Unsupported("truthiness of %s" % ty)

    def coerce(self, v, ty, st, node=None, what="value"):
        """Convert v to type ty (Optional injection/projection)."""
        if v.ty == ty:
            return v
        if isinstance(ty, StrT) and isinstance(v.ty, IntT):
            # an int kept in a string-typed slot (python lists are heterogeneous): constants are the reserved codes "\x00int:<n>", symbolic ints go
            # through the injective uninterpreted int_code with inverse code_int
            self.assumptions_used.add("an int stored in a string-typed container is represented by a reserved string code (constants: \\x00int:<n>; symbolic: int_code / code_int)")
            iv = z3.simplify(v.t)
            if z3.is_int_value(iv):
                return Val(z3.IntVal(str_code("\x00int:%d" % iv.as_long())), STR)
            f_ = self.uf("int_code", [INT], STR)
            st.assume(self.uf("code_int", [STR], INT)(f_(v.t)) == v.t)
            return Val(f_(v.t), STR)
        if isinstance(ty, IntT) and isinstance(v.ty, StrT) and what.startswith("argument "):
            # reading such a slot back where an int is expected (a parameter declared int): exact when the slot was written by the rule above
            self.assumptions_used.add("a string-typed slot passed where an int parameter is expected is read back through code_int (exact for slots written as int_code(n))")
            return Val(self.uf("code_int", [STR], INT)(v.t), INT)
        if isinstance(ty, ListT) and isinstance(ty.elt, StrT) and isinstance(v.ty, ListT) and isinstance(v.ty.elt, IntT):
            ln = z3.simplify(v.ty.len(v.t))
            if z3.is_int_value(ln) and ln.as_long() <= 4:
                arr = ty.arr(ty.empty())
                for i_ in range(ln.as_long()):
                    arr = z3.Store(arr, i_, self.coerce(Val(z3.simplify(z3.Select(v.ty.arr(v.t), i_)), INT), STR, st, node, what).t)
                return Val(ty.mk(arr, ln), ty)
        if isinstance(ty, OptT):
            if isinstance(v.ty, NoneT) and ty.kind == "none":
                return Val(ty.none(), ty)
            if isinstance(v.ty, BoolT) and ty.kind == "false" and z3.is_false(z3.simplify(v.t)):
                return Val(ty.none(), ty)
            if v.ty == ty.inner:
                return Val(ty.some(v.t), ty)
            if isinstance(ty.inner, (TupleT, ListT)) :
                inner = self.coerce(v, ty.inner, st, node, what)
                return Val(ty.some(inner.t), ty)
        if isinstance(v.ty, OptT) and v.ty.inner == ty:
            self.oblige(st, "safety", "not-%s:%s" % ("None" if v.ty.kind == "none" else "False", what), v.ty.is_some(v.t), node)
            return Val(v.ty.val(v.t), ty)
        if isinstance(ty, TupleT) and isinstance(v.ty, TupleT) and len(ty.elts) == len(v.ty.elts):
            parts = [self.coerce(Val(v.ty.get(v.t, i), v.ty.elts[i]), ty.elts[i], st, node, what).t for i in range(len(ty.elts))]
            return Val(ty.mk(parts), ty)
        if isinstance(ty, ListT) and isinstance(ty.elt, StrT) and isinstance(v.ty, StrT):
            # a string used where a token/field list is declared: "" is the empty list, any other string a single token
            e0 = ty.empty()
            sv = z3.simplify(v.t)
            if z3.is_int_value(sv) and sv.as_long() == str_code(""):
                return Val(e0, ty)
            single = ty.mk(z3.Store(ty.arr(e0), 0, v.t), z3.IntVal(1))
            from . import lib
            st.assume(lib.strjoin(self)(single) == v.t)  # joining a single token gives that token
            return Val(single, ty)
        if isinstance(ty, StrT) and isinstance(v.ty, ListT) and isinstance(v.ty.elt, StrT):
            from . import lib
            t_ = lib.strjoin(self)(v.t)
            st.assume(lib.untok(self)(t_) == v.t)
            return Val(t_, STR)
        if isinstance(ty, (DictT, SetT)) and type(v.ty).__name__ in ("EmptyDictT", "EmptySetT"):
            return Val(ty.empty(), ty)
        if isinstance(ty, ListT) and isinstance(v.ty, EmptyListT):
            r = Val(ty.empty(), ty)
            if isinstance(ty.elt, (StrT, IntT)):
                from . import lib
                y = z3.FreshConst(ty.elt.sort(), "cy")
                st.assume(z3.ForAll([y], lib.cnt_uf(self, ty)(r.t, y) == 0))
            return r
        if isinstance(ty, BoolT):
            return Val(self.truthy(v), BOOL)
        raise Unsupported("cannot use %s as %s (%s) at line %s" % (v.ty, ty, what, getattr(node, "lineno", "?")))

    def same_type(self, a, b, st, node):
        if a.ty == b.ty:
            return a, b
        if isinstance(a.ty, NoneT) and not isinstance(b.ty, (NoneT, OptT)):
            oty = OptT(b.ty)
            return Val(oty.none(), oty), Val(oty.some(b.t), oty)
        if isinstance(b.ty, NoneT) and not isinstance(a.ty, (NoneT, OptT)):
            oty = OptT(a.ty)
            return Val(oty.some(a.t), oty), Val(oty.none(), oty)
        try:
            return a, self.coerce(b, a.ty, st, node)
        except Unsupported:
            pass
        try:
            return self.coerce(a, b.ty, st, node), b
        except Unsupported:
            raise Unsupported("type mismatch %s vs %s at line %s" % (a.ty, b.ty, getattr(node, "lineno", "?")))

    # ---- expression evaluation -----------------------------------------------------------------
    def ev(self, n, st):
        m = getattr(self, "ev_" + type(n).__name__, None)
        if m is None:
            raise Unsupported("expression %s at line %s" % (type(n).__name__, getattr(n, "lineno", "?")))
        return m(n, st)

    def ev_Constant(self, n, st):
        v = n.value
        if v is None:
            return NoneV
        if isinstance(v, bool):
            return BoolV(v)
        if isinstance(v, int):
            return IntV(v)
        if isinstance(v, str):
            return StrV(v)
        if isinstance(v, float):
            return Val(z3.RealVal(repr(v)), REAL)
        raise Unsupported("constant %r" % (v,))

    def ev_Name(self, n, st):
        k = n.id
        if k in st.env:
            if k in st.defd and not self.in_spec:
                self.oblige(st, "safety", "unbound-local:%s" % k, st.defd[k], n)
            return st.env[k]
        if k in self.c.types and isinstance(self.c.types[k], Ty):
            return self.c.types[k]
        if k in self.c.module_env:
            return self.c.module_env[k](self)
        if k in ("True", "False"):
            return BoolV(k == "True")
        if not self.in_spec and k in self.assigned_somewhere:
            self.oblige(st, "safety", "unbound-local:%s" % k, z3.BoolVal(False), n)
            raise PathDead()
        raise Unsupported("unknown name %s at line %s" % (k, getattr(n, "lineno", "?")))

    def ev_UnaryOp(self, n, st):
        v = self.ev(n.operand, st)
        if isinstance(n.op, ast.Not):
            return Val(z3.Not(self.truthy(v)), BOOL)
        if isinstance(n.op, ast.USub):
            return Val(-v.t, INT)
        raise Unsupported("unary op")

    def ev_BoolOp(self, n, st):
        vals = []
        pushed = 0
        try:
            for i, e in enumerate(n.values):
                v = self.ev(e, st)
                vals.append(v)
                if i < len(n.values) - 1:
                    t = self.truthy(v)
                    self.guards.append(t if isinstance(n.op, ast.And) else z3.Not(t))
                    pushed += 1
        finally:
            for _ in range(pushed):
                self.guards.pop()
        ts = [self.truthy(v) for v in vals]
        return Val(z3.And(*ts) if isinstance(n.op, ast.And) else z3.Or(*ts), BOOL)

    def ev_IfExp(self, n, st):
        c = self.truthy(self.ev(n.test, st))
        self.guards.append(c)
        try:
            a = self.ev(n.body, st)
        finally:
            self.guards.pop()
        self.guards.append(z3.Not(c))
        try:
            b = self.ev(n.orelse, st)
        finally:
            self.guards.pop()
        a, b = self.same_type(a, b, st, n)
        return Val(z3.If(c, a.t, b.t), a.ty)

    def ev_BinOp(self, n, st):
        if isinstance(n.op, ast.Mod) and isinstance(n.left, ast.Constant) and isinstance(n.left.value, str):
            from . import lib
            return lib.lib_format(self, n, st)
        a = self.ev(n.left, st)
        b = self.ev(n.right, st)
        if isinstance(a.ty, OptT) and isinstance(a.ty.inner, IntT):
            a = self.coerce(a, INT, st, n, "arithmetic operand")
        if isinstance(b.ty, OptT) and isinstance(b.ty.inner, IntT):
            b = self.coerce(b, INT, st, n, "arithmetic operand")
        if isinstance(a.ty, IntT) and isinstance(b.ty, IntT):
            op = n.op
            if isinstance(op, ast.Add):
                return Val(a.t + b.t, INT)
            if isinstance(op, ast.Sub):
                return Val(a.t - b.t, INT)
            if isinstance(op, ast.Mult):
                return Val(a.t * b.t, INT)
            if isinstance(op, ast.FloorDiv):
                self.may_raise(st, "ZeroDivisionError", b.t == 0, "floordiv", n)
                return Val(self._floordiv(a.t, b.t), INT)
            if isinstance(op, ast.Mod):
                self.may_raise(st, "ZeroDivisionError", b.t == 0, "mod", n)
                return Val(a.t - b.t * self._floordiv(a.t, b.t), INT)
        if isinstance(a.ty, (RealT, IntT)) and isinstance(b.ty, (RealT, IntT)) and (isinstance(a.ty, RealT) or isinstance(b.ty, RealT) or isinstance(n.op, ast.Div)):
            ra = a.t if isinstance(a.ty, RealT) else z3.ToReal(a.t)
            rb = b.t if isinstance(b.ty, RealT) else z3.ToReal(b.t)
            if isinstance(n.op, ast.Div):
                self.may_raise(st, "ZeroDivisionError", rb == 0, "division", n)
                self.assumptions_used.add("float division is an uninterpreted function fdiv on reals; float comparison is the order of the reals (no NaN)")
                return Val(self.uf("fdiv", [REAL, REAL], REAL)(ra, rb), REAL)
            if isinstance(n.op, ast.Add):
                return Val(ra + rb, REAL)
            if isinstance(n.op, ast.Sub):
                return Val(ra - rb, REAL)
        if isinstance(n.op, ast.Add) and isinstance(a.ty, ListT) and isinstance(b.ty, ListT):
            return self.list_concat(a, b, st)
        if isinstance(n.op, ast.Add) and isinstance(a.ty, ListT) and isinstance(a.ty.elt, StrT) and isinstance(b.ty, StrT):
            sv = z3.simplify(b.t)
            if z3.is_int_value(sv) and sv.as_long() == str_code("\n"):
                self.assumptions_used.add("record + '\\n' terminates the record: the field list is unchanged")
                return a
        if isinstance(n.op, ast.Add) and isinstance(a.ty, StrT) and isinstance(b.ty, StrT):
            from . import lib
            return Val(lib.cat(self)(a.t, b.t), STR)
        if isinstance(n.op, ast.Add) and isinstance(a.ty, TextT) and isinstance(b.ty, TextT):
            return Val(z3.Concat(a.t, b.t), TEXT)
        if isinstance(n.op, ast.BitOr) and isinstance(a.ty, SetT) and a.ty == b.ty:
            x = z3.FreshConst(a.ty.elt.sort(), "u")
            r = z3.FreshConst(a.ty.sort(), "union")
            st.assume(z3.ForAll([x], z3.Select(r, x) == z3.Or(z3.Select(a.t, x), z3.Select(b.t, x))))
            return Val(r, a.ty)
        raise Unsupported("binary op %s on %s, %s at line %s" % (type(n.op).__name__, a.ty, b.ty, n.lineno))

    @staticmethod
    def _floordiv(a, b):
        # z3 Int division rounds so that the remainder is non-negative (Euclidean); Python floors.
        # For b > 0 they agree.  For b < 0: floor(a/b) = -ceil(a/(-b)) = -((a + (-b) - 1) div (-b)) ... use ite.
        return z3.If(b > 0, a / b, z3.If((a % b) == 0, a / b, (a / b) - 1))

    def ev_Compare(self, n, st):
        left = self.ev(n.left, st)
        conds = []
        pushed = 0
        try:
            for op, rn in zip(n.ops, n.comparators):
                right = self.ev(rn, st) if not isinstance(op, (ast.In, ast.NotIn)) else None
                c = self.compare(op, left, right, rn, st, n)
                conds.append(c)
                self.guards.append(c)
                pushed += 1
                if right is not None:
                    left = right
        finally:
            for _ in range(pushed):
                self.guards.pop()
        return Val(z3.And(*conds) if len(conds) > 1 else conds[0], BOOL)

    def compare(self, op, a, b, bnode, st, node):
        if isinstance(op, (ast.In, ast.NotIn)):
            r = self.contains(a, bnode, st, node)
            return r if isinstance(op, ast.In) else z3.Not(r)
        if isinstance(op, (ast.Is, ast.IsNot)):
            r = self.is_same(a, b, st, node)
            return r if isinstance(op, ast.Is) else z3.Not(r)
        if isinstance(op, (ast.Eq, ast.NotEq)):
            if (isinstance(a.ty, StrT) and isinstance(b.ty, IntT)) or (isinstance(a.ty, IntT) and isinstance(b.ty, StrT)):
                # a string-typed slot compared with an int constant (e.g. the `[0]` "no tags" sentinel kept in a list of tag strings): an int stored
                # in a string-typed container is represented by a reserved string code "\x00int:<n>", which no real string has; a symbolic slot
                # may or may not hold it, so both outcomes are explored
                s_, i_ = (a, b) if isinstance(a.ty, StrT) else (b, a)
                iv = z3.simplify(i_.t)
                if not z3.is_int_value(iv):
                    raise Unsupported("comparison of a string with a non-constant int at line %s" % getattr(node, "lineno", "?"))
                self.assumptions_used.add("an int constant stored in a string-typed container is represented by a reserved string code (\\x00int:<n>)")
                r = s_.t == str_code("\x00int:%d" % iv.as_long())
            else:
                r = self.equals(a, b, st, node)
            return r if isinstance(op, ast.Eq) else z3.Not(r)
        # an optional number in an ordering comparison (`p.exitcode > 0`): TypeError when it is None - a safety obligation under the guards of the
        # enclosing short-circuit (`x is None or x > 0`) - and the comparison of its value otherwise
        if isinstance(a.ty, OptT) and a.ty.kind == "none" and isinstance(a.ty.inner, (IntT, RealT)):
            a = self.coerce(a, a.ty.inner, st, node, "left operand of an ordering comparison")
        if isinstance(b.ty, OptT) and b.ty.kind == "none" and isinstance(b.ty.inner, (IntT, RealT)):
            b = self.coerce(b, b.ty.inner, st, node, "right operand of an ordering comparison")
        if isinstance(a.ty, (RealT, IntT)) and isinstance(b.ty, (RealT, IntT)) and (isinstance(a.ty, RealT) or isinstance(b.ty, RealT)):
            a = Val(a.t if isinstance(a.ty, RealT) else z3.ToReal(a.t), REAL)
            b = Val(b.t if isinstance(b.ty, RealT) else z3.ToReal(b.t), REAL)
        elif not (isinstance(a.ty, IntT) and isinstance(b.ty, IntT)):
            raise Unsupported("ordering comparison on %s, %s at line %s" % (a.ty, b.ty, node.lineno))
        if isinstance(op, ast.Lt):
            return a.t < b.t
        if isinstance(op, ast.LtE):
            return a.t <= b.t
        if isinstance(op, ast.Gt):
            return a.t > b.t
        if isinstance(op, ast.GtE):
            return a.t >= b.t
        raise Unsupported("comparison op")

    def is_same(self, a, b, st, node):
        if isinstance(b.ty, NoneT):
            if isinstance(a.ty, OptT) and a.ty.kind == "none":
                return a.ty.is_none(a.t)
            if isinstance(a.ty, NoneT):
                return z3.BoolVal(True)
            return z3.BoolVal(False)
        if isinstance(b.ty, BoolT) and isinstance(a.ty, OptT) and a.ty.kind == "false":
            if z3.is_false(z3.simplify(b.t)):
                return a.ty.is_none(a.t)
            return z3.BoolVal(False)
        if isinstance(b.ty, BoolT) and isinstance(a.ty, BoolT):
            return a.t == b.t
        if isinstance(b.ty, BoolT) and isinstance(a.ty, OptT) and a.ty.kind == "none" and isinstance(a.ty.inner, BoolT):
            return z3.And(a.ty.is_some(a.t), a.ty.val(a.t) == b.t)
        raise Unsupported("`is` on %s, %s at line %s" % (a.ty, b.ty, node.lineno))

    def equals(self, a, b, st, node):
        if isinstance(a.ty, NoneT) or isinstance(b.ty, NoneT):
            return self.is_same(a, b, st, node) if isinstance(b.ty, NoneT) else self.is_same(b, a, st, node)
        if isinstance(a.ty, ListT) and isinstance(b.ty, EmptyListT):
            return a.ty.len(a.t) == 0
        if isinstance(b.ty, ListT) and isinstance(a.ty, EmptyListT):
            return b.ty.len(b.t) == 0
        if isinstance(a.ty, ListT) and isinstance(b.ty, ListT) and a.ty == b.ty:
            # list equality: same length and same elements
            i = z3.FreshConst(z3.IntSort(), "eqi")
            la, lb = a.ty.len(a.t), b.ty.len(b.t)
            return z3.And(la == lb, z3.ForAll([i], z3.Implies(z3.And(0 <= i, i < la), z3.Select(a.ty.arr(a.t), i) == z3.Select(b.ty.arr(b.t), i))))
        a, b = self.same_type(a, b, st, node)
        return a.t == b.t

    def contains(self, item, cnode, st, node):
        # literal tuple/list/set of constants
        if isinstance(cnode, (ast.Tuple, ast.List, ast.Set)):
            vals = [self.ev(e, st) for e in cnode.elts]
            outs = []
            for v in vals:
                outs.append(self.equals(item, v, st, node))
            return z3.Or(*outs) if outs else z3.BoolVal(False)
        cont = self.ev(cnode, st)
        ty = cont.ty
        if isinstance(ty, DictT):
            if isinstance(item.ty, TupleT) and isinstance(ty.k, TupleT) and len(item.ty.elts) != len(ty.k.elts):
                return z3.BoolVal(False)  # tuples of different length are never equal
            item = self.coerce(item, ty.k, st, node)
            return z3.Select(ty.has(cont.t), item.t)
        if isinstance(ty, SetT):
            item = self.coerce(item, ty.elt, st, node)
            return z3.Select(cont.t, item.t)
        if isinstance(ty, ListT):
            item = self.coerce(item, ty.elt, st, node)
            i = z3.FreshConst(z3.IntSort(), "ini")
            return z3.Exists([i], z3.And(0 <= i, i < ty.len(cont.t), z3.Select(ty.arr(cont.t), i) == item.t))
        if isinstance(ty, ObjT) and "__contains__" in getattr(ty, "dunder", {}):
            f = ty.dunder["__contains__"]
            d = Val(ty.get(cont.t, f), ty.fields[f])
            item = self.coerce(item, d.ty.k, st, node)
            return z3.Select(d.ty.has(d.t), item.t)
        if isinstance(ty, StrT) and isinstance(item.ty, StrT):
            # substring test on identity strings: uninterpreted predicate
            f = self.uf("str_contains", [STR, STR], BOOL)
            self.assumptions_used.add("`a in s` on identity strings is an uninterpreted predicate str_contains(s, a)")
            return f(cont.t, item.t)
        raise Unsupported("`in` on %s at line %s" % (ty, node.lineno))

    def ev_Tuple(self, n, st):
        vals = [self.ev(e, st) for e in n.elts]
        ty = TupleT(*[v.ty for v in vals])
        return Val(ty.mk([v.t for v in vals]), ty)

    def ev_List(self, n, st):
        vals = [self.ev(e, st) for e in n.elts]
        if not vals:
            return Val(None, EmptyListT())
        if all(v.ty == vals[0].ty for v in vals):
            ty = ListT(vals[0].ty)
            t = ty.empty()
            arr = ty.arr(t)
            for i, v in enumerate(vals):
                arr = z3.Store(arr, i, v.t)
            return Val(ty.mk(arr, z3.IntVal(len(vals))), ty)
        # heterogeneous list literal of fixed length: a record
        ty = TupleT(*[v.ty for v in vals])
        return Val(ty.mk([v.t for v in vals]), ty)

    def ev_Dict(self, n, st):
        if not n.keys:
            from . import lib
            return Val(None, lib.EmptyDictT())
        ks = [self.ev(k, st) for k in n.keys]
        vs = [self.ev(v, st) for v in n.values]
        ty = DictT(ks[0].ty, vs[0].ty)
        t = ty.empty()
        for k, v in zip(ks, vs):
            t = ty.store(t, self.coerce(k, ty.k, st, n).t, self.coerce(v, ty.v, st, n).t)
        return Val(t, ty)

    def ev_Set(self, n, st):
        vs = [self.ev(v, st) for v in n.elts]
        ty = SetT(vs[0].ty)
        t = ty.empty()
        for v in vs:
            t = z3.Store(t, self.coerce(v, ty.elt, st, n).t, True)
        return Val(t, ty)

    def ev_Attribute(self, n, st):
        base = self.ev(n.value, st)
        return self.getattr(base, n.attr, st, n)

    def getattr(self, base, attr, st, n):
        ty = base.ty
        if isinstance(ty, OptT) and isinstance(ty.inner, ObjT):
            base = self.coerce(base, ty.inner, st, n, "attribute base")
            ty = base.ty
        if isinstance(ty, ObjT):
            if attr in ty.fields:
                return Val(ty.get(base.t, attr), ty.fields[attr])
            raise Unsupported("no field %s on %s at line %s" % (attr, ty, n.lineno))
        if isinstance(ty, TupleT) and ty.names and attr in ty.names:
            i = ty.names.index(attr)
            return Val(ty.get(base.t, i), ty.elts[i])
        raise Unsupported("attribute %s on %s at line %s" % (attr, ty, getattr(n, "lineno", "?")))

    def index_list(self, base, idxnode, st, n):
        ty = base.ty
        ln = ty.len(base.t)
        if isinstance(idxnode, ast.UnaryOp) and isinstance(idxnode.op, ast.USub) and isinstance(idxnode.operand, ast.Constant):
            k = idxnode.operand.value
            i = ln - k
            self.may_raise(st, "IndexError", ln < k, "list[-%d]" % k, n)
            return i
        iv = self.ev(idxnode, st)
        if not isinstance(iv.ty, IntT):
            raise Unsupported("list index of type %s at line %s" % (iv.ty, n.lineno))
        self.may_raise(st, "IndexError", z3.Not(z3.And(0 <= iv.t, iv.t < ln)), "list[%s]" % ast.unparse(idxnode), n)
        return iv.t

    def ev_Subscript(self, n, st):
        v = self._ev_Subscript(n, st)
        if not self.in_spec and isinstance(v.ty, (ListT, ObjT, TupleT, OptT, OrdDictT)):
            # every python list has a non-negative length: also the ones read out of a container
            for f_ in type_invariant(v.t, v.ty):
                st.assume(f_)
        return v

    def _ev_Subscript(self, n, st):
        base = self.ev(n.value, st)
        ty = base.ty
        if isinstance(n.slice, ast.Slice):
            if isinstance(ty, StrT) and n.slice.step is None and n.slice.upper is None and isinstance(n.slice.lower, ast.Constant) and n.slice.lower.value == 1:
                return Val(self.uf("str_tail", [STR], STR)(base.t), STR)
            if isinstance(ty, StrT) and n.slice.step is None and n.slice.lower is None and ast.unparse(n.slice.upper) == "-1":
                self.assumptions_used.add("s[:-1] on an identity string is the uninterpreted function str_drop_last")
                return Val(self.uf("str_drop_last", [STR], STR)(base.t), STR)
            if isinstance(ty, StrT) and n.slice.step is None:
                # s[:k] / s[k:] with a constant k: uninterpreted prefix / suffix functions with the law s[:k] + s[k:] == s
                lo, hi = n.slice.lower, n.slice.upper
                from . import lib
                if lo is None and isinstance(hi, ast.Constant) and isinstance(hi.value, int) and hi.value >= 0:
                    k = hi.value
                    pre = self.uf("str_prefix", [STR, INT], STR)(base.t, k)
                    suf = self.uf("str_suffix", [STR, INT], STR)(base.t, k)
                    self.prefix_suffix_axiom()
                    return Val(pre, STR)
                if hi is None and isinstance(lo, ast.Constant) and isinstance(lo.value, int) and lo.value >= 0:
                    k = lo.value
                    pre = self.uf("str_prefix", [STR, INT], STR)(base.t, k)
                    suf = self.uf("str_suffix", [STR, INT], STR)(base.t, k)
                    self.prefix_suffix_axiom()
                    return Val(suf, STR)
            return self.slice_list(base, n.slice, st, n)
        if isinstance(ty, OptT):
            base = self.coerce(base, ty.inner, st, n, "subscript base")
            ty = base.ty
        if isinstance(ty, StrT):
            if isinstance(n.slice, ast.Constant) and n.slice.value == 0:
                self.assumptions_used.add("s[0] / s[1:] on identity strings are uninterpreted head/tail functions (s non-empty is the caller's precondition)")
                return Val(self.uf("str_head", [STR], STR)(base.t), STR)
            raise Unsupported("string index at line %s" % n.lineno)
        if isinstance(ty, ListT):
            i = self.index_list(base, n.slice, st, n)
            return Val(z3.Select(ty.arr(base.t), i), ty.elt)
        if isinstance(ty, TupleT):
            if isinstance(n.slice, ast.Constant) and isinstance(n.slice.value, int):
                k = n.slice.value
                if k < 0:
                    k += len(ty.elts)
                if not 0 <= k < len(ty.elts):
                    self.oblige(st, "safety", "IndexError:tuple[%d]" % n.slice.value, z3.BoolVal(False), n)
                    raise PathDead()
                return Val(ty.get(base.t, k), ty.elts[k])
            raise Unsupported("non-constant tuple index at line %s" % n.lineno)
        if isinstance(ty, MapT):
            k = self.coerce(self.ev(n.slice, st), ty.k, st, n, "map key")
            return Val(z3.Select(base.t, k.t), ty.v)
        if isinstance(ty, DictT):
            k = self.coerce(self.ev(n.slice, st), ty.k, st, n, "dict key")
            if getattr(ty, "default", None) is None:
                self.may_raise(st, "KeyError", z3.Not(z3.Select(ty.has(base.t), k.t)), "dict[%s]" % ast.unparse(n.slice), n)
                return Val(z3.Select(ty.val(base.t), k.t), ty.v)
            # defaultdict read: missing key yields (and inserts) the default; the insertion is applied by the caller on assignment paths
            dflt = ty.default(self)
            return Val(z3.If(z3.Select(ty.has(base.t), k.t), z3.Select(ty.val(base.t), k.t), dflt.t), ty.v)
        if isinstance(ty, ObjT) and "__getitem__" in getattr(ty, "dunder", {}):
            f = ty.dunder["__getitem__"]
            d = Val(ty.get(base.t, f), ty.fields[f])
            k = self.coerce(self.ev(n.slice, st), d.ty.k, st, n, "key")
            self.may_raise(st, "KeyError", z3.Not(z3.Select(d.ty.has(d.t), k.t)), "%s[%s]" % (ty.cname, ast.unparse(n.slice)), n)
            return Val(z3.Select(d.ty.val(d.t), k.t), d.ty.v)
        raise Unsupported("subscript on %s at line %s" % (ty, n.lineno))

    def prefix_suffix_axiom(self):
        from . import lib
        if "prefix-suffix" not in self.global_axioms:
            s_, k_ = z3.FreshConst(z3.IntSort(), "ps_s"), z3.FreshConst(z3.IntSort(), "ps_k")
            pre = self.uf("str_prefix", [STR, INT], STR)
            suf = self.uf("str_suffix", [STR, INT], STR)
            self.global_axioms["prefix-suffix"] = z3.ForAll([s_, k_], z3.Implies(k_ >= 0, lib.cat(self)(pre(s_, k_), suf(s_, k_)) == s_))
            self.assumptions_used.add("assumed: s[:k] + s[k:] == s (str_prefix / str_suffix / cat on identity strings)")

    def slice_list(self, base, sl, st, n):
        """xs[lo:hi] as an application of a function slice_T(xs, lo, hi) (so equal arguments give equal slices), axiomatised once"""
        ty = base.ty
        if not isinstance(ty, ListT):
            raise Unsupported("slice on %s at line %s" % (ty, n.lineno))
        if sl.step is not None:
            raise Unsupported("slice step")
        ln = ty.len(base.t)
        lo = self.ev(sl.lower, st).t if sl.lower is not None else z3.IntVal(0)
        hi = self.ev(sl.upper, st).t if sl.upper is not None else ln
        # python clamps; we require 0 <= lo (no negative indices) and clamp the rest like python
        self.oblige(st, "safety", "slice-lower-nonneg", lo >= 0, n)
        if sl.upper is not None:
            self.oblige(st, "safety", "slice-upper-nonneg", hi >= 0, n)
        fname = "slice_" + ty.name.replace("<", "_").replace(">", "_").replace(",", "_")
        f = self.uf(fname, [ty, INT, INT], ty)
        if fname not in self.global_axioms:
            l_, a_, b_, i_ = z3.FreshConst(ty.sort(), "sl_l"), z3.FreshConst(z3.IntSort(), "sl_a"), z3.FreshConst(z3.IntSort(), "sl_b"), z3.FreshConst(z3.IntSort(), "sl_i")
            L_ = ty.len(l_)
            hi2 = z3.If(b_ > L_, L_, b_)
            lo2 = z3.If(a_ > hi2, hi2, a_)
            self.global_axioms[fname] = z3.ForAll([l_, a_, b_], z3.Implies(z3.And(a_ >= 0, b_ >= 0), z3.And(
                ty.len(f(l_, a_, b_)) == hi2 - lo2,
                z3.ForAll([i_], z3.Select(ty.arr(f(l_, a_, b_)), i_) == z3.Select(ty.arr(l_), i_ + lo2)))))
        return Val(f(base.t, lo, hi), ty)

    def list_concat(self, a, b, st):
        ty = a.ty
        la = ty.len(a.t)
        lb = z3.simplify(ty.len(b.t))
        if z3.is_int_value(lb) and lb.as_long() <= 64:
            # concatenation with a list of known small length: element-wise stores (quantifier-free)
            arr = ty.arr(a.t)
            for k in range(lb.as_long()):
                arr = z3.Store(arr, la + k, z3.simplify(z3.Select(ty.arr(b.t), k)))
            return Val(ty.mk(arr, la + lb), ty)
        arr = z3.FreshConst(z3.ArraySort(z3.IntSort(), ty.elt.sort()), "cat")
        i = z3.FreshConst(z3.IntSort(), "cc")
        st.assume(z3.ForAll([i], z3.Select(arr, i) == z3.If(i < la, z3.Select(ty.arr(a.t), i), z3.Select(ty.arr(b.t), i - la))))
        return Val(ty.mk(arr, la + ty.len(b.t)), ty)

    def ev_ListComp(self, n, st):
        src = ast.unparse(n)
        if len(n.generators) == 1 and ast.unparse(n.elt) == "''.join(x)":
            it = n.generators[0].iter
            if isinstance(it, ast.Call) and ast.unparse(it.func) == "itertools.groupby" and any(ast.unparse(k.value) == "str.isdigit" for k in it.keywords):
                x = self.ev(it.args[0], st)
                self.assumptions_used.add("assumed: [''.join(x) for _, x in itertools.groupby(s, key=str.isdigit)] = the maximal digit / non-digit runs of s (cigar_runs)")
                from . import lib
                if isinstance(x.ty, ListT):
                    return x  # the CIGAR is already modelled as its run list
                v = Val(self.uf("cigar_runs", [STR], lib.LINE)(x.t), lib.LINE)
                st.assume(lib.LINE.len(v.t) >= 0)
                return v
        if len(n.generators) == 1 and not n.generators[0].ifs and isinstance(n.generators[0].target, ast.Name):
            # [f(x) for x in L]: a list of the same length with R[i] == f(L[i]) (f evaluated on a generic element, its failures are the
            # caller's domain: preconditions on L's elements)
            L = self.ev(n.generators[0].iter, st)
            if isinstance(L.ty, SetT):
                # iteration order of a set: the ghost enumeration (distinct, covers exactly the members); its position map is last_keypos()
                from . import lib as _lib
                L, _pos = _lib.key_order(self, L.t, L.ty.elt, st)
                self.last_keypos = Val(_pos, MapT(L.ty.elt, INT))
            if isinstance(L.ty, ListT):
                nm = n.generators[0].target.id
                i = z3.FreshConst(z3.IntSort(), "lc")
                saved = st.env.get(nm)
                st.env[nm] = Val(z3.Select(L.ty.arr(L.t), i), L.ty.elt)
                self.in_spec += 1
                try:
                    body = self.ev(n.elt, st)
                finally:
                    self.in_spec -= 1
                    if saved is None:
                        st.env.pop(nm, None)
                    else:
                        st.env[nm] = saved
                rty = ListT(body.ty)
                R = Val(rty.fresh("listcomp"), rty)
                st.assume(rty.len(R.t) == L.ty.len(L.t))
                st.assume(z3.ForAll([i], z3.Implies(z3.And(0 <= i, i < L.ty.len(L.t)), z3.Select(rty.arr(R.t), i) == body.t)))
                return R
        raise Unsupported("list comprehension `%s` at line %s" % (src[:60], n.lineno))

    def ev_Lambda(self, n, st):
        raise Unsupported("lambda outside a spec quantifier at line %s" % n.lineno)

    def ev_JoinedStr(self, n, st):
        """f"a\t{x}..." is read like the %-format "a\t%s..." % (x, ...)"""
        from . import lib
        fmt, args = "", []
        for v in n.values:
            if isinstance(v, ast.Constant):
                fmt += str(v.value).replace("%", "%%")
            elif isinstance(v, ast.FormattedValue):
                if v.format_spec is not None or v.conversion != -1:
                    raise Unsupported("f-string conversion/format spec at line %s" % n.lineno)
                fmt += "%s"
                args.append(self.ev(v.value, st))
            else:
                raise Unsupported("f-string part at line %s" % n.lineno)
        if "%%" in fmt:
            raise Unsupported("literal % in f-string at line %s" % n.lineno)
        return lib.format_value(self, fmt, args, st, n)

    # ---- calls ----------------------------------------------------------------------------------
    def ev_Call(self, n, st):
        from . import lib
        fname = ast.unparse(n.func)
        # spec builtins and plain builtins
        if isinstance(n.func, ast.Name):
            k = n.func.id
            h = lib.BUILTINS.get(k)
            if k in self.macros:
                return self.call_macro(k, n, st)
            if k in self.c.ufuns:
                argtys, retty = self.c.ufuns[k]
                f = self.uf(k, argtys, retty)
                args = [self.coerce(self.ev(a, st), t, st, n) for a, t in zip(n.args, argtys)]
                return Val(f(*[a.t for a in args]), retty)
            if h is not None and (k not in st.env):
                return h(self, n, st)
            if k in self.c.types and isinstance(self.c.types[k], (ObjT, TupleT)):
                return self.construct(self.c.types[k], n, st)
            if k in self.c.call_overrides:
                return self.call_contract(self.reg.by_key[self.c.call_overrides[k]], n, st, None)
            con = self.reg.lookup_simple(self.c.file, k, self.imports)
            if con is not None:
                return self.call_contract(con, n, st, None)
            if k in st.env:
                recv = st.env[k]
                if isinstance(recv.ty, ObjT):
                    con = self.reg.lookup_method(recv.ty.cname, "__call__")
                    if con is not None:
                        n2 = ast.Call(func=ast.Attribute(value=n.func, attr="__call__", ctx=ast.Load()), args=n.args, keywords=n.keywords)
                        ast.copy_location(n2, n)
                        ast.fix_missing_locations(n2)
                        return self.call_contract(con, n2, st, recv)
                raise Unsupported("call of local value %s at line %s" % (k, n.lineno))
            raise Unsupported("call of unknown function %s at line %s" % (k, n.lineno))
        if isinstance(n.func, ast.Attribute):
            root = n.func
            while isinstance(root, ast.Attribute):
                root = root.value
            if isinstance(root, ast.Name) and root.id not in st.env and root.id in self.imports:
                dotted = self.imports[root.id] + fname[len(root.id):]
                h = lib.LIBCALLS.get(dotted)
                if h is not None:
                    return h(self, n, st)
                con = self.reg.lookup_dotted(dotted)
                if con is not None:
                    return self.call_contract(con, n, st, None)
                raise Unsupported("library call %s at line %s has no contract" % (dotted, n.lineno))
            # method call on a value
            h = lib.PATTERN_CALLS.get(fname)
            if h is not None:
                return h(self, n, st)
            recv = self.ev(n.func.value, st)
            return self.call_method(recv, n.func.attr, n, st)
        raise Unsupported("call form at line %s" % n.lineno)

    def call_macro(self, k, n, st):
        lam = self.macros[k]
        if not isinstance(lam, ast.Lambda):
            raise Unsupported("spec function %s is not a lambda" % k)
        params = [a.arg for a in lam.args.args]
        if len(params) != len(n.args):
            raise Unsupported("spec function %s arity" % k)
        args = [self.ev(a, st) for a in n.args]
        saved = {}
        for p, a in zip(params, args):
            saved[p] = st.env.get(p, _MISSING)
            st.env[p] = a
        self.in_spec += 1
        try:
            return self.ev(lam.body, st)
        finally:
            self.in_spec -= 1
            for p, v in saved.items():
                if v is _MISSING:
                    st.env.pop(p, None)
                else:
                    st.env[p] = v

    def construct(self, ty, n, st):
        if isinstance(ty, ObjT) and hasattr(ty, "construct"):
            args = [self.ev(a, st) for a in n.args]
            vals = ty.construct(self, args)
            return Val(ty.mk([self.coerce(vals[f], ty.fields[f], st, n, "field " + f).t for f in ty.order]), ty)
        if isinstance(ty, ObjT):
            ctor = getattr(ty, "ctor", ty.order)
            vals = {}
            for name, a in zip(ctor, n.args):
                vals[name] = self.ev(a, st)
            for kw in n.keywords:
                vals[kw.arg] = self.ev(kw.value, st)
            terms = []
            for f in ty.order:
                if f in vals:
                    terms.append(self.coerce(vals[f], ty.fields[f], st, n, "field " + f).t)
                elif f in getattr(ty, "defaults", {}):
                    terms.append(ty.defaults[f](self).t)
                else:
                    raise Unsupported("constructor %s missing field %s" % (ty.cname, f))
            return Val(ty.mk(terms), ty)
        if isinstance(ty, TupleT) and ty.names:
            vals = {}
            for name, a in zip(ty.names, n.args):
                vals[name] = self.ev(a, st)
            for kw in n.keywords:
                vals[kw.arg] = self.ev(kw.value, st)
            terms = [self.coerce(vals[f], t, st, n, "field " + f).t for f, t in zip(ty.names, ty.elts)]
            return Val(ty.mk(terms), ty)
        raise Unsupported("constructor of %s" % ty)

    def call_method(self, recv, attr, n, st):
        from . import lib
        ty = recv.ty
        if isinstance(ty, OptT) and isinstance(ty.inner, ObjT):
            recv = self.coerce(recv, ty.inner, st, n, "method receiver")
            ty = recv.ty
        if isinstance(ty, ObjT):
            con = self.reg.lookup_method(ty.cname, attr, ty)
            if con is not None:
                return self.call_contract(con, n, st, recv)
        h = lib.METHODS.get((type(ty).__name__, attr))
        if h is not None:
            return h(self, recv, n, st)
        raise Unsupported("method %s on %s at line %s" % (attr, ty, n.lineno))

    def bind_args(self, con, n, st, recv):
        names = list(con.params)
        argvals = {}
        pos = list(n.args)
        exprs = {}
        if recv is not None:
            argvals[names[0]] = recv
            exprs[names[0]] = n.func.value
            names_rest = names[1:]
        else:
            names_rest = names
        if any(isinstance(a, ast.Starred) for a in pos):
            # f(*lst, more...): the list is spread over as many positional parameters as remain for it; calling with a list of another
            # length is a TypeError (safety obligation)
            if not (isinstance(pos[0], ast.Starred) and not any(isinstance(a, ast.Starred) for a in pos[1:])):
                raise Unsupported("star-argument form at line %s" % n.lineno)
            lst = self.ev(pos[0].value, st)
            if not isinstance(lst.ty, ListT):
                raise Unsupported("star-argument of %s at line %s" % (lst.ty, n.lineno))
            k_star = len(names_rest) - (len(pos) - 1) - len([kw for kw in n.keywords if kw.arg in con.params])
            if k_star < 0:
                raise Unsupported("star-argument arity at line %s" % n.lineno)
            self.may_raise(st, "TypeError", lst.ty.len(lst.t) != k_star, "f(*list): wrong number of positional arguments", n)
            for i_ in range(k_star):
                argvals[names_rest[i_]] = Val(z3.Select(lst.ty.arr(lst.t), i_), lst.ty.elt)
            for name, a in zip(names_rest[k_star:], pos[1:]):
                argvals[name] = self.ev(a, st)
                exprs[name] = a
            pos = []
        for name, a in zip(names_rest, pos):
            argvals[name] = self.ev(a, st)
            exprs[name] = a
        for kw in n.keywords:
            if kw.arg in con.params:
                argvals[kw.arg] = self.ev(kw.value, st)
                exprs[kw.arg] = kw.value
        defaults = con.defaults
        for name in names:
            if name not in argvals:
                if name in defaults:
                    argvals[name] = defaults[name](self)
                else:
                    raise Unsupported("call of %s: missing argument %s at line %s" % (con.func, name, n.lineno))
        for name in names:
            argvals[name] = self.coerce(argvals[name], con.params[name], st, n, "argument " + name)
        for g in con.ghost_reads:
            if g in st.env:
                argvals[g] = st.env[g]
        # ghost parameters of the callee: instantiated by the caller's contract (call_ghost), else by a same-named ghost
        for g, gty in con.ghost.items():
            spec = self.c.call_ghost.get(con.func, {}).get(g)
            if spec is not None:
                env2 = dict(st.env)
                s2 = st.copy()
                s2.env = dict(st.env)
                s2.env.update(argvals)
                argvals[g] = self.coerce(SpecEnv(self, self.c, None).ev(spec, s2), gty, st, n, "ghost " + g)
            elif g in st.env and st.env[g].ty == gty:
                argvals[g] = st.env[g]
            else:
                argvals[g] = Val(gty.fresh("ghostarg_" + g), gty)
        return argvals, exprs

    def call_contract(self, con, n, st, recv):
        """Modular call: assert the callee's precondition, havoc result and modified arguments, assume its postcondition."""
        argvals, exprs = self.bind_args(con, n, st, recv)
        sub = SpecEnv(self, con, argvals)
        for i, r in enumerate(con.requires):
            g = sub.ev_bool(r, st)
            self.oblige(st, "pre", "%s#%d[%s]" % (con.func, i, r[:60]), g, n)
        if self.c.key == con.key and con.decreases and not self.in_spec:
            m_new = sub.ev_int(con.decreases, st)
            m_old = SpecEnv(self, self.c, dict(st.old)).ev_int(con.decreases, st)
            self.oblige(st, "decreases", "rec@L%d" % n.lineno, z3.And(m_new >= 0, m_new < m_old) if False else z3.And(m_old >= 0, m_new < m_old), n)
        # exceptions the callee may raise
        for exc, cond in con.raises.items():
            c = z3.FreshConst(z3.BoolSort(), "raises_" + exc) if cond == "*" else sub.ev_bool(cond, st)
            self.may_raise(st, exc, c, "%s()" % con.func, n)
        post_env = dict(argvals)
        for m in con.modifies:
            post_env[m] = Val(con.params[m].fresh("post_" + m), con.params[m])
            for f in type_invariant(post_env[m].t, con.params[m]):
                st.assume(f)
        res = None
        if not isinstance(con.returns, NoneT):
            if con.pure:
                f = self.uf("fn_" + con.func.replace(".", "_"), [con.params[p] for p in con.params], con.returns)
                res = Val(f(*[argvals[p].t for p in con.params]), con.returns)
            else:
                res = Val(con.returns.fresh("ret_" + con.func.replace(".", "_")), con.returns)
            for f in type_invariant(res.t, con.returns):
                st.assume(f)
        subp = SpecEnv(self, con, post_env, old=argvals, result=res)
        for k, e in con.ensures.items():
            f = subp.ev_bool(e["expr"] if isinstance(e, dict) else e, st)
            f = f if not self.guards else z3.Implies(z3.And(*self.guards), f)
            st.assume(f)
            st.named["%s:%s" % (con.func, k)] = f  # the callee's postcondition at its latest call on this path, as a named fact
        for e in con.post_hints:
            st.assume(subp.ev_bool(e, st))
        if con.trusted:
            self.assumptions_used.add("assumed contract: %s" % con.qual)
        # write modified arguments back to the caller's lvalues
        for m in con.modifies:
            ex = exprs.get(m)
            if ex is None:
                continue
            self.assign_target(ex, post_env[m], st, n)
        return res if res is not None else NoneV

    # ---- assignment ------------------------------------------------------------------------------
    def assign_target(self, tgt, val, st, node, _inplace=False):
        if isinstance(tgt, ast.Name) and _inplace and not getattr(self, "in_ghost", False):
            # in-place mutation of the object bound to this name: every alias (x = y) sees it
            seen = {tgt.id}
            cur = tgt.id
            while cur in self.alias_of and self.alias_of[cur] not in seen:
                cur = self.alias_of[cur]
                seen.add(cur)
                if cur in st.env and isinstance(st.env[cur].ty, type(val.ty)) and st.env[cur].ty == val.ty:
                    st.env[cur] = val
                    self.mutated_names.add(cur)
            for k, v in list(self.alias_of.items()):
                if v == tgt.id and k in st.env and st.env[k].ty == val.ty:
                    st.env[k] = val
        if isinstance(tgt, ast.Name):
            decl = self.c.locals.get(tgt.id)
            if decl is None and getattr(self, "in_ghost", False):
                decl = self.c.ghost.get(tgt.id)
            if isinstance(val.ty, EmptyListT) or type(val.ty).__name__ in ("EmptyDictT", "EmptySetT"):
                if decl is not None:
                    val = self.coerce(val, decl, st, node, "assignment to " + tgt.id)
            elif decl is not None and decl != val.ty:
                try:
                    val = self.coerce(val, decl, st, node, "assignment to " + tgt.id)
                except Unsupported:
                    if not isinstance(val.ty, (ListT, SetT, DictT)):
                        raise
                    # the name is re-bound to a container of another kind (e.g. offsets = sorted(offsets)): plain re-binding
            st.env[tgt.id] = val
            if tgt.id in st.defd:
                st.defd[tgt.id] = z3.BoolVal(True)
            return
        if isinstance(tgt, (ast.Tuple, ast.List)):
            if isinstance(val.ty, TupleT):
                if len(val.ty.elts) != len(tgt.elts):
                    self.oblige(st, "safety", "ValueError:unpack", z3.BoolVal(False), node)
                    raise PathDead()
                for i, e in enumerate(tgt.elts):
                    self.assign_target(e, Val(val.ty.get(val.t, i), val.ty.elts[i]), st, node)
                return
            if isinstance(val.ty, ListT):
                self.may_raise(st, "ValueError", val.ty.len(val.t) != len(tgt.elts), "unpack", node)
                for i, e in enumerate(tgt.elts):
                    self.assign_target(e, Val(z3.Select(val.ty.arr(val.t), i), val.ty.elt), st, node)
                return
            if isinstance(val.ty, OptT):
                return self.assign_target(tgt, self.coerce(val, val.ty.inner, st, node, "unpack"), st, node)
            raise Unsupported("unpack of %s at line %s" % (val.ty, node.lineno))
        if isinstance(tgt, ast.Attribute):
            base = self.ev(tgt.value, st)
            bty = base.ty
            if isinstance(bty, ObjT) and tgt.attr in bty.fields:
                v = self.coerce(val, bty.fields[tgt.attr], st, node, "attribute " + tgt.attr)
                self.check_alias(tgt.value, node)
                return self.assign_target(tgt.value, Val(bty.set(base.t, tgt.attr, v.t), bty), st, node, _inplace=True)
            raise Unsupported("attribute store on %s at line %s" % (bty, node.lineno))
        if isinstance(tgt, ast.Subscript):
            base = self.ev(tgt.value, st)
            bty = base.ty
            self.check_alias(tgt.value, node)
            if isinstance(bty, ListT):
                i = self.index_list(base, tgt.slice, st, node)
                v = self.coerce(val, bty.elt, st, node, "list element")
                return self.assign_target(tgt.value, Val(bty.mk(z3.Store(bty.arr(base.t), i, v.t), bty.len(base.t)), bty), st, node, _inplace=True)
            if isinstance(bty, TupleT) and isinstance(tgt.slice, ast.Constant) and isinstance(tgt.slice.value, int):
                # a fixed-length list used as a record (e.g. [first, last]): functional update of one component
                k = tgt.slice.value
                v = self.coerce(val, bty.elts[k], st, node, "record component")
                return self.assign_target(tgt.value, Val(bty.mk([v.t if j == k else bty.get(base.t, j) for j in range(len(bty.elts))]), bty), st, node)
            if isinstance(bty, MapT):
                k = self.coerce(self.ev(tgt.slice, st), bty.k, st, node, "map key")
                v = self.coerce(val, bty.v, st, node, "map value")
                return self.assign_target(tgt.value, Val(z3.Store(base.t, k.t, v.t), bty), st, node)
            if isinstance(bty, DictT):
                k = self.coerce(self.ev(tgt.slice, st), bty.k, st, node, "dict key")
                v = self.coerce(val, bty.v, st, node, "dict value")
                new = Val(bty.store(base.t, k.t, v.t), bty)
                self.dict_insert_hook(tgt.value, base, new, k, st)
                return self.assign_target(tgt.value, new, st, node, _inplace=True)
            if isinstance(bty, ObjT) and "__getitem__" in getattr(bty, "dunder", {}):
                f = bty.dunder["__getitem__"]
                sub = ast.Subscript(value=ast.Attribute(value=tgt.value, attr=f, ctx=ast.Load()), slice=tgt.slice, ctx=ast.Store())
                ast.copy_location(sub, tgt)
                ast.fix_missing_locations(sub)
                return self.assign_target(sub, val, st, node)
            raise Unsupported("subscript store on %s at line %s" % (bty, node.lineno))
        raise Unsupported("assignment target %s" % type(tgt).__name__)

    def dict_insert_hook(self, tnode, old, new, key, st):
        pass

    def check_alias(self, basenode, node):
        root = basenode
        while isinstance(root, (ast.Attribute, ast.Subscript)):
            root = root.value
        if isinstance(root, ast.Name) and not getattr(self, "in_ghost", False):
            self.mutated_names.add(root.id)
        if isinstance(root, ast.Name) and root.id in self.escaped and root.id not in self.c.alias_ok and not getattr(self, "in_ghost", False):
            raise Unsupported("in-place mutation of %s after it was stored into a container (aliasing not modelled) at line %s"
                              % (root.id, node.lineno))
        if isinstance(root, ast.Name) and root.id in self.alias_derived and root.id not in self.c.alias_ok:
            raise Unsupported("in-place mutation of %s, which was bound from a sub-object (aliasing not modelled) at line %s"
                              % (root.id, node.lineno))

    # ---- statements -------------------------------------------------------------------------------
    def exec_block(self, stmts, st):
        """returns list of (state, kind, payload); kind in next/return/break/continue/raise"""
        states = [st]
        out = []
        for s in stmts:
            if _is_dropped_stmt(s):
                continue
            nxt = []
            for cur in states:
                try:
                    res = self.exec_stmt(s, cur)
                except PathDead:
                    continue
                for (s2, kind, payload) in res:
                    if kind == "next":
                        nxt.append(s2)
                    else:
                        out.append((s2, kind, payload))
            states = nxt
            if not states:
                break
        for cur in states:
            out.append((cur, "next", None))
        return out

    def exec_stmt(self, s, st):
        self.cur_line = s.lineno
        pre = self.anchor_ghost("before:", s, st)
        own = None
        if self.raise_conds is None and self.c.raises and not getattr(self, "in_ghost", False) and not self.in_spec \
                and not isinstance(s, (ast.If, ast.For, ast.While, ast.Try, ast.With)):
            # exceptions the function's own contract declares it may raise propagate out of the function (a raise path), they are not safety failures
            own = (self.catch, self.raise_conds)
            self.catch = self.catch | set(self.c.raises)
            self.raise_conds = {}
        try:
            return self._exec_stmt_outer(s, st)
        finally:
            if own is not None:
                self.catch, self.raise_conds = own

    def _exec_stmt_outer(self, s, st):
        if self.raise_conds is not None and not isinstance(s, (ast.If, ast.For, ast.While, ast.Try, ast.With)):
            # simple statement inside a try body: fork on the collected raise conditions
            saved = self.raise_conds
            self.raise_conds = {}
            st0 = st.copy()
            try:
                res = self._exec_stmt(s, st)
                conds = self.raise_conds
            finally:
                self.raise_conds = saved
            allc = [c for cs in conds.values() for c in cs]
            if allc:
                for (s2, kind, payload) in res:
                    s2.assume(z3.Not(z3.Or(*allc)))
                for exc, cs in conds.items():
                    sx = st0.copy()
                    sx.assume(z3.Or(*cs))
                    res.append((sx, "raise", exc))
        else:
            res = self._exec_stmt(s, st)
        out = []
        for (s2, kind, payload) in res:
            if kind == "next":
                try:
                    self.anchor_ghost("after:", s, s2)
                except PathDead:
                    continue
            out.append((s2, kind, payload))
        return out

    def anchor_ghost(self, prefix, s, st):
        if not (self.c.ghost_at or self.c.assert_at or self.c.assume_at):
            return
        if isinstance(s, (ast.If, ast.For, ast.While, ast.Try, ast.With)):
            head = ast.unparse(s).split("\n")[0]
        else:
            head = ast.unparse(s)
        for anchor, code in self.c.ghost_at.items():
            if anchor.startswith(prefix) and head.startswith(anchor[len(prefix):]):
                self.anchor_hits.add(anchor)
                self.run_ghost(code, st)
        for anchor, facts in self.c.assume_at.items():
            if anchor.startswith(prefix) and head.startswith(anchor[len(prefix):]):
                self.anchor_hits.add(anchor)
                for e in facts:
                    st.assume(self.spec_bool(e, st))
                    self.assumptions_used.add("assume_at %s in %s: %s" % (anchor, self.c.func, e[:160]))
        for anchor, claims in self.c.assert_at.items():
            if anchor.startswith(prefix) and head.startswith(anchor[len(prefix):]):
                self.anchor_hits.add(anchor)
                for label, e in claims.items():
                    frm = None
                    if isinstance(e, dict):
                        e, frm = e["expr"], e["from"]
                    f_ = self.spec_bool(e, st)
                    if frm is not None and any(l in st.named for l in frm) and not self.in_spec and not self.guards:
                        # proved from the named facts available on this path (earlier anchor assertions, loop invariants as assumed
                        # at their loop head) and the quantifier-free path facts only: a smaller, stable query
                        hyps = [st.named[l] for l in frm if l in st.named] + [f for f in st.pc if not _contains_quantifier(f)]
                        o = Oblig("%s::assert::%s@L%s" % (self.c.qual, label, getattr(s, "lineno", "?")), "assert",
                                  list(self.global_axioms.values()) + hyps, f_, getattr(s, "lineno", None))
                        o.inputs = self.inputs
                        self.obligs.append(o)
                    else:
                        self.oblige_spec(st, "assert", label, e, s)
                    st.assume(f_)  # proved at this point, usable afterwards
                    st.named[label] = f_

    def run_ghost(self, code, st):
        tree = ast.parse(code.strip() if "\n" not in code.strip() else _dedent(code))
        self.in_ghost = True
        self.in_spec += 1  # ghost code generates no obligations and cannot raise
        saved_rc = self.raise_conds
        self.raise_conds = None
        try:
            res = self.exec_block(tree.body, st)
        finally:
            self.in_ghost = False
            self.in_spec -= 1
            self.raise_conds = saved_rc
        nexts = [r for r in res if r[1] == "next"]
        if len(nexts) != 1 or len(res) != 1:
            raise Unsupported("ghost code must be straight-line: %r" % code)
        # exec_block mutates st in place for straight-line code
        s2 = nexts[0][0]
        st.env, st.pc, st.defd = s2.env, s2.pc, s2.defd

    def spec_bool(self, e, st):
        return SpecEnv(self, self.c, None).ev_bool(e, st)

    def oblige_spec(self, st, kind, label, e, node=None):
        g = self.spec_bool(e, st)
        o = self.oblige(st, kind, label, g, node)
        return o

    def _exec_stmt(self, s, st):
        m = getattr(self, "st_" + type(s).__name__, None)
        if m is None:
            raise Unsupported("statement %s at line %s" % (type(s).__name__, s.lineno))
        return m(s, st)

    def st_Pass(self, s, st):
        return [(st, "next", None)]

    def st_Delete(self, s, st):
        for t in s.targets:
            if isinstance(t, ast.Name):
                st.env.pop(t.id, None)
            elif isinstance(t, ast.Subscript):
                d = self.ev(t.value, st)
                if not (isinstance(d.ty, DictT) and not isinstance(d.ty, OrdDictT)):
                    raise Unsupported("del of an item of %s at line %s" % (d.ty, s.lineno))
                k = self.coerce(self.ev(t.slice, st), d.ty.k, st, s, "dict key")
                self.may_raise(st, "KeyError", z3.Not(z3.Select(d.ty.has(d.t), k.t)), "del of a missing key", s)
                self.check_alias(t.value, s)
                self.assign_target(t.value, Val(d.ty.mk(z3.Store(d.ty.has(d.t), k.t, False), d.ty.val(d.t)), d.ty), st, s)
            else:
                raise Unsupported("del of %s at line %s" % (type(t).__name__, s.lineno))
        return [(st, "next", None)]

    def st_Expr(self, s, st):
        v = s.value
        if isinstance(v, ast.Yield):
            # generator: the yielded values, in order, are the function's result list
            y = self.ev(v.value, st)
            cur = st.env.get("yielded")
            ty = cur.ty
            y = self.coerce(y, ty.elt, st, s, "yielded value")
            st.env["yielded"] = Val(ty.mk(z3.Store(ty.arr(cur.t), ty.len(cur.t), y.t), ty.len(cur.t) + 1), ty)
            return [(st, "next", None)]
        if isinstance(v, ast.Call):
            from . import lib
            try:
                self.ev(v, st)
            except lib.RaiseNow as r:
                return [(st, "raise", r.exc)]
            return [(st, "next", None)]
        self.ev(v, st)
        return [(st, "next", None)]

    def st_Assign(self, s, st):
        val = self.ev(s.value, st)
        for t in s.targets:
            self.note_alias(t, s.value)
            self.assign_target(t, val, st, s)
            if isinstance(t, (ast.Subscript, ast.Attribute)) and isinstance(s.value, ast.Name) and isinstance(val.ty, (ObjT, ListT, DictT, SetT)) \
                    and not getattr(self, "in_ghost", False):
                # the object bound to this name is now also reachable through the container: the model stored a copy, so a later
                # in-place mutation through the name would be lost
                self.escaped.add(s.value.id)
        return [(st, "next", None)]

    def st_AnnAssign(self, s, st):
        if s.value is None:
            return [(st, "next", None)]
        val = self.ev(s.value, st)
        self.assign_target(s.target, val, st, s)
        return [(st, "next", None)]

    def note_alias(self, tgt, valnode):
        if isinstance(tgt, ast.Name):
            self.alias_of.pop(tgt.id, None)
            self.escaped.discard(tgt.id)
            if isinstance(valnode, (ast.Subscript, ast.Attribute)) and not (isinstance(valnode, ast.Subscript) and isinstance(valnode.slice, ast.Slice)):
                # (a slice x[a:b] builds a new list / string: not an alias of the sub-object)
                self.alias_derived.add(tgt.id)
            else:
                self.alias_derived.discard(tgt.id)
                if isinstance(valnode, ast.Name) and valnode.id != tgt.id:
                    # x = y: both names denote the same object; an in-place mutation through one is applied to the other as well
                    self.alias_of[tgt.id] = valnode.id

    def st_AugAssign(self, s, st):
        from . import lib
        cur = self.ev(s.target, st)
        h = lib.AUGASSIGN.get((type(cur.ty).__name__, type(s.op).__name__))
        if h is not None:
            new = h(self, cur, s, st)
        else:
            bin_ = ast.BinOp(left=s.target, op=s.op, right=s.value)
            ast.copy_location(bin_, s)
            ast.fix_missing_locations(bin_)
            # the target is evaluated as an expression: reuse ev on a Load copy
            bin_.left = _as_load(s.target)
            new = self.ev(bin_, st)
        self.assign_target(s.target, new, st, s)
        return [(st, "next", None)]

    def st_Return(self, s, st):
        v = self.ev(s.value, st) if s.value is not None else NoneV
        return [(st, "return", v)]

    def st_Break(self, s, st):
        return [(st, "break", None)]

    def st_Continue(self, s, st):
        return [(st, "continue", None)]

    def st_Raise(self, s, st):
        name = "Exception"
        if s.exc is not None:
            e = s.exc
            if isinstance(e, ast.Call):
                e = e.func
            name = ast.unparse(e).split(".")[-1]
        return [(st, "raise", name)]

    def st_Assert(self, s, st):
        txt = ast.unparse(s.test)
        c = self.truthy(self.ev(s.test, st))
        if any(txt == l or txt.startswith(l) for l in self.c.lifted_asserts):
            # input-validity assert lifted into the precondition (listed in the evidence)
            self.lifted_found.add(txt)
            st.assume(c)
            return [(st, "next", None)]
        if txt == "False":
            self.oblige(st, "safety", "AssertionError:assert-False-reachable", z3.BoolVal(False), s)
            raise PathDead()
        self.may_raise(st, "AssertionError", z3.Not(c), txt[:50], s)
        st.assume(c)
        return [(st, "next", None)]

    def st_If(self, s, st):
        c = self.truthy(self.ev(s.test, st))
        out = []
        cs = z3.simplify(c)
        if not z3.is_false(cs):
            a = st.copy()
            a.assume(c)
            if self.feasible(a):
                out += self.exec_block(s.body, a)
        if not z3.is_true(cs):
            b = st.copy()
            b.assume(z3.Not(c))
            if self.feasible(b):
                out += self.exec_block(s.orelse, b) if s.orelse else [(b, "next", None)]
        return out

    def feasible(self, st):
        """cheap pruning of dead paths: only the quantifier-free facts are used (a subset being unsat is enough, and it is fast)"""
        if not getattr(self, "prune", True):
            return True
        s = z3.Solver()
        # these quantifier-free checks take milliseconds; giving up only keeps an infeasible path (sound), but which paths are kept decides the
        # #pN suffixes of obligation names, so the pruning must not depend on how busy the machine is
        # the budget is a RESOURCE limit (z3's deterministic step counter), not wall time: the same paths are pruned on a busy and on an idle machine
        s.set("rlimit", int(os.environ.get("PYVC_PRUNE_RLIMIT", "150000")))
        s.set("timeout", int(os.environ.get("PYVC_PRUNE_TIMEOUT_MS", "5000")))  # backstop only
        stack = list(st.pc)
        while stack:
            f = stack.pop()
            if z3.is_and(f):
                stack.extend(f.children())
            elif not _contains_quantifier(f):
                s.add(f)
        r = s.check()
        return r != z3.unsat

    def st_With(self, s, st):
        txt = ast.unparse(s.items[0].context_expr)
        if txt.startswith(("timers(", "step_timer(")):
            return self.exec_block(s.body, st)
        if txt.startswith("open(") and s.items[0].optional_vars is not None and isinstance(s.items[0].optional_vars, ast.Name):
            # an output file handle used only by pickle.dump / write calls inside the body
            st.env[s.items[0].optional_vars.id] = NoneV
            self.assumptions_used.add("`with open(path, mode) as f` opens a fresh output file (I/O errors not modelled)")
            return self.exec_block(s.body, st)
        raise Unsupported("with-statement %s at line %s" % (txt, s.lineno))

    def st_Try(self, s, st):
        names = set()
        for h in s.handlers:
            if h.type is None:
                names.add("BaseException")
            elif isinstance(h.type, ast.Tuple):
                for e in h.type.elts:
                    names.add(ast.unparse(e).split(".")[-1])
            else:
                names.add(ast.unparse(h.type).split(".")[-1])
        saved_catch, saved_rc = self.catch, self.raise_conds
        self.catch = self.catch | names
        if s.handlers:
            self.raise_conds = {}
        try:
            res = self.exec_block(s.body, st)
        finally:
            self.catch, self.raise_conds = saved_catch, saved_rc
        out = []
        for (s2, kind, payload) in res:
            if kind == "raise" and self._handler_for(s, payload) is not None:
                h = self._handler_for(s, payload)
                if h.name:
                    raise Unsupported("except ... as name at line %s" % h.lineno)
                out += self.exec_block(h.body, s2)
            elif kind == "next" and s.orelse:
                out += self.exec_block(s.orelse, s2)
            else:
                out.append((s2, kind, payload))
        if not s.finalbody:
            return out
        # finally: runs on every way out (normal, return, break/continue, exception), then that way out continues
        final = []
        for (s2, kind, payload) in out:
            for (s3, k3, p3) in self.exec_block(s.finalbody, s2):
                if k3 == "next":
                    final.append((s3, kind, payload))
                else:
                    final.append((s3, k3, p3))  # the finally block itself returned / raised
        return final

    @staticmethod
    def _handler_for(s, exc):
        for h in s.handlers:
            if h.type is None:
                return h
            names = [ast.unparse(e).split(".")[-1] for e in (h.type.elts if isinstance(h.type, ast.Tuple) else [h.type])]
            if exc in names or "Exception" in names or "BaseException" in names:
                return h
        return None

    # ---- loops -------------------------------------------------------------------------------------
    def loop_contract(self, s):
        self.loop_ord += 1
        k = self.loop_ids.get(id(s))
        lc = self.c.loops.get(k)
        head = ast.unparse(s).split("\n")[0]
        if lc is None:
            return k, None, head
        if lc.fingerprint and lc.fingerprint not in head:
            raise Unsupported("anchor-not-found: loop #%d of %s is `%s`, contract expects `%s`" % (k, self.c.func, head, lc.fingerprint))
        return k, lc, head

    def assigned_names(self, stmts):
        out = set()

        class V(ast.NodeVisitor):
            def visit_Name(self_, n):
                if isinstance(n.ctx, (ast.Store, ast.Del)):
                    out.add(n.id)

            def visit_Attribute(self_, n):
                if isinstance(n.ctx, ast.Store):
                    r = n
                    while isinstance(r, (ast.Attribute, ast.Subscript)):
                        r = r.value
                    if isinstance(r, ast.Name):
                        out.add(r.id)
                self_.generic_visit(n)

            visit_Subscript = visit_Attribute

            def visit_Yield(self_, n):
                out.add("yielded")
                self_.generic_visit(n)

            def visit_Call(self_, n):
                # mutating method calls: x.append(..), x[..].add(..), ...
                if isinstance(n.func, ast.Attribute) and n.func.attr in MUTATORS:
                    r = n.func.value
                    while isinstance(r, (ast.Attribute, ast.Subscript)):
                        r = r.value
                    if isinstance(r, ast.Name):
                        out.add(r.id)
                self_.generic_visit(n)

        for s in stmts:
            V().visit(s)
        return out

    def ghost_assigned(self, lc, body):
        out = set()
        codes = [c for c in (lc.ghost_body_start, lc.ghost_body_end) if c]
        for anchor, code in self.c.ghost_at.items():
            pat = anchor.split(":", 1)[1]
            for s in ast.walk(ast.Module(body=body, type_ignores=[])):
                if isinstance(s, ast.stmt):
                    try:
                        head = ast.unparse(s).split("\n")[0] if isinstance(s, (ast.If, ast.For, ast.While, ast.Try, ast.With)) else ast.unparse(s)
                    except Exception:
                        continue
                    if head.startswith(pat):
                        codes.append(code)
                        break
        for code in codes:
            out |= self.assigned_names(ast.parse(_dedent(code)).body)
        return out

    def method_mutated(self, body, st):
        """receivers of calls to contract methods that modify self, and arguments modified by contract functions"""
        out = set()
        for n in ast.walk(ast.Module(body=body, type_ignores=[])):
            if isinstance(n, ast.Call):
                exprs = []
                if isinstance(n.func, ast.Attribute):
                    con = self.reg.any_method(n.func.attr)
                    if con is not None and con.modifies and list(con.params)[0] in con.modifies:
                        exprs.append(n.func.value)
                    nm = n.func.attr
                else:
                    nm = n.func.id if isinstance(n.func, ast.Name) else None
                con2 = self.reg.any_function(nm) if nm else None
                if con2 is not None and con2.modifies:
                    names = list(con2.params)
                    for p, a in zip(names, n.args):
                        if p in con2.modifies:
                            exprs.append(a)
                for r in exprs:
                    while isinstance(r, (ast.Attribute, ast.Subscript)):
                        r = r.value
                    if isinstance(r, ast.Name):
                        out.add(r.id)
        return out

    def havoc(self, names, st, lc):
        for nm in sorted(names):
            if nm in st.env:
                v = st.env[nm]
                if isinstance(v.ty, EmptyListT):
                    decl = self.c.locals.get(nm) or self.c.ghost.get(nm)
                    if decl is None:
                        raise Unsupported("list %s is still untyped at a loop head; declare it in the contract's locals" % nm)
                    v = Val(decl.empty(), decl)
                if isinstance(v.ty, Ty):
                    st.env[nm] = Val(v.ty.fresh("h_" + nm), v.ty)
                    for f in type_invariant(st.env[nm].t, v.ty):
                        st.assume(f)
                if nm in st.defd and not z3.is_true(st.defd[nm]):
                    st.defd[nm] = z3.FreshConst(z3.BoolSort(), "def_" + nm)
            elif nm in self.c.locals:
                ty = self.c.locals[nm]
                st.env[nm] = Val(ty.fresh("h_" + nm), ty)
                for f in type_invariant(st.env[nm].t, ty):
                    st.assume(f)
                st.defd[nm] = z3.FreshConst(z3.BoolSort(), "def_" + nm)
            # else: first bound inside the body and not declared: unbound at every loop head (stricter than Python)

    def iter_source(self, s, st):
        """Returns (kind, data) describing the iteration sequence of a for loop."""
        from . import lib
        it = s.iter
        return lib.iteration(self, it, st, s)

    def st_For(self, s, st):
        from . import lib
        k, lc, head = self.loop_contract(s)
        if s.orelse:
            raise Unsupported("for/else at line %s" % s.lineno)
        src = lib.iteration(self, s.iter, st, s)  # IterSrc: length term, elem(i) -> Val
        if lc is None:
            n_unroll = self.c.unroll.get(k)
            clen = src.const_len()
            if clen is None and n_unroll is None:
                raise Unsupported("loop #%d `%s` of %s has no invariant in the contract" % (k, head, self.c.func))
            return self.unroll_for(s, st, src, clen if clen is not None else n_unroll)
        idx = lc.index or ("_it%d" % k)
        if lc.seq_name:
            st.env[lc.seq_name] = src.as_list_val(self)  # bound first, so that ghost_before / assume_before can mention the sequence
        if lc.ghost_before:
            self.run_ghost(lc.ghost_before, st)
        for ai_, a_ in enumerate(lc.assume_before):
            f_ = self.spec_bool(a_, st)
            st.assume(f_)
            st.named["loop%d:assume%d" % (k, ai_)] = f_
            self.assumptions_used.add("assume_before loop %d in %s: %s" % (k, self.c.func, a_[:160]))
        st.env[idx] = IntV(0)
        # 1. initialisation (declared locals first bound inside the loop exist, unbound, so that invariants can mention them)
        for nm in self.assigned_names(s.body) | self.assigned_names([ast.Assign(targets=[s.target], value=ast.Constant(value=0))]):
            if nm in self.c.locals and nm not in st.env:
                st.env[nm] = Val(self.c.locals[nm].fresh("unbound_" + nm), self.c.locals[nm])
                st.defd[nm] = z3.BoolVal(False)
        for name, e in lc.invariant.items():
            self.oblige_spec(st, "inv-init", "loop%d:%s" % (k, name), e, s)
        # 2. arbitrary iteration
        mod = self.assigned_names(s.body) | self.assigned_names([ast.Expr(value=ast.Name(id="_", ctx=ast.Load()))]) | {idx}
        mod |= self.assigned_names([ast.Assign(targets=[s.target], value=ast.Constant(value=0))])
        mod |= self.ghost_assigned(lc, s.body) | set(lc.modifies) | self.method_mutated(s.body, st)
        tgt_names = self.assigned_names([ast.Assign(targets=[s.target], value=ast.Constant(value=0))])
        h = st.copy()
        self.havoc(mod - tgt_names, h, lc)
        for t in tgt_names:
            if t not in self.c.locals:
                h.env.pop(t, None)
            else:
                self.havoc({t}, h, lc)
        n = src.length
        h.assume(z3.And(h.env[idx].t >= 0, h.env[idx].t <= n))
        for name, e in lc.invariant.items():
            f_ = self.spec_bool(e, h)
            h.assume(f_)
            h.named["loop%d:%s" % (k, name)] = f_
        for hi, e in enumerate(lc.hints):
            self.oblige_spec(h, "hint", "loop%d:hint%d" % (k, hi), e, s)  # a hint must follow from the invariant; then it may be used
            f_ = self.spec_bool(e, h)
            h.assume(f_)
            h.named["loop%d:hint%d" % (k, hi)] = f_
        out = []
        # 2a. one more iteration
        b = h.copy()
        b.assume(b.env[idx].t < n)
        self.reach.append(("loop%d-body" % k, list(b.pc)))
        elem = src.elem(self, b.env[idx].t, b)
        self.assign_target(s.target, elem, b, s)
        b.env[idx] = Val(b.env[idx].t + 1, INT)
        if lc.ghost_body_start:
            self.run_ghost(lc.ghost_body_start, b)
        res = self.exec_block(s.body, b)
        for (s2, kind, payload) in res:
            if kind in ("next", "continue"):
                if lc.ghost_body_end:
                    try:
                        self.run_ghost(lc.ghost_body_end, s2)
                    except PathDead:
                        continue
                self.n_paths += 1
                for name, e in lc.invariant.items():
                    if name in lc.pres_from and (all(l in s2.named for l in lc.pres_from[name] if not l.startswith("!")) or
                                                  ("!partial" in lc.pres_from[name] and any(l in s2.named for l in lc.pres_from[name]))):
                        # every named fact is available on this path - or the contract says ("!partial") that the ones available suffice
                        # the named facts available on THIS path (a path that does not pass an anchor has no fact of that name and does not need it)
                        g = self.spec_bool(e, s2)
                        hyps = [s2.named[l] for l in lc.pres_from[name] if l in s2.named]
                        labels_ = [l for l in lc.pres_from[name] if not l.startswith("!")]
                        if not ("!noqf" in lc.pres_from[name] and all(l in s2.named for l in labels_)):
                            # "!noqf": when every named fact is available on this path they suffice on their own
                            hyps += [f for f in s2.pc if not _contains_quantifier(f)]
                        o = Oblig("%s::inv-pres::loop%d:%s" % (self.c.qual, k, name), "inv-pres", list(self.global_axioms.values()) + hyps, g, s.lineno)
                        o.inputs = self.inputs
                        self.obligs.append(o)
                    else:
                        self.oblige_spec(s2, "inv-pres", "loop%d:%s" % (k, name), e, s)
            elif kind == "break":
                out.append((s2, "next", None))
            else:
                out.append((s2, kind, payload))
        # 2b. exit
        x = h.copy()
        x.assume(x.env[idx].t == n)
        for e in lc.exit_facts:
            x.assume(self.spec_bool(e, x))
        out.append((x, "next", None))
        return out

    def unroll_for(self, s, st, src, count):
        states = [st]
        out = []
        for i in range(count):
            nxt = []
            for cur in states:
                if src.const_len() is None:
                    # bounded unrolling requested by the contract: only sound with the length assumption recorded
                    raise Unsupported("bounded unrolling of a loop of unknown length is not allowed in proof mode")
                elem = src.elem(self, z3.IntVal(i), cur)
                self.assign_target(s.target, elem, cur, s)
                for (s2, kind, payload) in self.exec_block(s.body, cur):
                    if kind in ("next", "continue"):
                        nxt.append(s2)
                    elif kind == "break":
                        out.append((s2, "next", None))
                    else:
                        out.append((s2, kind, payload))
            states = nxt
        for cur in states:
            out.append((cur, "next", None))
        return out

    def st_While(self, s, st):
        k, lc, head = self.loop_contract(s)
        if s.orelse:
            raise Unsupported("while/else at line %s" % s.lineno)
        if lc is None:
            raise Unsupported("loop #%d `%s` of %s has no invariant in the contract" % (k, head, self.c.func))
        if lc.ghost_before:
            self.run_ghost(lc.ghost_before, st)
        for name, e in lc.invariant.items():
            self.oblige_spec(st, "inv-init", "loop%d:%s" % (k, name), e, s)
        mod = self.assigned_names(s.body) | self.ghost_assigned(lc, s.body) | set(lc.modifies) | self.method_mutated(s.body, st)
        h = st.copy()
        self.havoc(mod, h, lc)
        for name, e in lc.invariant.items():
            f_ = self.spec_bool(e, h)
            h.assume(f_)
            h.named["loop%d:%s" % (k, name)] = f_
        for ai_, a_ in enumerate(lc.assume_head):
            h.assume(self.spec_bool(a_, h))
            self.assumptions_used.add("theorem instance assumed at the head of loop %d in %s: %s" % (k, self.c.func, a_[:160]))
        for hi, e in enumerate(lc.hints):
            self.oblige_spec(h, "hint", "loop%d:hint%d" % (k, hi), e, s)
            h.assume(self.spec_bool(e, h))
        out = []
        c = self.truthy(self.ev(s.test, h))
        b = h.copy()
        b.assume(c)
        self.reach.append(("loop%d-body" % k, list(b.pc)))
        m0 = None
        if lc.decreases:
            # a single integer measure, or a list / tuple of them compared lexicographically (each component bounded below by 0)
            dec = lc.decreases if isinstance(lc.decreases, (list, tuple)) else [lc.decreases]
            m0 = [SpecEnv(self, self.c, None).ev_int(d_, b) for d_ in dec]
            self.oblige(b, "decreases", "loop%d:bounded-below" % k, z3.And(*[m_ >= 0 for m_ in m0]), s)
        if lc.ghost_body_start:
            self.run_ghost(lc.ghost_body_start, b)
        res = self.exec_block(s.body, b)
        for (s2, kind, payload) in res:
            if kind in ("next", "continue"):
                if lc.ghost_body_end:
                    try:
                        self.run_ghost(lc.ghost_body_end, s2)
                    except PathDead:
                        continue
                self.n_paths += 1
                for name, e in lc.invariant.items():
                    self.oblige_spec(s2, "inv-pres", "loop%d:%s" % (k, name), e, s)
                if m0 is not None:
                    m1 = [SpecEnv(self, self.c, None).ev_int(d_, s2) for d_ in dec]
                    lex = z3.BoolVal(False)
                    for i_ in reversed(range(len(m0))):
                        lex = z3.Or(m1[i_] < m0[i_], z3.And(m1[i_] == m0[i_], lex))
                    self.oblige(s2, "decreases", "loop%d:strict" % k, lex, s)
            elif kind == "break":
                out.append((s2, "next", None))
            else:
                out.append((s2, kind, payload))
        if not z3.is_true(z3.simplify(c)):
            x = h.copy()
            x.assume(z3.Not(c))
            for e in lc.exit_facts:
                x.assume(self.spec_bool(e, x))
            out.append((x, "next", None))
        return out

    # ---- driver ----------------------------------------------------------------------------------
    def number_loops(self, body):
        self.loop_ids = {}
        k = 0
        for n in _walk_preorder(body):
            if isinstance(n, (ast.For, ast.While)):
                k += 1
                self.loop_ids[id(n)] = k
        return k

    def fragment_body(self):
        body = self.fn.body
        if not self.c.fragment:
            return body
        start_pat, end_pat = self.c.fragment[0], self.c.fragment[1]
        skip = [self.c.fragment[2] if len(self.c.fragment) > 2 else 0]

        def find(stmts):
            heads = [ast.unparse(s).split("\n")[0] for s in stmts]
            for i, h in enumerate(heads):
                if h.startswith(start_pat):
                    if skip[0] > 0:
                        skip[0] -= 1
                        continue
                    if isinstance(end_pat, int):
                        return stmts[i:i + end_pat]
                    for j in range(i, len(heads)):
                        if heads[j].startswith(end_pat):
                            return stmts[i:j + 1]
                    raise Unsupported("anchor-not-found: fragment end `%s` in %s" % (end_pat, self.c.func))
            for s in stmts:
                for fld in ("body", "orelse", "finalbody"):
                    sub = getattr(s, fld, None)
                    if isinstance(sub, list) and sub and isinstance(sub[0], ast.stmt):
                        r = find(sub)
                        if r is not None:
                            return r
                if isinstance(s, ast.Try):
                    for h in s.handlers:
                        r = find(h.body)
                        if r is not None:
                            return r
            return None

        r = find(body)
        if r is None:
            raise Unsupported("anchor-not-found: fragment start `%s` in %s" % (start_pat, self.c.func))
        return r

    def initial_state(self):
        st = State()
        self.inputs = []
        for p, ty in self.c.params.items():
            v = Val(z3.Const("in_" + p, ty.sort()), ty)
            st.env[p] = v
            self.inputs.append((p, v))
            for f in type_invariant(v.t, ty):
                st.assume(f)
        for g, ty in self.c.ghost.items():
            v = Val(z3.Const("gh_" + g, ty.sort()), ty)
            st.env[g] = v
            self.inputs.append((g, v))
            for f in type_invariant(v.t, ty):
                st.assume(f)
        st.old = dict(st.env)
        return st

    def install_defs(self, st):
        """definitional extensions: f(args) == body for all args (conservative; body may mention the function's parameters only
        through the entry state, which is what the definitions are for: naming a deep term)"""
        for name, (argtys, retty, src) in self.c.defs.items():
            f = self.uf("def_" + name, argtys, retty)
            lam = ast.parse(src.strip(), mode="eval").body
            params = [a.arg for a in lam.args.args]
            vs = [Val(z3.FreshConst(t.sort(), "d_" + p), t) for p, t in zip(params, argtys)]
            s2 = st.copy()
            for p, v in zip(params, vs):
                s2.env[p] = v
            self.in_spec += 1
            try:
                body = self.ev(lam.body, s2)
            finally:
                self.in_spec -= 1
            body = self.coerce(body, retty, s2, None, "definition " + name)
            self.global_axioms["def:" + name] = z3.ForAll([v.t for v in vs], f(*[v.t for v in vs]) == body.t)
            self.c.ufuns[name] = (argtys, retty)
            self.ufs[name] = self.ufs["def_" + name]

    def run(self):
        c = self.c
        body = self.fragment_body()
        self.number_loops(body)
        self.assigned_somewhere = self.assigned_names(body)
        self.alias_derived = set()
        self.in_ghost = False
        st = self.initial_state()
        spec = SpecEnv(self, c, None)
        if "str_prefix" in c.ufuns:
            self.prefix_suffix_axiom()
        self.install_defs(st)
        for i_, r in enumerate(c.requires):
            f_ = spec.ev_bool(r, st)
            st.assume(f_)
            st.named["requires:%d" % i_] = f_  # usable as a named fact in `from:` / pres_from lists
        for a in c.axioms:
            st.assume(spec.ev_bool(a, st))
            self.assumptions_used.add("axiom in contract %s: %s" % (c.func, a))
        self.reach.append(("entry", list(st.pc)))
        # argument defaults are not modelled: every parameter is symbolic
        res = self.exec_block(body, st)
        n_ret = 0
        for (s2, kind, payload) in res:
            if kind == "next":
                kind, payload = "return", NoneV
            if kind == "return":
                n_ret += 1
                self.n_paths += 1
                rv = payload
                if not isinstance(c.returns, NoneT) or not isinstance(rv.ty, NoneT):
                    try:
                        rv = self.coerce(rv, c.returns, s2, None, "return value")
                    except Unsupported as e:
                        o = self.oblige(s2, "safety", "return-type[%s]" % e, z3.BoolVal(False), None)
                        continue
                self.return_states.append((s2, rv))
                # frame: a parameter object that the body mutates in place must be listed under `modifies` (the caller sees the mutation)
                for p, pty in c.params.items():
                    if p in self.mutated_names and p not in c.modifies and p in s2.env and s2.env[p].ty == pty and isinstance(pty, (ObjT, ListT, DictT, SetT)):
                        self.oblige(s2, "frame", "%s-not-mutated" % p, s2.env[p].t == s2.old[p].t)
                sp = SpecEnv(self, c, None, old=s2.old, result=rv)
                proved = {}
                for name, e in sorted(c.ensures.items(), key=lambda kv: isinstance(kv[1], dict)):
                    if isinstance(e, dict):
                        # derived postcondition: proved from the precondition and the named earlier postconditions only
                        g = sp.ev_bool(e["expr"], s2)
                        hyps = [SpecEnv(self, c, None).ev_bool(r, _old_state(s2)) for r in c.requires]
                        hyps += [proved[k] for k in e["from"]]
                        o = Oblig("%s::post::%s" % (c.qual, name), "post", hyps, g)
                        o.inputs = self.inputs
                        self.obligs.append(o)
                    else:
                        g = sp.ev_bool(e, s2)
                        self.oblige(s2, "post", name, g)
                    proved[name] = g
            elif kind == "raise":
                exc = payload
                if exc in c.exc_ensures:
                    sp = SpecEnv(self, c, None, old=s2.old)
                    for name, e in c.exc_ensures[exc].items():
                        self.oblige(s2, "post", "raises-%s:%s" % (exc, name), sp.ev_bool(e, s2))
                elif exc in c.raises:
                    cond = c.raises[exc]
                    if cond != "*":
                        self.oblige(s2, "post", "raises-%s-only-when" % exc, SpecEnv(self, c, None, old=s2.old).ev_bool("old_ok(%s)" % cond if False else cond, _old_state(s2)))
                else:
                    self.oblige(s2, "safety", "uncaught-%s" % exc, z3.BoolVal(False))
            elif kind in ("break", "continue"):
                if self.c.fragment:
                    # a fragment inside a loop body may end with continue/break: treated as fragment exit
                    self.return_states.append((s2, NoneV))
                    sp = SpecEnv(self, c, None, old=s2.old, result=NoneV)
                    for name, e in c.ensures.items():
                        self.oblige(s2, "post", name + "@" + kind, sp.ev_bool(e, s2))
                else:
                    raise Unsupported("%s outside loop" % kind)
        for a in list(c.ghost_at) + list(c.assert_at) + list(c.assume_at):
            if a not in self.anchor_hits:
                raise Unsupported("anchor-not-found: `%s` in %s" % (a, c.func))
        for l in c.lifted_asserts:
            if not any(t == l or t.startswith(l) for t in self.lifted_found):
                raise Unsupported("anchor-not-found: lifted assert `%s` in %s" % (l, c.func))
        for k in c.loops:
            if k not in self.loop_ids.values():
                raise Unsupported("anchor-not-found: loop #%s in %s" % (k, c.func))
        return self.obligs

    # ---- summaries (pure, loop-free functions): result as an if-then-else term -------------------------
    def summarize(self, argvals, tag):
        """Symbolically execute the function on the given argument values and return (result Val, definedness cond)."""
        c = self.c
        body = self.fragment_body()
        self.number_loops(body)
        self.assigned_somewhere = self.assigned_names(body)
        self.alias_derived = set()
        self.inputs = []
        st = State()
        for p in c.params:
            st.env[p] = argvals[p]
        st.old = dict(st.env)
        saved, self.obligs = self.obligs, []
        side_extra = []
        try:
            res = self.exec_block(body, st)
        finally:
            side = self.obligs
            self.obligs = saved
        paths = []
        for (s2, kind, payload) in res:
            if kind == "next":
                kind, payload = "return", NoneV
            if kind != "return":
                raise Unsupported("summary of %s: path ends in %s" % (c.func, kind))
            try:
                rv = self.coerce(payload, c.returns, s2, None, "return value")
            except Unsupported as e:
                saved2, self.obligs = self.obligs, side_extra
                self.oblige(s2, "safety", "return-type[%s]" % e, z3.BoolVal(False), None)
                self.obligs = saved2
                rv = Val(c.returns.fresh("illtyped_ret"), c.returns)
            paths.append((z3.And(*s2.pc) if s2.pc else z3.BoolVal(True), rv))
        t = paths[-1][1].t
        for pc, rv in reversed(paths[:-1]):
            t = z3.If(pc, rv.t, t)
        return Val(t, c.returns), side + side_extra


_QCACHE = {}


def _contains_quantifier(f):
    k = f.get_id()
    if k in _QCACHE:
        return _QCACHE[k]
    if z3.is_quantifier(f):
        r = True
    elif z3.is_app(f):
        r = any(_contains_quantifier(c) for c in f.children())
    else:
        r = False
    _QCACHE[k] = r
    return r


def _old_state(st):
    s = st.copy()
    s.env = dict(st.old)
    return s


def type_invariant(t, ty, depth=0):
    """facts that hold for every value of the type (list lengths are non-negative)"""
    out = []
    if depth > 3:
        return out
    if isinstance(ty, ListT):
        out.append(ty.len(t) >= 0)
    elif isinstance(ty, OrdDictT):
        out.append(ty.kl.len(ty.keys(t)) >= 0)
    elif isinstance(ty, ObjT):
        for f in ty.order:
            out += type_invariant(ty.get(t, f), ty.fields[f], depth + 1)
    elif isinstance(ty, TupleT):
        for i, et in enumerate(ty.elts):
            out += type_invariant(ty.get(t, i), et, depth + 1)
    elif isinstance(ty, OptT):
        for f in type_invariant(ty.val(t), ty.inner, depth + 1):
            out.append(z3.Implies(ty.is_some(t), f))
    return out


class PathDead(Exception):
    """the current path cannot continue (an unconditional failure was recorded as an obligation)"""


class EmptyListT(Ty):
    name = "EmptyList"

    def sort(self):
        raise Unsupported("untyped empty list used as a value; declare the variable in the contract's locals")


_MISSING = object()

MUTATORS = {"append", "add", "update", "pop", "remove", "sort", "reverse", "extend", "insert", "clear", "put", "discard",
            "popleft", "setdefault", "write"}


def _as_load(t):
    t2 = copy.deepcopy(t)
    for n in ast.walk(t2):
        if hasattr(n, "ctx"):
            n.ctx = ast.Load()
    return t2


def _dedent(code):
    import textwrap
    return textwrap.dedent(code).strip() + "\n"


def _walk_preorder(stmts):
    for s in stmts:
        yield s
        for fld in ("body", "orelse", "finalbody"):
            sub = getattr(s, fld, None)
            if isinstance(sub, list) and sub and isinstance(sub[0], ast.stmt):
                yield from _walk_preorder(sub)
        if isinstance(s, ast.Try):
            for h in s.handlers:
                yield from _walk_preorder(h.body)


# ------------------------------------------------------------------------------------------------
class SpecEnv:
    """Evaluates contract expressions (python syntax + forall/exists/implies/old/result) over a state."""

    def __init__(self, eng, con, bindings, old=None, result=None):
        self.eng, self.con, self.bindings, self.old, self.result = eng, con, bindings, old, result

    def _with(self, st):
        if self.bindings is None:
            s = st
            env_saved = None
        else:
            s = st.copy()
            s.env = dict(self.bindings)
        return s

    def ev(self, e, st):
        eng = self.eng
        node = ast.parse(e.strip(), mode="eval").body if isinstance(e, str) else e
        s = self._with(st)
        saved = (eng.c, eng.macros, getattr(eng, "_spec_ctx", None))
        if self.con is not eng.c:
            eng_macros = {k: ast.parse(v.strip(), mode="eval").body for k, v in self.con.spec_funcs.items()}
        else:
            eng_macros = eng.macros
        eng._spec_ctx = self
        eng.c_spec = self.con
        old_c = eng.c
        eng.macros = eng_macros
        eng.c = self.con
        eng.in_spec += 1
        try:
            extra = {}
            if self.result is not None:
                extra["result"] = self.result
            saved_env = {}
            for k, v in extra.items():
                saved_env[k] = s.env.get(k, _MISSING)
                s.env[k] = v
            try:
                return eng.ev(node, s)
            finally:
                for k, v in saved_env.items():
                    if v is _MISSING:
                        s.env.pop(k, None)
                    else:
                        s.env[k] = v
        finally:
            eng.in_spec -= 1
            eng.c = old_c
            eng.macros = saved[1]
            eng._spec_ctx = saved[2]

    def ev_bool(self, e, st):
        v = self.ev(e, st)
        return self.eng.truthy(v)

    def ev_int(self, e, st):
        v = self.ev(e, st)
        if not isinstance(v.ty, IntT):
            raise Unsupported("spec expression %s is not an int" % e)
        return v.t
