"""
The code has been taken from WhatsHap.
Link to WhatsHap: https://github.com/whatshap/whatshap
"""

from argparse import ArgumentParser, RawDescriptionHelpFormatter
import sys


class HelpfulArgumentParser(ArgumentParser):
    """An ArgumentParser that prints full help on errors."""

    def __init__(self, *args, **kwargs):
        if "formatter_class" not in kwargs:
            kwargs["formatter_class"] = RawDescriptionHelpFormatter
        super().__init__(*args, **kwargs)

    def error(self, message):
        self.print_help(sys.stderr)
        args = {"prog": self.prog, "message": message}
        self.exit(2, "%(prog)s: error: %(message)s\n" % args)
