# The code has been taken from WhatsHap.
# Link to WhatsHap: https://github.com/whatshap/whatshap


import sys
import pkgutil
import importlib
import logging

import gaftools.cli as cli_package
from . import __version__
from .args import HelpfulArgumentParser
from .cli import CommandLineError


logger = logging.getLogger(__name__)


class NiceFormatter(logging.Formatter):
    """
    Do not prefix "INFO:" to info-level log messages (but do it for all other
    levels).

    Based on http://stackoverflow.com/a/9218261/715090 .
    """

    def format(self, record):
        if record.levelno != logging.INFO:
            record.msg = "{}: {}".format(record.levelname, record.msg)
        return super().format(record)


def setup_logging(debug):
    """
    Set up logging. If debug is True, then DEBUG level messages are printed.
    """
    handler = logging.StreamHandler()
    handler.setFormatter(NiceFormatter())
    root = logging.getLogger()
    root.addHandler(handler)
    root.setLevel(logging.DEBUG if debug else logging.INFO)


# Ensure all the versions here
def ensure_version():
    from pysam import __version__ as pysam_version
    from distutils.version import LooseVersion

    if LooseVersion(pysam_version) < LooseVersion("0.18.0"):
        sys.exit("gaftools requires pysam >= 0.18.0")


def main(argv=sys.argv[1:]):
    ensure_version()
    parser = HelpfulArgumentParser(description=__doc__, prog="gaftools")
    parser.add_argument("--version", action="version", version="%(prog)s " + __version__)
    parser.add_argument("--debug", action="store_true", default=False, help="Print debug messages")
    subparsers = parser.add_subparsers()

    # Import each module that implements a subcommand and add a subparser for it.
    # Each subcommand is implemented as a module in the cli subpackage.
    # It needs to implement an add_arguments() and a main() function.
    modules = pkgutil.iter_modules(cli_package.__path__)
    for _, module_name, _ in modules:
        module = importlib.import_module("." + module_name, cli_package.__name__)
        subparser = subparsers.add_parser(
            module_name,
            help=module.__doc__.strip().split("\n", maxsplit=1)[0],
            description=module.__doc__,
        )
        subparser.set_defaults(module=module, subparser=subparser)
        module.add_arguments(subparser)

    args = parser.parse_args(argv)
    setup_logging(args.debug)

    if not hasattr(args, "module"):
        parser.error("Please provide the name of a subcommand to run")
    else:
        module = args.module
        if hasattr(args.module, "validate"):
            subparser = args.subparser
            args.module.validate(args, subparser)
        del args.subparser
        del args.module
        del args.debug
        try:
            module.main(args)
        except CommandLineError as e:
            logger.error(str(e), exc_info=True)
            logger.debug("Command line error. Traceback:", exc_info=True)
            sys.exit(1)


if __name__ == "__main__":
    main()
