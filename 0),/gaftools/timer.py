"""
The code has been taken from WhatsHap.
Link to WhatsHap: https://github.com/whatshap/whatshap
"""

import time
from collections import defaultdict
from contextlib import contextmanager


class StageTimer:
    """Measure run times of multiple non-overlapping stages of a program"""

    def __init__(self):
        self._start = dict()
        self._elapsed = defaultdict(float)
        self._overall_start_time = time.time()

    def start(self, stage):
        """Start measuring elapsed time for a stage"""
        self._start[stage] = time.perf_counter()

    def stop(self, stage):
        """Stop measuring elapsed time for a stage."""
        t = time.perf_counter() - self._start[stage]
        assert t > 0
        self._elapsed[stage] += t
        del self._start[stage]
        return t

    def elapsed(self, stage):
        """
        Return total time spent in a stage, which is the sum of the time spans
        between calls to start() and stop(). If the timer is currently running,
        its current invocation is not counted.
        """
        return self._elapsed[stage]

    def sum(self):
        """Return sum of all times"""
        return sum(self._elapsed.values())

    def total(self):
        return time.time() - self._overall_start_time

    @contextmanager
    def __call__(self, stage):
        self.start(stage)
        yield
        self.stop(stage)

    def iterate(self, stage, iterator):
        """Measure iterator runtime"""

        self.start(stage)
        for item in iterator:
            self.stop(stage)
            yield item
            self.start(stage)
        self.stop(stage)
