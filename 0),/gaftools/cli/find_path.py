"""
Find the genomic sequence of a given GFA path.
"""

import logging
from gaftools.cli import log_memory_usage
from gaftools.timer import StageTimer
from gaftools.gfa import GFA
import sys

logger = logging.getLogger(__name__)


def run(gfa_path, input_path, output=None, fasta=False):
    timers = StageTimer()

    graph = GFA(gfa_path)
    if input_path[0] in [">", "<"]:
        # detected node path
        nodes = [input_path]
        path_seqs = [graph.extract_path(input_path)]
    else:
        # detected file
        reader = open(input_path, "r")
        nodes = []
        path_seqs = []
        for line in reader:
            nodes.append(line.strip())
            path_seqs.append(graph.extract_path(nodes[-1]))
        reader.close()

    if output is None:
        writer = sys.stdout
    else:
        writer = open(output, "w")
    if fasta:
        for node, path_seq in zip(nodes, path_seqs):
            print(f">seq_{node}", file=writer)
            print(path_seq, file=writer)
    else:
        for node, path_seq in zip(nodes, path_seqs):
            print(path_seq, file=writer)

    if output is not None:
        writer.close()

    logger.info("\n== SUMMARY ==")
    total_time = timers.total()
    log_memory_usage()
    logger.info("Total time:                                  %9.2f s", total_time)


def add_arguments(parser):
    arg = parser.add_argument
    # Positional arguments
    arg("gfa_path", metavar="GFA", help="Input GFA file (can be bgzip-compressed)")
    arg(
        "input_path",
        metavar="path",
        help='GFA node path to retrieve the sequence (e.g., ">s82312<s82313") OR a filepath containing node paths in different lines',
    )
    arg("-o", "--output", default=None, help="Output file. If omitted, use standard output.")
    arg(
        "-f",
        "--fasta",
        action="store_true",
        help="Flag to output the sequence as a FASTA file with the seqeunce named seq_<node path>",
    )


def validate(args, parser):
    return True


def main(args):
    run(**vars(args))
