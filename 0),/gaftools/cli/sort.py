"""
Sort the GAF alignments using BO and NO tags of the corresponding graph.

The script uses the BO and NO tags defined by the order_gfa command. Using the bubble ordering done, the alignments are sorted.

The index is dictionary created using pickle library which contains the reference contig names as keys and the offset the alignments begin and end.

It adds some tags into the sorted GAF file. The tags are:
    1. bo:i: - This is the BO tags from the GFA carried forward. The sorting uses a BO tag for each alignment, the BO tag for the start node (or end node based on overall orientation) of the alignment path.
    2. sn:Z: - The name of the reference contig it mapped to.
    3. iv:i: - 1 if the alignment path has an inversion. 0 otherwise.
"""

import sys
import logging
import functools
import re
import resource
import pickle as pkl
from pysam import libcbgzf
from collections import defaultdict, namedtuple

import gaftools.utils as utils
from gaftools.timer import StageTimer
from gaftools.gfa import GFA

logger = logging.getLogger(__name__)
timers = StageTimer()


def run_sort(gfa, gaf, outgaf=None, outind=None, bgzip=False):
    if outgaf is None:
        writer = sys.stdout
        index_file = None
    else:
        if bgzip:
            writer = libcbgzf.BGZFile(outgaf, "wb")
        else:
            writer = open(outgaf, "w")
        if outind:
            index_file = outind
        else:
            index_file = outgaf + ".gsi"
    index_dict = defaultdict(lambda: [None, None])
    with timers("read_gfa"):
        gfa_file = GFA(graph_file=gfa, low_memory=True)
    with timers("total_sort"):
        sort(gaf, gfa_file.nodes, writer, index_dict, index_file)
    writer.close()

    memory_kb = resource.getrusage(resource.RUSAGE_SELF).ru_maxrss
    logger.info("\nMemory Information")
    logger.info("  Maximum memory usage:              %.3f GB", memory_kb / 1e6)
    logger.info("\nTime Summary:")
    logger.info("  Time to parse GFA file:            %.3f seconds" % (timers.elapsed("read_gfa")))
    logger.info(
        "  Total time to sort GAF file:       %.3f seconds" % (timers.elapsed("total_sort"))
    )
    logger.info("    Time to parse GAF file:          %.3f seconds" % (timers.elapsed("read_gaf")))
    logger.info("    Time to sort GAF file:           %.3f seconds" % (timers.elapsed("sort_gaf")))
    logger.info("    Time to write GAF file:          %.3f seconds" % (timers.elapsed("write_gaf")))


def sort(gaf, nodes, writer, index_dict, index_file):
    logger.info("Parsing GAF file and sorting it")
    if utils.is_file_gzipped(gaf):
        reader = libcbgzf.BGZFile(gaf, "rb")
    else:
        reader = open(gaf, "r")

    Alignment = namedtuple("Alignment", ["offset", "BO", "NO", "start", "inv", "sn"])
    gaf_alignments = []
    count_inverse = 0
    # First pass: Store all the alignment lines as minimally. Just storing line offset and alignment string.
    with timers("read_gaf"):
        while True:
            offset = reader.tell()
            line = reader.readline()
            if not line:
                break
            try:
                line = line.rstrip().split("\t")
            except TypeError:
                line = line.decode("utf8").rstrip().split("\t")
            bo, no, start, inv, sn = process_alignment(line, nodes, offset)
            if inv == 1:
                count_inverse += 1
            gaf_alignments.append(
                Alignment(offset=offset, BO=bo, NO=no, start=start, inv=inv, sn=sn)
            )

    logger.info("\tNumber of alignments with inversions: %d" % (count_inverse))
    # Sorting the alignments based on BO and NO tag
    with timers("sort_gaf"):
        logger.info("\tSorting the alignments...")
        gaf_alignments.sort(key=functools.cmp_to_key(compare_gaf))

    # Writing the sorted file
    with timers("write_gaf"):
        logger.debug("Writing Output File...")
        for alignment in gaf_alignments:
            off = alignment.offset
            reader.seek(off)
            line = reader.readline()
            if isinstance(line, bytes):
                line = line.decode("utf-8").rstrip()
            elif isinstance(line, str):
                line = line.rstrip()
            else:
                raise RuntimeError("GAF alignments not in string or byte format.")
            line += "\tbo:i:%d\tsn:Z:%s\tiv:i:%d\n" % (alignment.BO, alignment.sn, alignment.inv)
            if index_file is not None:
                out_off = writer.tell()
                if index_dict[alignment.sn][0] is None:
                    index_dict[alignment.sn][0] = out_off
                    index_dict[alignment.sn][1] = out_off
                else:
                    index_dict[alignment.sn][1] = out_off
            write_to_file(line, writer)
    if index_file is not None:
        index_dict.pop("unknown", None)
        index_dict = dict(index_dict)
        with open(index_file, "wb") as ind:
            pkl.dump(index_dict, ind)
    reader.close()


def process_alignment(line, nodes, offset):
    path = list(filter(None, re.split("(>)|(<)", line[5])))
    orient = None
    # If there is no scaffold node present in the alignment, then assuming that it is in the correct orientation.
    # TODO: Need to find a way to deal with such alignments.
    bo = None
    no = None
    start = None
    orient_list = []
    inv = 0  # Whether the alignment has an inversion
    sn = None
    for n in path:
        if n in [">", "<"]:
            orient = n
            continue

        sn_tag = nodes[n].tags["SN"][1]
        bo_tag = int(nodes[n].tags["BO"][1])
        no_tag = int(nodes[n].tags["NO"][1])
        sr_tag = int(nodes[n].tags["SR"][1])

        # Finding the chromosome where the alignment is
        if sn is None and sr_tag == 0:
            sn = sn_tag
        elif sr_tag == 0:
            assert sn == sn_tag

        if bo_tag == -1 or no_tag == -1:
            logger.debug("[ERR]\tOF:i:%d\tND:Z:%s" % (offset, n))
            continue
        # Skipping the non-scaffold nodes
        if no_tag != 0:
            continue
        # Only keeping the orientation of the scaffold nodes in the path matching
        orient_list.append(orient)
    # If there are scaffold nodes in both direction, this indicates an inversion
    if orient_list.count(">") != 0 and orient_list.count("<") != 0:
        inv = 1
    # TODO: What to do when the start node that we have is an untagged node?
    # One argument is to just sort them to the end and completely ignore them since they dont belong to any vcf bubble.
    # That works for my tools but not ideal for general purpose.
    if orient_list.count(">") < orient_list.count("<"):
        l = int(line[6])
        e = int(line[8])
        start = l - e
        n = path[-1]
        bo = int(nodes[n].tags["BO"][1])
        no = int(nodes[n].tags["NO"][1])
    else:
        start = int(line[7])
        n = path[1]
        bo = int(nodes[n].tags["BO"][1])
        no = int(nodes[n].tags["NO"][1])
    if sn is None:
        sn = "unknown"
    return bo, no, start, inv, sn


def compare_gaf(al1, al2):
    # Since we are sorting in ascending order, al1 is above al2 if it comes before al2.
    # Have to consider the case when the start node is untagged and has BO and NO has -1. These should be sorted to the end and not the start
    if al1.BO == -1 and al2.BO != -1:
        return 1
    if al2.BO == -1 and al1.BO != -1:
        return -1

    # Comparing BO tags
    if al1.BO < al2.BO:
        return -1
    if al1.BO > al2.BO:
        return 1

    # Comparing NO tags
    if al1.NO < al2.NO:
        return -1
    if al1.NO > al2.NO:
        return 1

    # Comparing start position in node
    if al1.start < al2.start:
        return -1
    if al1.start > al2.start:
        return 1

    # This will be execulted only when two reads start at the exact same position at the same node. Then we use offset values. So the read which comes first in the GAF file will come higher up.
    if al1.offset < al2.offset:
        return -1
    if al1.offset > al2.offset:
        return 1
    return 0


def write_to_file(line, writer):
    try:
        writer.write(line)
    except TypeError:
        writer.write(str.encode(line))


# fmt: off
def add_arguments(parser):
    arg = parser.add_argument
    # Positional arguments
    arg("gaf", metavar='GAF',
        help="Input GAF File (can be bgzip-compressed)")
    arg("gfa", metavar='GFA',
        help="GFA file with the sort keys (BO and NO tagged). This is done with gaftools order_gfa")
    arg("--outgaf", default=None,
        help="Output GAF File path (Default: sys.stdout)")
    arg("--outind", default=None,
        help="Output Index File path for the GAF file. "
        "When --outgaf is not given, no index is created. "
        "If it is given and --outind is not specified, it will have same file name with .gsi extension)")
    arg("--bgzip", action='store_true',
        help="Flag to bgzip the output. Can only be given with --outgaf.")


# fmt: on
def validate(args, parser):
    if args.bgzip and not args.outgaf:
        parser.error(
            "--bgzip flag has been specified but not output path has been defined. Please define the output path."
        )
    if args.outind and not args.outgaf:
        parser.error("index path specified but no output gaf path. Please provide an output path.")


def main(args):
    run_sort(**vars(args))
