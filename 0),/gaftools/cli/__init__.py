"""
The code has been taken from WhatsHap.
Link to WhatsHap: https://github.com/whatshap/whatshap
"""

import sys
import resource
import logging

logger = logging.getLogger(__name__)


class CommandLineError(Exception):
    """An anticipated command-line error occurred. This ends up as a user-visible error message"""


def log_memory_usage(include_children=False):
    if sys.platform == "linux":
        if include_children:
            memory_kb = (
                resource.getrusage(resource.RUSAGE_SELF).ru_maxrss
                + resource.getrusage(resource.RUSAGE_CHILDREN).ru_maxrss
            )
        else:
            memory_kb = resource.getrusage(resource.RUSAGE_SELF).ru_maxrss
        logger.info("Maximum memory usage: %.3f GB", memory_kb / 1e6)
