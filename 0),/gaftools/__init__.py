__all__ = ["__version__"]

from ._version import version as __version__
