"""Contracts for gaftools/cli/index.py (C03)."""
from pyvc.api import *
from .types import *
from . import io_c

INDEX = "gaftools/cli/index.py"
Key = TupleT(STR, STR, INT, INT)
J2 = TupleT(INT, INT)
KM = TupleT(Key, INT)

MACROS = {
    # the nodes record j traverses, as the code computes them: convert_coord for stable GAFs, the names of the path column otherwise
    "tr": "lambda j: ite(stable, convert_coord(fields_of(rstrip(gaf_file.lines[j])), reference), split_names(fields_of(rstrip(gaf_file.lines[j]))[5])[1:])",
    "keyof": "lambda a: (nodes[a].id, nodes[a].tags['SN'][1], int(nodes[a].tags['SO'][1]), int(nodes[a].tags['SO'][1]) + int(nodes[a].tags['LN'][1]))",
}

A_INV = ("forall(lambda j, p: implies(0 <= j < {jmax} and 0 <= p < NT(j) and (j < {jfull} or p < {pmax}), K(j, p) in out_dict and "
         "0 <= wpos[(j, p)] < len(out_dict[K(j, p)]) and out_dict[K(j, p)][wpos[(j, p)]] == gaf_file.offs[j]))")
B_INV = ("forall([KEY, INT], lambda key, m: implies(key in out_dict and 0 <= m < len(out_dict[key]), "
         "0 <= src_j[(key, m)] < {jmax} and 0 <= src_p[(key, m)] < NT(src_j[(key, m)]) and "
         "(src_j[(key, m)] < {jfull} or src_p[(key, m)] < {pmax}) and key == K(src_j[(key, m)], src_p[(key, m)]) and "
         "out_dict[key][m] == gaf_file.offs[src_j[(key, m)]]))")
NONEMPTY = "forall(KEY, lambda key: implies(key in out_dict, len(out_dict[key]) >= 1))"


def register(reg):
    reg.add(Contract(
        file=INDEX, func="convert_coord", params=dict(line=LINE, ref=DictT(STR, ListT(GNode))), returns=LINE, pure=True, trusted=True,
        notes="caller view: a deterministic function of (fields, per-contig segment lists); the overlap filter inside is verified as convert_coord#filter, "
              "the window search as utils.search_intervals; the loop structure is covered by the bounded stand-in",
    ))
    reg.add(Contract(
        file=INDEX, func="run", variant="#index-loop", fragment=("out_dict = {}", 3),
        params=dict(gaf_file=io_c.Reader, stable=BOOL, reference=DictT(STR, ListT(GNode)), nodes=DictT(STR, GNode)),
        types=dict(KEY=Key, INT=INT, STR=STR),
        ufuns={"fields_of": ([STR], LINE), "rstrip": ([STR], STR), "split_names": ([STR], LINE)},
        ghost=dict(wpos=MapT(J2, INT), src_j=MapT(KM, INT), src_p=MapT(KM, INT)),
        locals=dict(out_dict=DictT(Key, ListT(INT)), alignment=LINE),
        spec_funcs=MACROS,
        defs={"K": ([INT, INT], Key, "lambda j, p: keyof(tr(j)[p])"), "NT": ([INT], INT, "lambda j: len(tr(j))")},
        requires=io_c.reader_wf("gaf_file") + [
            "gaf_file.pos == 0",
            "forall(lambda j: implies(0 <= j < len(gaf_file.lines), len(fields_of(rstrip(gaf_file.lines[j]))) >= 6))",
            # every node named by a record is a node of the graph with SN/SO/LN tags (valid rGFA, GAF over it)
            "forall(lambda j, p: implies(0 <= j < len(gaf_file.lines) and 0 <= p < len(tr(j)), tr(j)[p] in nodes and 'SN' in nodes[tr(j)[p]].tags "
            "and 'SO' in nodes[tr(j)[p]].tags and 'LN' in nodes[tr(j)[p]].tags))",
        ],
        loops={
            1: Loop(fingerprint="while True", decreases="len(gaf_file.lines) - gaf_file.pos", invariant={
                "reader-frame": "same(gaf_file.lines, old(gaf_file).lines) and gaf_file.offs == old(gaf_file).offs and gaf_file.idx == old(gaf_file).idx "
                                "and 0 <= gaf_file.pos <= len(gaf_file.lines)",
                "every-traversed-node-lists-the-offset": A_INV.format(jmax="gaf_file.pos", jfull="gaf_file.pos", pmax="0"),
                "every-listed-offset-is-a-traversing-record": B_INV.format(jmax="gaf_file.pos", jfull="gaf_file.pos", pmax="0"),
                "no-empty-entry": NONEMPTY,
            }),
            2: Loop(index="it2", fingerprint="for a in alignment", invariant={
                "reader-frame": "same(gaf_file.lines, old(gaf_file).lines) and gaf_file.offs == old(gaf_file).offs and gaf_file.idx == old(gaf_file).idx "
                                "and 1 <= gaf_file.pos <= len(gaf_file.lines)",
                "every-traversed-node-lists-the-offset": A_INV.format(jmax="gaf_file.pos", jfull="gaf_file.pos - 1", pmax="it2"),
                "every-listed-offset-is-a-traversing-record": B_INV.format(jmax="gaf_file.pos", jfull="gaf_file.pos - 1", pmax="it2"),
                "no-empty-entry": NONEMPTY,
                "alignment": "same(alignment, tr(gaf_file.pos - 1)) and len(alignment) == NT(gaf_file.pos - 1) and offset == gaf_file.offs[gaf_file.pos - 1]",
            }),
        },
        ghost_at={
            "after:out_dict[": "wpos[(gaf_file.pos - 1, it2 - 1)] = len(out_dict[K(gaf_file.pos - 1, it2 - 1)]) - 1\n"
                               "src_j[(K(gaf_file.pos - 1, it2 - 1), len(out_dict[K(gaf_file.pos - 1, it2 - 1)]) - 1)] = gaf_file.pos - 1\n"
                               "src_p[(K(gaf_file.pos - 1, it2 - 1), len(out_dict[K(gaf_file.pos - 1, it2 - 1)]) - 1)] = it2 - 1",
        },
        assert_at={"before:try:": {"record-just-read": "gaf_file.pos >= 1 and mapping == gaf_file.lines[gaf_file.pos - 1]"},
                   "before:out_dict[": {"node-known": "a in nodes and 'SN' in nodes[a].tags and 'SO' in nodes[a].tags and 'LN' in nodes[a].tags",
                                   "a-is-the-traversed-node": "a == tr(gaf_file.pos - 1)[it2 - 1]",
                                   "key-is-K": "keyof(a) == K(gaf_file.pos - 1, it2 - 1)"},
                   "before:for a in alignment": {"alignment-is-tr": "same(alignment, tr(gaf_file.pos - 1))", "alignment-len": "len(alignment) == NT(gaf_file.pos - 1)", "offset-before-read": "offset == gaf_file.offs[gaf_file.pos - 1]"}},
        ensures={
            "all-records-read": "gaf_file.pos == len(gaf_file.lines)",
            "entry-lists-offset-if-record-traverses-node": A_INV.format(jmax="len(gaf_file.lines)", jfull="len(gaf_file.lines)", pmax="0"),
            "entry-lists-only-offsets-of-traversing-records": B_INV.format(jmax="len(gaf_file.lines)", jfull="len(gaf_file.lines)", pmax="0"),
            "keyed-by-id-contig-interval": "forall(KEY, lambda key: implies(key in out_dict, len(out_dict[key]) >= 1 and "
                                           "key == keyof(tr(src_j[(key, 0)])[src_p[(key, 0)]])))",
        },
    ))
