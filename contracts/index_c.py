"""Contracts for gaftools/cli/index.py (C03)."""
from pyvc.api import *
from .types import *
from . import io_c

INDEX = "gaftools/cli/index.py"
Key = TupleT(STR, STR, INT, INT)
J2 = TupleT(INT, INT)
KM = TupleT(Key, INT)

MACROS = {
    # the nodes record j traverses, as the code computes them: convert_coord for stable GAFs, the names of the path column otherwise
    "tr": "lambda j: ite(stable, convert_coord(fields_of(rstrip(gaf_file.lines[j])), reference), split_names(fields_of(rstrip(gaf_file.lines[j]))[5])[1:])",
    "keyof": "lambda a: (nodes[a].id, nodes[a].tags['SN'][1], int(nodes[a].tags['SO'][1]), int(nodes[a].tags['SO'][1]) + int(nodes[a].tags['LN'][1]))",
}

A_INV = ("forall(lambda j, p: implies(0 <= j < {jmax} and 0 <= p < NT(j) and (j < {jfull} or p < {pmax}), K(j, p) in out_dict and "
         "0 <= wpos[(j, p)] < len(out_dict[K(j, p)]) and out_dict[K(j, p)][wpos[(j, p)]] == gaf_file.offs[j]))")
B_INV = ("forall([KEY, INT], lambda key, m: implies(key in out_dict and 0 <= m < len(out_dict[key]), "
         "0 <= src_j[(key, m)] < {jmax} and 0 <= src_p[(key, m)] < NT(src_j[(key, m)]) and "
         "(src_j[(key, m)] < {jfull} or src_p[(key, m)] < {pmax}) and key == K(src_j[(key, m)], src_p[(key, m)]) and "
         "out_dict[key][m] == gaf_file.offs[src_j[(key, m)]]))")
NONEMPTY = "forall(KEY, lambda key: implies(key in out_dict, len(out_dict[key]) >= 1))"


def register(reg):
    reg.add(Contract(
        file=INDEX, func="convert_coord", params=dict(line=LINE, ref=DictT(STR, ListT(GNode))), returns=LINE, pure=True, trusted=True,
        notes="caller view: a deterministic function of (fields, per-contig segment lists); the overlap filter inside is verified as convert_coord#filter, "
              "the window search as utils.search_intervals; the loop structure is covered by the bounded stand-in",
    ))
    reg.add(Contract(
        file=INDEX, func="run", variant="#index-loop", fragment=("out_dict = {}", 3),
        params=dict(gaf_file=io_c.Reader, stable=BOOL, reference=DictT(STR, ListT(GNode)), nodes=DictT(STR, GNode)),
        types=dict(KEY=Key, INT=INT, STR=STR),
        ufuns={"fields_of": ([STR], LINE), "rstrip": ([STR], STR), "split_names": ([STR], LINE)},
        ghost=dict(wpos=MapT(J2, INT), src_j=MapT(KM, INT), src_p=MapT(KM, INT)),
        locals=dict(out_dict=DictT(Key, ListT(INT)), alignment=LINE),
        spec_funcs=MACROS,
        defs={"K": ([INT, INT], Key, "lambda j, p: keyof(tr(j)[p])"), "NT": ([INT], INT, "lambda j: len(tr(j))")},
        requires=io_c.reader_wf("gaf_file") + [
            "gaf_file.pos == 0",
            "forall(lambda j: implies(0 <= j < len(gaf_file.lines), len(fields_of(rstrip(gaf_file.lines[j]))) >= 6))",
            # every node named by a record is a node of the graph with SN/SO/LN tags (valid rGFA, GAF over it)
            "forall(lambda j, p: implies(0 <= j < len(gaf_file.lines) and 0 <= p < len(tr(j)), tr(j)[p] in nodes and 'SN' in nodes[tr(j)[p]].tags "
            "and 'SO' in nodes[tr(j)[p]].tags and 'LN' in nodes[tr(j)[p]].tags))",
        ],
        loops={
            1: Loop(fingerprint="while True", decreases="len(gaf_file.lines) - gaf_file.pos", invariant={
                "reader-frame": "same(gaf_file.lines, old(gaf_file).lines) and gaf_file.offs == old(gaf_file).offs and gaf_file.idx == old(gaf_file).idx "
                                "and 0 <= gaf_file.pos <= len(gaf_file.lines)",
                "every-traversed-node-lists-the-offset": A_INV.format(jmax="gaf_file.pos", jfull="gaf_file.pos", pmax="0"),
                "every-listed-offset-is-a-traversing-record": B_INV.format(jmax="gaf_file.pos", jfull="gaf_file.pos", pmax="0"),
                "no-empty-entry": NONEMPTY,
            }),
            2: Loop(index="it2", fingerprint="for a in alignment", invariant={
                "reader-frame": "same(gaf_file.lines, old(gaf_file).lines) and gaf_file.offs == old(gaf_file).offs and gaf_file.idx == old(gaf_file).idx "
                                "and 1 <= gaf_file.pos <= len(gaf_file.lines)",
                "every-traversed-node-lists-the-offset": A_INV.format(jmax="gaf_file.pos", jfull="gaf_file.pos - 1", pmax="it2"),
                "every-listed-offset-is-a-traversing-record": B_INV.format(jmax="gaf_file.pos", jfull="gaf_file.pos - 1", pmax="it2"),
                "no-empty-entry": NONEMPTY,
                "alignment": "same(alignment, tr(gaf_file.pos - 1)) and len(alignment) == NT(gaf_file.pos - 1) and offset == gaf_file.offs[gaf_file.pos - 1]",
            }),
        },
        ghost_at={
            "after:out_dict[": "wpos[(gaf_file.pos - 1, it2 - 1)] = len(out_dict[K(gaf_file.pos - 1, it2 - 1)]) - 1\n"
                               "src_j[(K(gaf_file.pos - 1, it2 - 1), len(out_dict[K(gaf_file.pos - 1, it2 - 1)]) - 1)] = gaf_file.pos - 1\n"
                               "src_p[(K(gaf_file.pos - 1, it2 - 1), len(out_dict[K(gaf_file.pos - 1, it2 - 1)]) - 1)] = it2 - 1",
        },
        assert_at={"before:try:": {"record-just-read": "gaf_file.pos >= 1 and mapping == gaf_file.lines[gaf_file.pos - 1]"},
                   "before:out_dict[": {"node-known": "a in nodes and 'SN' in nodes[a].tags and 'SO' in nodes[a].tags and 'LN' in nodes[a].tags",
                                   "a-is-the-traversed-node": "a == tr(gaf_file.pos - 1)[it2 - 1]",
                                   "key-is-K": "keyof(a) == K(gaf_file.pos - 1, it2 - 1)"},
                   "before:for a in alignment": {"alignment-is-tr": "same(alignment, tr(gaf_file.pos - 1))", "alignment-len": "len(alignment) == NT(gaf_file.pos - 1)", "offset-before-read": "offset == gaf_file.offs[gaf_file.pos - 1]"}},
        ensures={
            "all-records-read": "gaf_file.pos == len(gaf_file.lines)",
            "entry-lists-offset-if-record-traverses-node": A_INV.format(jmax="len(gaf_file.lines)", jfull="len(gaf_file.lines)", pmax="0"),
            "entry-lists-only-offsets-of-traversing-records": B_INV.format(jmax="len(gaf_file.lines)", jfull="len(gaf_file.lines)", pmax="0"),
            "keyed-by-id-contig-interval": "forall(KEY, lambda key: implies(key in out_dict, len(out_dict[key]) >= 1 and "
                                           "key == keyof(tr(src_j[(key, 0)])[src_p[(key, 0)]])))",
        },
    ))


# ---------------------------------------------------------------------------------------------------------
# convert_coord, whole function, once per shape of the stable path column (same two shapes as conversion.to_unstable):
#   #bare       one bare contig name; the interval is columns 8/9 of the record
#   #intervals  alternating orientation / CONTIG:START-END tokens
# ghost lo[t] / hi[t]: first / last segment of token t's contig overlapping the token's interval; OUT[t]: ids emitted before token t
def cc_macros(shape):
    m = {
        "tok": "lambda t: tokens_of(line[5])[t]", "ntok": "lambda: len(tokens_of(line[5]))",
        "isori": "lambda t: tokens_of(line[5])[t] == '>' or tokens_of(line[5])[t] == '<'",
        "R": "lambda t: ref[ctg(t)]", "nout": "lambda t: hi[t] - lo[t] + 1",
        "so": "lambda t, i: SO[(t, i)]", "en": "lambda t, i: EN[(t, i)]", "ctg": "lambda t: CT[t]", "qs": "lambda t: QS[t]", "qe": "lambda t: QE[t]",
        "body": "lambda t: BODY[t]",
    }
    return m


def cc_requires(shape):
    r = []
    if shape == "bare":
        r += ["ntok() == 1", "not isori(0) and tok(0) != '' and not (str_contains(tok(0), ':') and str_contains(tok(0), '-'))",
              "BODY[0] and CT[0] == tok(0) and QS[0] == int(line[7]) and QE[0] == int(line[8])"]
    else:
        r += ["ntok() >= 2 and ntok() % 2 == 0",
              "forall(lambda t: implies(0 <= t < ntok() and t % 2 == 0, isori(t)))",
              "forall(lambda t: implies(0 <= t < ntok() and t % 2 == 1, not isori(t) and tok(t) != '' and str_contains(tok(t), ':') and str_contains(tok(t), '-') and "
              "len(rsplit_colon_1(rstrip(tok(t)))) == 2 and len(split_dash(rstrip(rsplit_colon_1(rstrip(tok(t)))[1]))) == 2))",
              "forall(lambda t: implies(0 <= t < ntok(), BODY[t] == (t % 2 == 1)))",
              "forall(lambda t: implies(0 <= t < ntok() and t % 2 == 1, CT[t] == rsplit_colon_1(rstrip(tok(t)))[0] and "
              "QS[t] == int(split_dash(rstrip(rsplit_colon_1(rstrip(tok(t)))[1]))[0]) and QE[t] == int(split_dash(rstrip(rsplit_colon_1(rstrip(tok(t)))[1]))[1])))"]
    r += [
        "len(line) >= 9",
        # definitions of the ghost names for segment starts / ends
        "forall(lambda t, i: implies(0 <= t < ntok() and BODY[t] and 0 <= i < len(ref[CT[t]]), "
        "SO[(t, i)] == int(ref[CT[t]][i].tags['SO'][1]) and EN[(t, i)] == int(ref[CT[t]][i].tags['SO'][1]) + int(ref[CT[t]][i].tags['LN'][1])))",
        # valid record over a valid rGFA: known contigs, non-empty intervals, segments sorted and disjoint, something overlaps
        "forall(lambda t: implies(0 <= t < ntok() and body(t), ctg(t) in ref and 0 <= qs(t) < qe(t)))",
        "forall(lambda t, i: implies(0 <= t < ntok() and body(t) and 0 <= i < len(R(t)), 'SO' in R(t)[i].tags and 'LN' in R(t)[i].tags and 0 <= so(t, i) < en(t, i)))",
        "forall(lambda t, i, j: implies(0 <= t < ntok() and body(t) and 0 <= i < j < len(R(t)), en(t, i) <= so(t, j)))",
        "forall(lambda t: implies(0 <= t < ntok() and body(t), 0 <= lo[t] <= hi[t] < len(R(t))))",
        "forall(lambda t, i: implies(0 <= t < ntok() and body(t) and 0 <= i < len(R(t)), (lo[t] <= i <= hi[t]) == (so(t, i) < qe(t) and qs(t) < en(t, i))))",
        "OUT[0] == 0 and forall(lambda t: implies(0 <= t < ntok(), OUT[t + 1] == OUT[t] + ite(body(t), nout(t), 0)))",
        "forall(lambda t, u: implies(0 <= t < u <= ntok(), OUT[t] + ite(body(t), nout(t), 0) <= OUT[u])) and forall(lambda t: implies(0 <= t <= ntok(), OUT[t] >= 0))",
    ]
    return r


CC_EMITTED = ("forall(lambda t, k: implies(0 <= t < {n} and body(t) and 0 <= k < nout(t), {uc}[OUT[t] + k] == R(t)[lo[t] + k].id))")


def register_convert_coord(reg):
    I2 = TupleT(INT, INT)
    for shape in ("bare", "intervals"):
        reg.add(Contract(
            file=INDEX, func="convert_coord", variant="#" + shape, params=dict(line=LINE, ref=DictT(STR, ListT(GNode))), returns=LINE, pure=True,
            ghost=dict(lo=IMAP, hi=IMAP, OUT=IMAP, CT=MapT(INT, STR), QS=IMAP, QE=IMAP, BODY=MapT(INT, BOOL), SO=MapT(I2, INT), EN=MapT(I2, INT), B=INT, UC0=LINE),
            types=dict(STR=STR, INT=INT),
            ufuns=dict(tokens_of=([STR], LINE), rsplit_colon_1=([STR], LINE), split_dash=([STR], LINE), rstrip=([STR], STR), str_contains=([STR, STR], BOOL)),
            spec_funcs=cc_macros(shape), call_ghost={"search_intervals": {"w": "lo[it1 - 1]"}},
            locals=dict(unstable_coord=LINE),
            requires=cc_requires(shape),
            loops={
                1: Loop(index="it1", fingerprint="for nd in gaf_contigs", pres_from={"emitted": ["emitted-this-token", "emitted-earlier-kept", "token"]}, invariant={
                    "emitted-count": "len(unstable_coord) == OUT[it1]",
                    "emitted": CC_EMITTED.format(n="it1", uc="unstable_coord"),
                }),
                2: Loop(index="it2", fingerprint="for node in ref[query_contig_name][start:end + 1]",
                        pres_from={"taken": ["filter-is-covering-membership", "loop2:taken", "loop2:window", "covering-ends-in-range"],
                                   "taken-ids": ["slice-element", "filter-is-covering-membership", "loop2:taken", "loop2:taken-ids", "loop2:window", "covering-ends-in-range"]},
                        invariant={
                    "window": "0 <= start <= lo[it1 - 1] and hi[it1 - 1] <= end",
                    "taken": "len(unstable_coord) == B + ite(start + it2 <= lo[it1 - 1], 0, ite(start + it2 > hi[it1 - 1], nout(it1 - 1), start + it2 - lo[it1 - 1]))",
                    "taken-ids": "forall(lambda j: implies(B <= j < len(unstable_coord), unstable_coord[j] == R(it1 - 1)[lo[it1 - 1] + (j - B)].id))",
                    "prefix-kept": "forall(lambda j: implies(0 <= j < B, unstable_coord[j] == UC0[j]))",
                }),
            },
            ghost_at={"before:start, end = utils.search_intervals(": "B = len(unstable_coord)\nUC0 = unstable_coord"},
            assert_at={
                "before:start, end = utils.search_intervals(": {
                    "token": "nd == tok(it1 - 1) and body(it1 - 1)",
                    "contig-decoded": "query_contig_name == ctg(it1 - 1)",
                    "interval-decoded": "int(query_start) == qs(it1 - 1) and int(query_end) == qe(it1 - 1)",
                    "base-is-OUT": "B == OUT[it1 - 1]",
                    "covering-ends-in-range": "0 <= lo[it1 - 1] <= hi[it1 - 1] < len(R(it1 - 1))",
                    "covering-ends-overlap": "so(it1 - 1, lo[it1 - 1]) < qe(it1 - 1) and qs(it1 - 1) < en(it1 - 1, lo[it1 - 1]) and "
                                             "so(it1 - 1, hi[it1 - 1]) < qe(it1 - 1) and qs(it1 - 1) < en(it1 - 1, hi[it1 - 1])",
                    "covering-ends-decoded": "so(it1 - 1, lo[it1 - 1]) == int(R(it1 - 1)[lo[it1 - 1]].tags['SO'][1]) and "
                                             "en(it1 - 1, lo[it1 - 1]) == int(R(it1 - 1)[lo[it1 - 1]].tags['SO'][1]) + int(R(it1 - 1)[lo[it1 - 1]].tags['LN'][1]) and "
                                             "so(it1 - 1, hi[it1 - 1]) == int(R(it1 - 1)[hi[it1 - 1]].tags['SO'][1]) and "
                                             "en(it1 - 1, hi[it1 - 1]) == int(R(it1 - 1)[hi[it1 - 1]].tags['SO'][1]) + int(R(it1 - 1)[hi[it1 - 1]].tags['LN'][1])"},
                "before:cases = -1": {
                    "slice-element": "start + it2 - 1 < len(R(it1 - 1)) and same(node, R(it1 - 1)[start + it2 - 1])",
                    "segment-decoded": "int(node.tags['SO'][1]) == so(it1 - 1, start + it2 - 1) and "
                                       "int(node.tags['SO'][1]) + int(node.tags['LN'][1]) == en(it1 - 1, start + it2 - 1)"},
                "before:if cases != -1:": {
                    "filter-is-covering-membership": "(cases != -1) == (lo[it1 - 1] <= start + it2 - 1 <= hi[it1 - 1])"},
                "after:for node in ref[query_contig_name][start:end + 1]": {
                    "emitted-count-after-token": "len(unstable_coord) == OUT[it1 - 1] + nout(it1 - 1)",
                    "emitted-this-token": {"expr": "forall(lambda k: implies(0 <= k < nout(it1 - 1), unstable_coord[OUT[it1 - 1] + k] == R(it1 - 1)[lo[it1 - 1] + k].id))",
                                           "from": ["loop2:taken", "loop2:taken-ids", "loop2:window", "base-is-OUT", "covering-ends-in-range"]},
                    "emitted-earlier-kept": CC_EMITTED.format(n="it1 - 1", uc="unstable_coord")},
            },
            ensures={
                "one-id-per-overlapping-segment": "len(result) == OUT[ntok()]",
                "exactly-the-overlapping-segments-in-order": CC_EMITTED.format(n="ntok()", uc="result"),
            },
            notes="the ids of exactly those segments of each token's contig whose stable interval overlaps the token's interval, in segment order, token after token",
        ))
