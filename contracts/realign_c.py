"""Contracts for gaftools/cli/realign.py (C11, C13, C12) against the multiprocessing environment of DESIGN.md 3.5."""
from pyvc.api import *
from .types import *

REALIGN = "gaftools/cli/realign.py"
PA = ObjT("PriorityAlignment", priority=INT, seq=STR)
I2 = TupleT(INT, INT)
# the result queue as the parent sees it: recv[w] = number of objects of worker w already dequeued; last_w = producer of the last dequeued object
MPQ = ObjT("MPQueue", recv=MapT(INT, INT), last_w=INT)
Proc = ObjT("Process", wid=INT)

ENV = {
    # worker w puts nres[w] results itm(w, 0..) and then the sentinel None: object k of worker w
    "obj": "lambda w, k: ite(k == nres[w], None, itm(w, k))",
    "done": "lambda w: align_queue.recv[w] == nres[w] + 1",
    "got": "lambda w: ite(align_queue.recv[w] <= nres[w], align_queue.recv[w], nres[w])",   # results (not sentinel) received from w
    "W": "lambda: len(processes)",
}


def register(reg):
    reg.add(Contract(
        file="(assumed)/mpqueue.py", func="MPQueue.get", params=dict(self=MPQ, timeout=REAL), ghost=dict(nres=MapT(INT, INT), W=INT), returns=Opt(PA),
        trusted=True, modifies=["self"], raises={"Empty": "*"}, ufuns={"itm": ([INT, INT], PA)},
        ensures={
            "some-producer": "0 <= self.last_w < W and old(self).recv[self.last_w] <= nres[self.last_w]",
            "per-producer-fifo": "result == ite(old(self).recv[self.last_w] == nres[self.last_w], None, itm(self.last_w, old(self).recv[self.last_w]))",
            "one-object-dequeued": "forall(lambda w: self.recv[w] == ite(w == self.last_w, old(self).recv[w] + 1, old(self).recv[w]))",
        },
        notes="environment contract: get(timeout) either raises queue.Empty (at ANY time: sound over-approximation of a timeout) or returns the next "
              "not yet received object of SOME worker (per-producer FIFO; the sentinel None is each worker's last object)",
    ))
    reg.add(Contract(file=REALIGN, func="one_is_alive", params=dict(processes=ListT(Proc)), returns=BOOL, trusted=True,
                     notes="environment observation: any boolean (workers may exit or die between two actions of the parent)"))
    reg.add(Contract(file=REALIGN, func="all_exited", params=dict(processes=ListT(Proc)), returns=BOOL, trusted=True,
                     ensures={"observes-exit-codes": "result == all_exit_codes_zero"}, ghost_reads=["all_exit_codes_zero"],
                     notes="environment observation: True iff every worker's exit code is 0 at this moment"))
    for occ, name in ((0, "#collector-full-groups"), (1, "#collector-leftover")):
        reg.add(Contract(
            file=REALIGN, func="realign_gaf", variant=name, fragment=("n_sentinels = 0", 2, occ),
            params=dict(processes=ListT(Proc), align_queue=MPQ, p_queue=ListT(PA)),
            ghost=dict(nres=MapT(INT, INT), pos=MapT(I2, INT), src_w=MapT(INT, INT), src_k=MapT(INT, INT), CN=MapT(INT, INT), CM=MapT(INT, INT),
                       all_exit_codes_zero=BOOL, p0=INT),
            ufuns={"itm": ([INT, INT], PA)}, spec_funcs=ENV, types=dict(INT=INT),
            locals=dict(out_string_obj=Opt(PA), n_sentinels=INT),
            call_ghost={"MPQueue.get": {"nres": "nres", "W": "len(processes)"}, "all_exited": {}},
            requires=[
                "forall(lambda w: implies(0 <= w < len(processes), nres[w] >= 0 and align_queue.recv[w] == 0))",
                "len(p_queue) == 0 and p0 == 0",
                "CN[0] == 0 and CM[0] == 0 and forall(lambda w: implies(0 <= w <= len(processes), CN[w] == 0 and CM[w] == w))",
            ],
            loops={1: Loop(fingerprint="while n_sentinels != len(processes)", invariant={
                "recv-in-range": "forall(lambda w: implies(0 <= w < W(), 0 <= align_queue.recv[w] <= nres[w] + 1))",
                # every received result sits in p_queue exactly once (bijection by ghost maps): nothing dropped, nothing duplicated
                "results-queued": "forall(lambda w, k: implies(0 <= w < W() and 0 <= k < got(w), 0 <= pos[(w, k)] < len(p_queue) and p_queue[pos[(w, k)]] == itm(w, k) "
                                  "and src_w[pos[(w, k)]] == w and src_k[pos[(w, k)]] == k))",
                "queue-only-results": "forall(lambda i: implies(0 <= i < len(p_queue), 0 <= src_w[i] < W() and 0 <= src_k[i] < got(src_w[i]) and pos[(src_w[i], src_k[i])] == i))",
                # sentinel counting without induction: CN[w] / CM[w] = number of done / not-done workers below w
                "sentinels-counted": "n_sentinels == CN[W()]",
                "count-steps": "CN[0] == 0 and CM[0] == 0 and forall(lambda w: implies(0 <= w < W(), CN[w + 1] == CN[w] + ite(done(w), 1, 0) and CM[w + 1] == CM[w] + ite(done(w), 0, 1)))",
                "count-split": "forall(lambda w: implies(0 <= w <= W(), CN[w] + CM[w] == w and CM[w] >= 0 and CN[w] >= 0))",
                "not-done-monotone": "forall(lambda v, w: implies(0 <= v <= w <= W(), CM[v] <= CM[w]))",
            })},
            ghost_at={
                "after:n_sentinels += 1": "CN = shift_above(CN, align_queue.last_w, 1)\nCM = shift_above(CM, align_queue.last_w, 0 - 1)",
                "after:p_queue.put(out_string_obj)": "pos[(align_queue.last_w, align_queue.recv[align_queue.last_w] - 1)] = len(p_queue) - 1\n"
                                                     "src_w[len(p_queue) - 1] = align_queue.last_w\nsrc_k[len(p_queue) - 1] = align_queue.recv[align_queue.last_w] - 1",
            },
            ensures={
                # C11: the loop ends only when every object of every worker has been received, and then p_queue holds every result exactly once
                "every-sentinel-received": "forall(lambda w: implies(0 <= w < W(), align_queue.recv[w] == nres[w] + 1))",
                "every-result-queued-exactly-once": "forall(lambda w, k: implies(0 <= w < W() and 0 <= k < nres[w], 0 <= pos[(w, k)] < len(p_queue) and "
                                                    "p_queue[pos[(w, k)]] == itm(w, k))) and forall(lambda i: implies(0 <= i < len(p_queue), 0 <= src_w[i] < W() and "
                                                    "0 <= src_k[i] < nres[src_w[i]] and pos[(src_w[i], src_k[i])] == i))",
            },
            exc_ensures={"SystemExit": {
                # C13: the only abnormal way out is exit status 1, taken only when some worker's exit code is not 0
                "non-zero-exit-status": "__exit_code__ == 1",
                "only-when-a-worker-failed": "not all_exit_codes_zero",
            }},
        ))
