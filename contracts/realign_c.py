"""Contracts for gaftools/cli/realign.py (C11, C13, C12) against the multiprocessing environment of DESIGN.md 3.5."""
from pyvc.api import *
from .types import *

REALIGN = "gaftools/cli/realign.py"
PA = ObjT("PriorityAlignment", priority=INT, seq=STR)
I2 = TupleT(INT, INT)
# the result queue as the parent sees it: recv[w] = number of objects of worker w already dequeued; last_w = producer of the last dequeued object
MPQ = ObjT("MPQueue", recv=MapT(INT, INT), last_w=INT)
Proc = ObjT("Process", wid=INT)
# a worker as the two observation helpers see it: running now? / exit code (None while running)
ProcObs = ObjT("Process", alive=BOOL, exitcode=Opt(INT))
ProcObs.name = "Obj<ProcessObserved>"
ONE_IS_ALIVE_POST = "result == exists(lambda w: 0 <= w < len(processes) and alive1[w])"
ALL_ARE_ALIVE_POST = "result == forall(lambda w: implies(0 <= w < len(processes), alive1[w]))"
ALL_EXITED_POST = "result == forall(lambda w: implies(0 <= w < len(processes), not alive2[w] and not failed2[w]))"

ENV = {
    # worker w puts nres[w] results itm(w, 0..) and then the sentinel None: object k of worker w
    "obj": "lambda w, k: ite(k == nres[w], None, itm(w, k))",
    "done": "lambda w: align_queue.recv[w] == nres[w] + 1",
    "got": "lambda w: ite(align_queue.recv[w] <= nres[w], align_queue.recv[w], nres[w])",   # results (not sentinel) received from w
    "W": "lambda: len(processes)",
}


def register(reg):
    reg.add(Contract(
        file="(assumed)/mpqueue.py", func="MPQueue.get", params=dict(self=MPQ, timeout=REAL), ghost=dict(nres=MapT(INT, INT), W=INT), returns=Opt(PA),
        trusted=True, modifies=["self"], raises={"Empty": "*"}, ufuns={"itm": ([INT, INT], PA)},
        ensures={
            "some-producer": "0 <= self.last_w < W and old(self).recv[self.last_w] <= nres[self.last_w]",
            "per-producer-fifo": "result == ite(old(self).recv[self.last_w] == nres[self.last_w], None, itm(self.last_w, old(self).recv[self.last_w]))",
            "one-object-dequeued": "forall(lambda w: self.recv[w] == ite(w == self.last_w, old(self).recv[w] + 1, old(self).recv[w]))",
        },
        notes="environment contract: get(timeout) either raises queue.Empty (at ANY time: sound over-approximation of a timeout) or returns the next "
              "not yet received object of SOME worker (per-producer FIFO; the sentinel None is each worker's last object)",
    ))
    # truthful observations of the worker processes.  alive1 = who is running when is_alive() is asked, alive2 / failed2 = who is still running /
    # has terminated abnormally when the exit codes are read afterwards (a worker may stop in between, never restart: alive2 implies alive1)
    reg.add(Contract(file=REALIGN, func="one_is_alive", params=dict(processes=ListT(Proc)), returns=BOOL, trusted=True, ghost_reads=["alive1"],
                     ensures={"truthful": ONE_IS_ALIVE_POST},
                     notes="caller view of one_is_alive (is at least one worker running now); the same post is PROVED of the body: one_is_alive#body"))
    reg.add(Contract(file=REALIGN, func="all_are_alive", params=dict(processes=ListT(Proc)), returns=BOOL, trusted=True, ghost_reads=["alive1"],
                     ensures={"truthful": ALL_ARE_ALIVE_POST},
                     notes="caller view of all_are_alive (are all workers running now); the same post is PROVED of the body: all_are_alive#body"))
    reg.add(Contract(file=REALIGN, func="all_exited", params=dict(processes=ListT(Proc)), returns=BOOL, trusted=True, ghost_reads=["alive2", "failed2"],
                     ensures={"observes-exit-codes": ALL_EXITED_POST},
                     notes="caller view of all_exited: every exit code is 0 (a running worker has exit code None, which is not 0); the same post is PROVED of the body: all_exited#body"))
    # the two observation helpers themselves (bodies verified; the caller-side contracts above are their posts, word for word): a process is seen
    # as (alive, exitcode); the ghost maps of the collector are DEFINED from the observed objects in the requires
    reg.add(Contract(file="(assumed)/mpprocess.py", func="Process.is_alive", params=dict(self=ProcObs), returns=BOOL, trusted=True,
                     ensures={"observes": "result == self.alive"}, notes="environment: multiprocessing.Process.is_alive() reports whether the worker runs now"))
    reg.add(Contract(
        file=REALIGN, func="one_is_alive", variant="#body", params=dict(processes=ListT(ProcObs)), returns=BOOL, ghost=dict(alive1=MapT(INT, BOOL)),
        requires=["forall(lambda w: implies(0 <= w < len(processes), alive1[w] == processes[w].alive))"],
        loops={1: Loop(index="it1", fingerprint="for p in processes", invariant={"none-so-far": "forall(lambda w: implies(0 <= w < it1, not alive1[w]))"})},
        ensures={"truthful": ONE_IS_ALIVE_POST},
    ))
    reg.add(Contract(
        file=REALIGN, func="all_are_alive", variant="#body", params=dict(processes=ListT(ProcObs)), returns=BOOL, ghost=dict(alive1=MapT(INT, BOOL)),
        requires=["forall(lambda w: implies(0 <= w < len(processes), alive1[w] == processes[w].alive))"],
        loops={1: Loop(index="it1", fingerprint="for p in processes", invariant={"all-so-far": "forall(lambda w: implies(0 <= w < it1, alive1[w]))"})},
        ensures={"truthful": ALL_ARE_ALIVE_POST},
    ))
    reg.add(Contract(
        file=REALIGN, func="all_exited", variant="#body", params=dict(processes=ListT(ProcObs)), returns=BOOL,
        ghost=dict(alive2=MapT(INT, BOOL), failed2=MapT(INT, BOOL)),
        requires=["forall(lambda w: implies(0 <= w < len(processes), alive2[w] == is_none(processes[w].exitcode) and "
                  "failed2[w] == (not is_none(processes[w].exitcode) and val(processes[w].exitcode) != 0)))"],
        loops={1: Loop(index="it1", fingerprint="for p in processes", invariant={"all-zero-so-far": "forall(lambda w: implies(0 <= w < it1, not alive2[w] and not failed2[w]))"})},
        ensures={"observes-exit-codes": ALL_EXITED_POST},
    ))
    for occ, name in ((0, "#collector-full-groups"), (1, "#collector-leftover")):
        reg.add(Contract(
            file=REALIGN, func="realign_gaf", variant=name, fragment=("n_sentinels = 0", 2, occ),
            params=dict(processes=ListT(Proc), align_queue=MPQ, p_queue=ListT(PA)),
            ghost=dict(nres=MapT(INT, INT), pos=MapT(I2, INT), src_w=MapT(INT, INT), src_k=MapT(INT, INT), CN=MapT(INT, INT), CM=MapT(INT, INT),
                       alive1=MapT(INT, BOOL), alive2=MapT(INT, BOOL), failed2=MapT(INT, BOOL), p0=INT),
            ufuns={"itm": ([INT, INT], PA)}, spec_funcs=ENV, types=dict(INT=INT),
            locals=dict(out_string_obj=Opt(PA), n_sentinels=INT),
            call_ghost={"MPQueue.get": {"nres": "nres", "W": "len(processes)"}, "all_exited": {}},
            requires=[
                "forall(lambda w: implies(0 <= w < len(processes), nres[w] >= 0 and align_queue.recv[w] == 0))",
                "len(p_queue) == 0 and p0 == 0",
                "CN[0] == 0 and CM[0] == 0 and forall(lambda w: implies(0 <= w <= len(processes), CN[w] == 0 and CM[w] == w))",
                "forall(lambda w: implies(alive2[w], alive1[w]))",
            ],
            loops={1: Loop(fingerprint="while n_sentinels != len(processes)", modifies=["alive1", "alive2", "failed2"], invariant={
                "workers-do-not-restart": "forall(lambda w: implies(alive2[w], alive1[w]))",
                "recv-in-range": "forall(lambda w: implies(0 <= w < W(), 0 <= align_queue.recv[w] <= nres[w] + 1))",
                # every received result sits in p_queue exactly once (bijection by ghost maps): nothing dropped, nothing duplicated
                "results-queued": "forall(lambda w, k: implies(0 <= w < W() and 0 <= k < got(w), 0 <= pos[(w, k)] < len(p_queue) and p_queue[pos[(w, k)]] == itm(w, k) "
                                  "and src_w[pos[(w, k)]] == w and src_k[pos[(w, k)]] == k))",
                "queue-only-results": "forall(lambda i: implies(0 <= i < len(p_queue), 0 <= src_w[i] < W() and 0 <= src_k[i] < got(src_w[i]) and pos[(src_w[i], src_k[i])] == i))",
                # sentinel counting without induction: CN[w] / CM[w] = number of done / not-done workers below w
                "sentinels-counted": "n_sentinels == CN[W()]",
                "count-steps": "CN[0] == 0 and CM[0] == 0 and forall(lambda w: implies(0 <= w < W(), CN[w + 1] == CN[w] + ite(done(w), 1, 0) and CM[w + 1] == CM[w] + ite(done(w), 0, 1)))",
                "count-split": "forall(lambda w: implies(0 <= w <= W(), CN[w] + CM[w] == w and CM[w] >= 0 and CN[w] >= 0))",
                "not-done-monotone": "forall(lambda v, w: implies(0 <= v <= w <= W(), CM[v] <= CM[w]))",
            })},
            ghost_at={
                "after:n_sentinels += 1": "CN = shift_above(CN, align_queue.last_w, 1)\nCM = shift_above(CM, align_queue.last_w, 0 - 1)",
                "after:p_queue.put(out_string_obj)": "pos[(align_queue.last_w, align_queue.recv[align_queue.last_w] - 1)] = len(p_queue) - 1\n"
                                                     "src_w[len(p_queue) - 1] = align_queue.last_w\nsrc_k[len(p_queue) - 1] = align_queue.recv[align_queue.last_w] - 1",
            },
            ensures={
                # C11: the loop ends only when every object of every worker has been received, and then p_queue holds every result exactly once
                "every-sentinel-received": "forall(lambda w: implies(0 <= w < W(), align_queue.recv[w] == nres[w] + 1))",
                "every-result-queued-exactly-once": "forall(lambda w, k: implies(0 <= w < W() and 0 <= k < nres[w], 0 <= pos[(w, k)] < len(p_queue) and "
                                                    "p_queue[pos[(w, k)]] == itm(w, k))) and forall(lambda i: implies(0 <= i < len(p_queue), 0 <= src_w[i] < W() and "
                                                    "0 <= src_k[i] < nres[src_w[i]] and pos[(src_w[i], src_k[i])] == i))",
            },
            exc_ensures={"SystemExit": {
                # C13: the only abnormal way out is exit status 1, taken only when some worker's exit code is not 0
                "non-zero-exit-status": "__exit_code__ == 1",
                "only-when-a-worker-terminated-abnormally": "exists(lambda w: 0 <= w < len(processes) and failed2[w])",
            }},
        ))


# ---- C12: wfa_alignment (glue around the external aligner) ------------------------------------------------------------------------
from .phase_c import PathAlignment  # noqa
CigTup = TupleT(INT, INT)
WfaResult = ObjT("WfaResult", cigartuples=ListT(CigTup))
Aligner = ObjT("WavefrontAligner", ref=STR, cigartuples=ListT(CigTup), cigarstring=STR)
Aligner.ctor = ["ref"]
Aligner.defaults = {"cigartuples": lambda eng: __import__("pyvc.engine", fromlist=["Val"]).Val(ListT(CigTup).fresh("wfa_ct"), ListT(CigTup)),
                    "cigarstring": lambda eng: __import__("pyvc.engine", fromlist=["Val"]).Val(STR.fresh("wfa_cs"), STR)}
PAL = ObjT("PriorityAlignment", priority=INT, seq=LINE)
PAL.name = "Obj<PriorityAlignmentLine>"
BatchItem = TupleT(PathAlignment, STR, STR, INT)

WFA_M = {
    "rec": "lambda j: seq_batch[j][0]",
    "big": "lambda j: seq_batch[j][0].query_end - seq_batch[j][0].query_start > 60000",
}


def register_wfa(reg):
    reg.add(Contract(file="(assumed)/pywfa.py", func="WavefrontAligner.__call__", params=dict(self=Aligner, query=STR, clip_cigar=BOOL), returns=WfaResult,
                     trusted=True, raises={"MemoryError": "*"}, ensures={"tuples": "same(result.cigartuples, self.cigartuples)",
                                            "ops": "forall(lambda i: implies(0 <= i < len(self.cigartuples), self.cigartuples[i][1] >= 0 and (self.cigartuples[i][0] == 0 or "
                                                   "self.cigartuples[i][0] == 1 or self.cigartuples[i][0] == 2 or self.cigartuples[i][0] == 4 or self.cigartuples[i][0] == 8)))"},
                     notes="external C library (pywfa): the alignment it returns is NOT verified; only that cigartuples use op codes 0/1/2/4/8 with non-negative lengths"))
    reg.add(Contract(
        file=REALIGN, func="wfa_alignment", params=dict(seq_batch=ListT(BatchItem), qu=ListT(Opt(PAL))), modifies=["qu"],
        types=dict(WavefrontAligner=Aligner, PriorityAlignment=PAL, STR=STR),
        ghost=dict(MS=MapT(INT, INT), TS=MapT(INT, INT), ct=ListT(CigTup), q0=INT, RM=MapT(INT, INT), RB=MapT(INT, INT), RC=MapT(INT, STR)),
        ghost_at={"after:gaf_line.tags['cg:Z:'] = cigar": "RM[it1 - 1] = match\nRB[it1 - 1] = cigar_len\nRC[it1 - 1] = gaf_line.tags['cg:Z:']"},
        locals=dict(cigar=LINE, out_string=LINE, match=INT, mismatch=INT, cigar_len=INT, ins=INT, deletion=INT, soft_clip=INT),
        spec_funcs=WFA_M, alias_ok=["gaf_line"],
        requires=["q0 == len(qu)",
                  "forall(lambda j, t: implies(0 <= j < len(seq_batch) and 0 <= t < len(keys(seq_batch[j][0].tags)), keys(seq_batch[j][0].tags)[t] in seq_batch[j][0].tags))"],
        loops={
            1: Loop(index="it1", fingerprint="for gaf_line, ref, query, prior_counter in seq_batch", modifies=["MS", "TS", "ct"],
                    pres_from={"short-records-length": ["tags-printed", "number-of-fields", "loop1:short-records-length", "loop1:one-item-per-record", "!partial"],
                               "short-records-tags-in-place-cigar-replaced": ["tags-printed", "cigar-replaced-in-place", "number-of-fields",
                                                                              "loop1:short-records-tags-in-place-cigar-replaced", "loop1:one-item-per-record", "!partial"]},
                    invariant={
                "one-item-per-record": "len(qu) == q0 + it1",
                "all-items-so-far-are-results": "forall(lambda k: implies(q0 <= k < len(qu), not is_none(qu[k])))",
                "earlier-items-kept": "forall(lambda k: implies(0 <= k < q0, qu[k] == old(qu)[k]))",
                "priority-is-the-input-counter": "forall(lambda j: implies(0 <= j < it1, not is_none(qu[q0 + j]) and val(qu[q0 + j]).priority == seq_batch[j][3]))",
                "columns-1-9-and-12-copied": "forall(lambda j: implies(0 <= j < it1, val(qu[q0 + j]).seq[0] == rec(j).query_name and val(qu[q0 + j]).seq[1] == str(rec(j).query_length) and "
                                             "val(qu[q0 + j]).seq[2] == str(rec(j).query_start) and val(qu[q0 + j]).seq[3] == str(rec(j).query_end) and val(qu[q0 + j]).seq[4] == rec(j).strand and "
                                             "val(qu[q0 + j]).seq[5] == rec(j).path and val(qu[q0 + j]).seq[6] == str(rec(j).path_length) and val(qu[q0 + j]).seq[7] == str(rec(j).path_start) and "
                                             "val(qu[q0 + j]).seq[8] == str(rec(j).path_end) and val(qu[q0 + j]).seq[11] == str(rec(j).mapping_quality)))",
                "long-records-pass-through": "forall(lambda j: implies(0 <= j < it1 and big(j), val(qu[q0 + j]).seq[9] == str(rec(j).residue_matches) and "
                                             "val(qu[q0 + j]).seq[10] == str(rec(j).alignment_block_length) and len(val(qu[q0 + j]).seq) == 12 + len(keys(rec(j).tags)) and "
                                             "forall(lambda t: implies(0 <= t < len(keys(rec(j).tags)), val(qu[q0 + j]).seq[12 + t] == cat(keys(rec(j).tags)[t], rec(j).tags[keys(rec(j).tags)[t]])))))",
                # records of at most 60,000 read bases are re-aligned: RM / RB / RC = match total, block length, cigar string of the aligner's answer for
                # record j (ghost, recorded where the code has just computed them; 'match-count-is-the-sum-of-=-runs' below ties them to the cigartuples)
                "short-records-new-tallies": "forall(lambda j: implies(0 <= j < it1 and not big(j), val(qu[q0 + j]).seq[9] == str(RM[j]) and val(qu[q0 + j]).seq[10] == str(RB[j])))",
                "short-records-length": "forall(lambda j: implies(0 <= j < it1 and not big(j), len(val(qu[q0 + j]).seq) == 12 + len(keys(rec(j).tags)) + ite('cg:Z:' in rec(j).tags, 0, 1)))",
                "short-records-tags-in-place-cigar-replaced": "forall(lambda j, t: implies(0 <= j < it1 and not big(j) and 0 <= t < len(keys(rec(j).tags)), val(qu[q0 + j]).seq[12 + t] == "
                                                              "cat(keys(rec(j).tags)[t], ite(keys(rec(j).tags)[t] == 'cg:Z:', RC[j], rec(j).tags[keys(rec(j).tags)[t]]))))",
            }),
            2: Loop(index="it2", fingerprint="for k in gaf_line.tags.keys()", ghost_before="L12 = out_string", invariant={
                "len": "len(out_string) == 12 + it2", "prefix": "forall(lambda f: implies(0 <= f < 12, out_string[f] == L12[f]))",
                "tags": "forall(lambda t: implies(0 <= t < it2, out_string[12 + t] == cat(keys(gaf_line.tags)[t], gaf_line.tags[keys(gaf_line.tags)[t]])))",
            }),
            3: Loop(index="it3", fingerprint="for op_type, op_len in res.cigartuples", ghost_before="ct = res.cigartuples", invariant={
                # the tallies against ghost prefix sums over the aligner's cigartuples
                "match-tally": "match == MS[it3]", "block-tally": "cigar_len == TS[it3]",
            }),
            4: Loop(index="it4", fingerprint="for k in gaf_line.tags.keys()", ghost_before="L12 = out_string", invariant={
                "len": "len(out_string) == 12 + it4", "prefix": "forall(lambda f: implies(0 <= f < 12, out_string[f] == L12[f]))",
                "tags": "forall(lambda t: implies(0 <= t < it4, out_string[12 + t] == cat(keys(gaf_line.tags)[t], gaf_line.tags[keys(gaf_line.tags)[t]])))",
            }),
        },
        assume_at={"before:for op_type, op_len in res.cigartuples": [
            # DEFINITION of the ghost prefix sums for this record's cigartuples (ghost arrays are re-chosen per record)
            "MS[0] == 0 and TS[0] == 0",
            "forall(lambda i: implies(0 <= i < len(res.cigartuples), MS[i + 1] == MS[i] + ite(res.cigartuples[i][0] == 0, res.cigartuples[i][1], 0) and "
            "TS[i + 1] == TS[i] + res.cigartuples[i][1]))"]},
        assert_at={"before:qu.put(PriorityAlignment(prior_counter, out_string": {
            "tags-printed": "len(out_string) == 12 + len(keys(gaf_line.tags)) and forall(lambda t: implies(0 <= t < len(keys(gaf_line.tags)), "
                            "out_string[12 + t] == cat(keys(gaf_line.tags)[t], gaf_line.tags[keys(gaf_line.tags)[t]])))"},
                   "after:gaf_line.tags['cg:Z:'] = cigar": {
            # consequences of the ordered-dict update alone: proved from the quantifier-free path facts
            "cigar-replaced-in-place": {"expr": "forall(lambda t: implies(0 <= t < len(keys(rec(it1 - 1).tags)), keys(gaf_line.tags)[t] == keys(rec(it1 - 1).tags)[t] and "
                                                "gaf_line.tags[keys(rec(it1 - 1).tags)[t]] == ite(keys(rec(it1 - 1).tags)[t] == 'cg:Z:', gaf_line.tags['cg:Z:'], rec(it1 - 1).tags[keys(rec(it1 - 1).tags)[t]])))",
                                        "from": ["loop1:one-item-per-record"]},
            "number-of-fields": {"expr": "len(keys(gaf_line.tags)) == len(keys(rec(it1 - 1).tags)) + ite('cg:Z:' in rec(it1 - 1).tags, 0, 1)", "from": ["loop1:one-item-per-record"]},
            "cigar-key-position": "'cg:Z:' in gaf_line.tags and implies('cg:Z:' not in rec(it1 - 1).tags, len(keys(gaf_line.tags)) == len(keys(rec(it1 - 1).tags)) + 1 and "
                                  "keys(gaf_line.tags)[len(keys(rec(it1 - 1).tags))] == 'cg:Z:')"},
                   "before:cigar = aligner.cigarstring.replace(": {
            "match-count-is-the-sum-of-=-runs": "match == MS[len(ct)] and same(ct, res.cigartuples)",
            "block-length-is-the-sum-of-all-runs": "cigar_len == TS[len(ct)]"}},
        ensures={
            "one-item-per-record-then-the-sentinel": "len(qu) == q0 + len(seq_batch) + 1 and is_none(qu[q0 + len(seq_batch)])",
            "priority-is-the-input-counter": "forall(lambda j: implies(0 <= j < len(seq_batch), not is_none(qu[q0 + j]) and val(qu[q0 + j]).priority == seq_batch[j][3]))",
        },
        raises={"MemoryError": "*"},
        exc_ensures={"MemoryError": {
            # C13: a worker that crashes in the middle of its batch must NOT deliver its end-of-batch sentinel (the parent relies on that)
            "no-sentinel-after-a-crash": "forall(lambda k: implies(q0 <= k < len(qu), not is_none(qu[k])))"}},
        notes="ghost L12 is declared below",
    ))
    reg.by_key[(REALIGN, "wfa_alignment")].ghost["L12"] = LINE


# ---- the drain loops of realign_gaf: everything collected is written, smallest priority first -------------------------------------------
# abstract view of queue.PriorityQueue: `queue` = its content sorted by priority (the physical heap order is observable only through len()
# and get(), so any order of the abstract list is a valid abstraction; the sorted one makes get() a pop-front)
PQ = ObjT("PriorityQueue", queue=ListT(PA))


def register_drain(reg):
    reg.add(Contract(
        file="(assumed)/priorityqueue.py", func="PriorityQueue.get", params=dict(self=PQ), returns=PA, trusted=True, modifies=["self"],
        requires=["len(self.queue) > 0"],
        ensures={"smallest-first": "same(result, old(self).queue[0])",
                 "removed": "len(self.queue) == len(old(self).queue) - 1 and forall(lambda i: implies(0 <= i < len(self.queue), same(self.queue[i], old(self).queue[i + 1])))"},
        notes="environment contract (queue.PriorityQueue, single consumer): get() on a non-empty queue returns and removes the smallest item; "
              "get() on an EMPTY queue blocks for ever, hence the precondition (a proof obligation at every call)",
    ))
    for occ, name in ((0, "#drain-full-groups"), (1, "#drain-leftover")):
        reg.add(Contract(
            file=REALIGN, func="realign_gaf", variant=name, fragment=("queue_len = len(p_queue.queue)", 2, occ),
            params=dict(p_queue=PQ, output=ListT(STR)), modifies=["p_queue", "output"], locals=dict(queue_len=INT),
            requires=["forall(lambda i, j: implies(0 <= i < j < len(p_queue.queue), p_queue.queue[i].priority <= p_queue.queue[j].priority))"],
            loops={1: Loop(index="it1", fingerprint="for _ in range(", invariant={
                "count": "queue_len == len(old(p_queue).queue) and len(p_queue.queue) == queue_len - it1 and len(output) == len(old(output)) + it1",
                "remaining-are-the-tail": "forall(lambda i: implies(0 <= i < len(p_queue.queue), same(p_queue.queue[i], old(p_queue).queue[it1 + i])))",
                "written-are-the-head-in-priority-order": "forall(lambda k: implies(0 <= k < it1, output[len(old(output)) + k] == old(p_queue).queue[k].seq))",
                "earlier-output-kept": "forall(lambda k: implies(0 <= k < len(old(output)), output[k] == old(output)[k]))",
            })},
            ensures={
                "queue-emptied": "len(p_queue.queue) == 0",
                "every-collected-result-written-once-smallest-priority-first":
                    "len(output) == len(old(output)) + len(old(p_queue).queue) and "
                    "forall(lambda k: implies(0 <= k < len(old(p_queue).queue), output[len(old(output)) + k] == old(p_queue).queue[k].seq))",
                "earlier-output-kept": "forall(lambda k: implies(0 <= k < len(old(output)), output[k] == old(output)[k]))",
            },
        ))
