"""Contracts for gaftools/gaf.py (C16, C19 is_primary)."""
import ast
import os
import z3
from pyvc.api import *
from pyvc.engine import Oblig
from .types import *
from .phase_c import PathAlignment

GAFPY = "gaftools/gaf.py"
GAFSelf = ObjT("GAFSelf", gz_flag=BOOL)
PathAlignment.ctor = ["query_name", "query_length", "query_start", "query_end", "strand", "path", "path_length", "path_start", "path_end",
                      "residue_matches", "alignment_block_length", "mapping_quality", "is_primary", "cigar", "cigar_length", "score", "tags"]

M = {
    "F": "lambda: fields_of(rstrip_crlf(line))",
    "opt": "lambda t: fields_of(rstrip_crlf(line))[12 + t]",                   # t-th optional field
    "nopt": "lambda: len(fields_of(rstrip_crlf(line))) - 12",
    "istag": "lambda t: re_match_0(fields_of(rstrip_crlf(line))[12 + t])",
    "key": "lambda t: str_prefix(fields_of(rstrip_crlf(line))[12 + t], 5)",
    "value": "lambda t: str_suffix(fields_of(rstrip_crlf(line))[12 + t], 5)",
    "kept": "lambda t: re_match_0(fields_of(rstrip_crlf(line))[12 + t]) and str_prefix(fields_of(rstrip_crlf(line))[12 + t], 5) != 'ds:Z:'",
}


def register(reg):
    reg.add(Contract(
        file=GAFPY, func="GAF.parse_gaf_line", params=dict(self=GAFSelf, line=STR), returns=Opt(PathAlignment),
        types=dict(Alignment=PathAlignment, STR=STR, INT=INT),
        ufuns={"fields_of": ([STR], LINE), "rstrip_crlf": ([STR], STR), "re_match_0": ([STR], BOOL), "str_prefix": ([STR, INT], STR),
               "str_suffix": ([STR, INT], STR), "words_of": ([STR], LINE), "str_isdigit": ([STR], BOOL)},
        ghost=dict(firstpos=MapT(STR, INT), keypos=MapT(STR, INT), lastcg=INT, nonprim=INT), spec_funcs=M,
        locals=dict(tags=OrdDictT(STR, STR), cigar=STR, is_primary=BOOL),
        defaults={"cigar_length": lambda eng: __import__("pyvc.engine", fromlist=["NoneV"]).NoneV},
        requires=["len(fields_of(rstrip_crlf(line))) >= 12", "lastcg == -1 and nonprim == -1"],
        loops={1: Loop(index="it1", fingerprint="for k in fields[", invariant={
            # keys of the tag dict = the kept fields' TAG:TYPE: in order of first occurrence
            "keys-are-kept-fields": "forall(lambda i: implies(0 <= i < len(keys(tags)), keys(tags)[i] in tags and 0 <= firstpos[keys(tags)[i]] < it1 and "
                                    "kept(firstpos[keys(tags)[i]]) and key(firstpos[keys(tags)[i]]) == keys(tags)[i]))",
            "keys-in-field-order": "forall(lambda i, j: implies(0 <= i < j < len(keys(tags)), firstpos[keys(tags)[i]] < firstpos[keys(tags)[j]]))",
            "every-kept-field-has-its-key": "forall(lambda t: implies(0 <= t < it1 and kept(t), key(t) in tags and firstpos[key(t)] <= t))",
            "present-iff-listed": "forall(STR, lambda s: implies(s in tags, 0 <= keypos[s] < len(keys(tags)) and keys(tags)[keypos[s]] == s))",
            "value-of-first-occurrence": "forall(STR, lambda s: implies(s in tags and s != 'cg:Z:', tags[s] == value(firstpos[s])))",
            "cg-last-value": "('cg:Z:' in tags) == (lastcg >= 0) and -1 <= lastcg < it1 and implies(lastcg >= 0, kept(lastcg) and key(lastcg) == 'cg:Z:' and "
                             "tags['cg:Z:'] == value(lastcg) and cigar == value(lastcg)) and implies(lastcg == -1, cigar == '') and "
                             "forall(lambda t: implies(lastcg < t < it1 and kept(t), key(t) != 'cg:Z:'))",
            "primary-flag": "is_primary == (nonprim == -1) and -1 <= nonprim < it1 and implies(nonprim >= 0, kept(nonprim) and key(nonprim) == 'tp:A:' and "
                            "value(nonprim) != 'P' and value(nonprim) != 'p') and forall(lambda t: implies(0 <= t < it1 and kept(t) and key(t) == 'tp:A:' and "
                            "value(t) != 'P' and value(t) != 'p', nonprim >= 0))",
        })},
        ghost_at={
            "after:tags[pattern] = val": "firstpos[pattern] = ite(old_has_pattern, firstpos[pattern], it1 - 1)\n"
                                         "keypos[pattern] = ite(old_has_pattern, keypos[pattern], len(keys(tags)) - 1)",
            "before:tags[pattern] = val": "old_has_pattern = pattern in tags",
            "after:cigar = val": "lastcg = it1 - 1",
            "after:is_primary = False": "nonprim = it1 - 1",
        },
        ensures={
            "mandatory-columns": "implies(not is_none(result), val(result).query_name == words_of(F()[0])[0] and val(result).query_length == int(F()[1]) and "
                                 "val(result).query_start == int(F()[2]) and val(result).query_end == int(F()[3]) and val(result).strand == F()[4] and "
                                 "val(result).path == F()[5] and val(result).path_length == int(F()[6]) and val(result).path_start == int(F()[7]) and "
                                 "val(result).path_end == int(F()[8]) and val(result).residue_matches == int(F()[9]) and "
                                 "val(result).alignment_block_length == int(F()[10]) and val(result).mapping_quality == int(F()[11]))",
            "tags-are-the-kept-optional-fields-in-order": "implies(not is_none(result), "
                "forall(lambda i: implies(0 <= i < len(keys(val(result).tags)), kept(firstpos[keys(val(result).tags)[i]]) and "
                "key(firstpos[keys(val(result).tags)[i]]) == keys(val(result).tags)[i] and 0 <= firstpos[keys(val(result).tags)[i]] < nopt())) and "
                "forall(lambda i, j: implies(0 <= i < j < len(keys(val(result).tags)), firstpos[keys(val(result).tags)[i]] < firstpos[keys(val(result).tags)[j]])))",
            "no-kept-field-lost": "implies(not is_none(result), forall(lambda t: implies(0 <= t < nopt() and kept(t), key(t) in val(result).tags)))",
            "values-verbatim": "implies(not is_none(result), forall(STR, lambda s: implies(s in val(result).tags and s != 'cg:Z:', "
                               "cat(s, val(result).tags[s]) == opt(firstpos[s]))))",
            "cigar-is-the-last-cg-field": "implies(not is_none(result), (val(result).cigar == '') == (lastcg == -1) or lastcg >= 0) and "
                                          "implies(not is_none(result) and lastcg >= 0, cat('cg:Z:', val(result).cigar) == opt(lastcg) and val(result).tags['cg:Z:'] == val(result).cigar)",
            "no-cg-tag-without-a-cg-field": "implies(not is_none(result), ('cg:Z:' in val(result).tags) == exists(lambda t: 0 <= t < nopt() and kept(t) and key(t) == 'cg:Z:'))",
            "is-primary-iff-no-tp-other-than-P": "implies(not is_none(result), val(result).is_primary == (not exists(lambda t: 0 <= t < nopt() and kept(t) and "
                                                 "key(t) == 'tp:A:' and value(t) != 'P' and value(t) != 'p')))",
        },
    ))


# ---- character-level lemmas on the regex literals of the working tree (z3 sequence / regex theory) --------------------------------------
def _regex_to_z3(pat):
    """tiny translator for the regex subset used by gaf.py / utils.py: literals, [...] classes with ranges, *, +, ?, grouping-free"""
    i = 0
    parts = []
    if pat.startswith("^"):
        pat = pat[1:]
    anchored_end = pat.endswith("$")
    if anchored_end:
        pat = pat[:-1]
    while i < len(pat):
        ch = pat[i]
        if ch == "[":
            j = pat.index("]", i + 1)
            body = pat[i + 1:j]
            alts = []
            k = 0
            while k < len(body):
                if k + 2 < len(body) and body[k + 1] == "-":
                    alts.append(z3.Range(body[k], body[k + 2]))
                    k += 3
                else:
                    alts.append(z3.Re(body[k]))
                    k += 1
            atom = alts[0] if len(alts) == 1 else z3.Union(*alts)
            i = j + 1
        elif ch == "\\":
            atom = z3.Re(pat[i + 1])
            i += 2
        else:
            atom = z3.Re(ch)
            i += 1
        if i < len(pat) and pat[i] in "*+?":
            atom = {"*": z3.Star, "+": z3.Plus, "?": z3.Option}[pat[i]](atom)
            i += 1
        parts.append(atom)
    return (parts[0] if len(parts) == 1 else z3.Concat(*parts)), anchored_end


def regex_lemmas(reg, repo):
    """(1) every well-formed optional field (utils.tag_regex, the grammar the project itself states) is selected by the prefix regex of
    parse_gaf_line; (2) for a selected field the first five characters are exactly TAG:TYPE: (so key/value split at 5 is the field split)"""
    src_gaf = open(os.path.join(repo, GAFPY)).read()
    src_utils = open(os.path.join(repo, "gaftools/utils.py")).read()
    sel = None
    for n in ast.walk(ast.parse(src_gaf)):
        if isinstance(n, ast.Call) and ast.unparse(n.func) == "re.match" and isinstance(n.args[0], ast.Constant):
            sel = n.args[0].value
    grammar = None
    for n in ast.parse(src_utils).body:
        if isinstance(n, ast.Assign) and isinstance(n.targets[0], ast.Name) and n.targets[0].id == "tag_regex":
            grammar = n.value.value
    outs = []
    if sel is None or grammar is None:
        # the selection is no longer a literal re.match pattern / tag_regex is gone: undecided (exit 2), not by itself a violation
        raise Unsupported("regex lemmas: the re.match literal of parse_gaf_line or utils.tag_regex was not found in the source")
    s = z3.String("field")
    selre, _ = _regex_to_z3(sel)
    gram, _ = _regex_to_z3(grammar)
    any_char = z3.Star(z3.Range(" ", "~"))
    # the GAF grammar allows a digit as second character of the tag name (SAM: [A-Za-z][A-Za-z0-9])
    wf = z3.InRe(s, gram)
    o1 = Oblig("gaftools.gaf:lemma::well-formed-field-is-selected", "lemma", [wf], z3.InRe(s, z3.Concat(selre, z3.Star(z3.AllChar(z3.ReSort(z3.StringSort()))))))
    o2 = Oblig("gaftools.gaf:lemma::selected-field-splits-at-5-into-TAG:TYPE:-and-VALUE", "lemma",
               [z3.InRe(s, z3.Concat(selre, z3.Star(z3.AllChar(z3.ReSort(z3.StringSort())))))],
               z3.And(z3.Length(s) >= 5, z3.InRe(z3.SubString(s, 0, 5), selre),
                      z3.Concat(z3.SubString(s, 0, 5), z3.SubString(s, 5, z3.Length(s) - 5)) == s))
    for o in (o1, o2):
        o.inputs = [("field", __import__("pyvc.engine", fromlist=["Val"]).Val(s, TEXT))]
        outs.append(o)
    return outs


def register_printer(reg):
    reg.add(Contract(
        file=GAFPY, func="Alignment.__str__", params=dict(self=PathAlignment), returns=LINE, modifies=["self"], types=dict(STR=STR),
        ghost=dict(L12=LINE), locals=dict(line=LINE),
        requires=["forall(lambda t: implies(0 <= t < len(keys(self.tags)), keys(self.tags)[t] in self.tags))"],
        loops={1: Loop(index="it1", fingerprint="for k in self.tags.keys()", ghost_before="L12 = line", invariant={
            "len": "len(line) == 12 + it1",
            "prefix": "forall(lambda f: implies(0 <= f < 12, line[f] == L12[f]))",
            "tags": "forall(lambda t: implies(0 <= t < it1, line[12 + t] == cat(keys(self.tags)[t], self.tags[keys(self.tags)[t]])))",
        })},
        ensures={
            "twelve-columns": "result[0] == old(self).query_name and result[1] == str(old(self).query_length) and result[2] == str(old(self).query_start) and "
                              "result[3] == str(old(self).query_end) and result[4] == old(self).strand and result[5] == old(self).path and "
                              "result[6] == str(old(self).path_length) and result[7] == str(old(self).path_start) and result[8] == str(old(self).path_end) and "
                              "result[9] == str(old(self).residue_matches) and result[10] == str(old(self).alignment_block_length) and "
                              "result[11] == str(old(self).mapping_quality)",
            "one-field-per-tag-in-order": "len(result) == 12 + len(keys(self.tags)) and forall(lambda t: implies(0 <= t < len(keys(self.tags)), "
                                          "result[12 + t] == cat(keys(self.tags)[t], self.tags[keys(self.tags)[t]])))",
            "no-tag-invented-for-a-record-without-cigar": "implies(old(self).cigar == '' and not ('cg:Z:' in old(self).tags), same(keys(self.tags), keys(old(self).tags)))",
            "existing-tags-keep-their-place": "implies('cg:Z:' in old(self).tags, same(keys(self.tags), keys(old(self).tags)))",
            "only-cg-may-change": "forall(STR, lambda s: implies(s != 'cg:Z:', self.tags[s] == old(self).tags[s] and (s in self.tags) == (s in old(self).tags)))",
            "cg-is-the-cigar": "implies('cg:Z:' in self.tags and (old(self).cigar != '' or 'cg:Z:' in old(self).tags), self.tags['cg:Z:'] == old(self).cigar)",
        },
    ))
