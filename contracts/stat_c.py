"""Contracts for gaftools/cli/stat.py (C19)."""
from pyvc.api import *
from pyvc.engine import Val
from .types import *
from .phase_c import GAFObjP, PathAlignment
import z3

STAT = "gaftools/cli/stat.py"
ReadT = ObjT("Read", rname=STR, length=INT, aln_count=INT, highest_map_ratio=REAL, total_map_ratio=REAL, highest_seq_identity=REAL, total_seq_identity=REAL)


def _read_ctor(eng, args):
    name, ln, mr, si = args
    return dict(rname=name, length=ln, aln_count=Val(z3.IntVal(1), INT), highest_map_ratio=mr, total_map_ratio=mr, highest_seq_identity=si, total_seq_identity=si)


ReadT.construct = _read_ctor
I2 = TupleT(INT, INT)
OPS = {"del": "D", "ins": "I", "x": "X", "match": "="}

MACROS = {
    "rec": "lambda k: gaf_file.records[k]",
    "prim": "lambda k: gaf_file.records[k].is_primary and gaf_file.records[k].mapping_quality > 0",
    "runs": "lambda k: cigar_runs(gaf_file.records[k].cigar)",
    "npairs": "lambda k: len(cigar_runs(gaf_file.records[k].cigar)) // 2",
    "MR": "lambda k: fdiv(float(gaf_file.records[k].query_end - gaf_file.records[k].query_start), float(gaf_file.records[k].query_length))",
    "SI": "lambda k: fdiv(float(gaf_file.records[k].residue_matches), float(gaf_file.records[k].alignment_block_length))",
}

# ghost prefix arrays over the record list define the sums / counts (DESIGN 2.1 rule 1: ghost arrays instead of recursive functions)
GHOST = dict(NP=MapT(INT, INT), SB=MapT(INT, INT), SQ=MapT(INT, INT), PF=MapT(INT, INT), firstk=MapT(STR, INT), argmr=MapT(STR, INT), argsi=MapT(STR, INT))
DEFS = [
    "NP[0] == 0 and SB[0] == 0 and SQ[0] == 0 and PF[0] == 0",
    "forall(lambda k: implies(0 <= k < len(gaf_file.records), NP[k + 1] == NP[k] + ite(prim(k), 1, 0)))",
    "forall(lambda k: implies(0 <= k < len(gaf_file.records), SB[k + 1] == SB[k] + ite(prim(k), rec(k).residue_matches, 0)))",
    "forall(lambda k: implies(0 <= k < len(gaf_file.records), SQ[k + 1] == SQ[k] + ite(prim(k), rec(k).mapping_quality, 0)))",
    "forall(lambda k: implies(0 <= k < len(gaf_file.records), PF[k + 1] == PF[k] + ite(prim(k) and len(runs(k)) == 2, 1, 0)))",
]
CIG_INV_OUT, CIG_INV_IN, CIG_POST = {}, {}, {}
for nm, op in OPS.items():
    for suffix, cond in (("", "True"), ("_large", "int(runs(k)[2 * c]) >= 50")):
        g1, g2 = "C_%s%s" % (nm, suffix), "P_%s%s" % (nm, suffix)
        GHOST[g1] = MapT(INT, INT)   # per record prefix: runs of this op in the primary records among the first k
        GHOST[g2] = MapT(I2, INT)    # within record k: runs of this op among the first c (length, op) pairs
        DEFS.append("%s[0] == 0 and forall(lambda k: implies(0 <= k < len(gaf_file.records), %s[(k, 0)] == 0 and "
                    "%s[k + 1] == %s[k] + ite(prim(k), %s[(k, npairs(k))], 0)))" % (g1, g2, g1, g1, g2))
        DEFS.append("forall(lambda k, c: implies(0 <= k < len(gaf_file.records) and 0 <= c < npairs(k), %s[(k, c + 1)] == %s[(k, c)] + "
                    "ite(runs(k)[2 * c + 1] == '%s' and (%s), 1, 0)))" % (g2, g2, op, cond))
        var = "total_%s%s" % (nm, suffix)
        CIG_DEF_IDX = globals().setdefault("CIG_DEF_IDX", {})
        CIG_DEF_IDX[var] = (len(DEFS) - 2, len(DEFS) - 1)
        CIG_INV_OUT[var] = "implies(cigar_stat, %s == %s[it1])" % (var, g1)
        CIG_INV_IN[var] = "%s == %s[it1 - 1] + %s[(it1 - 1, it2)]" % (var, g1, g2)
        CIG_POST["cigar-" + var] = "implies(cigar_stat, %s == %s[len(gaf_file.records)])" % (var, g1)

COUNTERS = ["total_del", "total_ins", "total_x", "total_del_large", "total_ins_large", "total_x_large", "total_match", "total_match_large", "total_perfect"]

READS_INV = {
    "reads-are-the-primary-read-names": "forall(STR, lambda s: implies(s in reads, 0 <= firstk[s] < {n} and prim(firstk[s]) and rec(firstk[s]).query_name == s))",
    "every-primary-read-present": "forall(lambda k: implies(0 <= k < {n} and prim(k), rec(k).query_name in reads))",
    "best-map-ratio-is-an-upper-bound": "forall(lambda k: implies(0 <= k < {n} and prim(k), MR(k) <= reads[rec(k).query_name].highest_map_ratio))",
    "best-map-ratio-is-attained": "forall(STR, lambda s: implies(s in reads, 0 <= argmr[s] < {n} and prim(argmr[s]) and rec(argmr[s]).query_name == s and reads[s].highest_map_ratio == MR(argmr[s])))",
    "best-identity-is-an-upper-bound": "forall(lambda k: implies(0 <= k < {n} and prim(k), SI(k) <= reads[rec(k).query_name].highest_seq_identity))",
    "best-identity-is-attained": "forall(STR, lambda s: implies(s in reads, 0 <= argsi[s] < {n} and prim(argsi[s]) and rec(argsi[s]).query_name == s and reads[s].highest_seq_identity == SI(argsi[s])))",
}


def fmt(d, n):
    return {k: v.format(n=n) for k, v in d.items()}


def register(reg):
    base_inv = {
        "total-is-primary-plus-secondary": "total_primary + total_secondary == {n}",
        "primary-count": "total_primary == NP[{n}]",
        "aligned-bases": "total_aligned_bases == SB[{n}]",
        "mapq-sum": "total_mapq == SQ[{n}]",
        "perfect": "implies(cigar_stat, total_perfect == PF[{n}])",
    }
    reg.add(Contract(
        file=STAT, func="run_stat", variant="#loop", fragment=("alignment_count = 0", 2),
        params=dict(gaf_file=GAFObjP, cigar_stat=BOOL, total_aligned_bases=INT, total_mapq=INT, total_primary=INT, total_secondary=INT,
                    reads=DictT(STR, ReadT), **{c: INT for c in COUNTERS}),
        types=dict(STR=STR, Read=ReadT), ufuns={"cigar_runs": ([STR], LINE), "fdiv": ([REAL, REAL], REAL)}, modifies=["reads"],
        ghost=GHOST, spec_funcs=MACROS, locals=dict(alignment_count=INT),
        requires=DEFS + [
            "total_aligned_bases == 0 and total_mapq == 0 and total_primary == 0 and total_secondary == 0",
            " and ".join("%s == 0" % c for c in COUNTERS),
            "forall(STR, lambda s: not (s in reads))",
            "forall(lambda k: implies(0 <= k < len(gaf_file.records), rec(k).query_length != 0 and rec(k).alignment_block_length != 0 and len(runs(k)) >= 0))",
        ],
        loops={
            1: Loop(index="it1", fingerprint="for alignment_count, mapping in enumerate(",
                    # the CIGAR counters: preserved from the inner loop's invariant at its exit, the defining clauses of the two ghost prefix arrays
                    # and the quantifier-free path facts
                    pres_from={v: ["all-pairs-counted", "loop2:" + v, "loop2:pairs", "loop1:" + v, "requires:%d" % CIG_DEF_IDX[v][0], "requires:%d" % CIG_DEF_IDX[v][1]]
                               for v in CIG_DEF_IDX},
                    invariant=dict(
                list(fmt(base_inv, "it1").items()) + list(fmt(READS_INV, "it1").items()) + list(CIG_INV_OUT.items())
                + [("count-variable", "alignment_count == it1")])),
            # the inner loop only touches the CIGAR counters: everything else persists as facts about unmodified variables
            2: Loop(index="it2", fingerprint="for cnt in range(0, len(all_cigars) - 1, 2)", invariant=dict(
                list(CIG_INV_IN.items()) + [("pairs", "0 <= it2 <= npairs(it1 - 1)")]),
                hints=["same(mapping, rec(it1 - 1)) and same(all_cigars, runs(it1 - 1))"]),
        },
        assert_at={"after:for cnt in range(0, len(all_cigars) - 1, 2)": {"all-pairs-counted": "it2 == npairs(it1 - 1)"}},
        ghost_at={
            "after:reads[mapping.query_name] = Read(": "firstk[mapping.query_name] = it1 - 1\nargmr[mapping.query_name] = it1 - 1\nargsi[mapping.query_name] = it1 - 1",
            "after:reads[mapping.query_name].highest_map_ratio = map_ratio": "argmr[mapping.query_name] = it1 - 1",
            "after:reads[mapping.query_name].highest_seq_identity = seq_identity": "argsi[mapping.query_name] = it1 - 1",
        },
        ensures=dict(list(fmt(base_inv, "len(gaf_file.records)").items()) + list(fmt(READS_INV, "len(gaf_file.records)").items()) + list(CIG_POST.items())
                     + [("total-is-the-number-of-records", "alignment_count == len(gaf_file.records)")]),
    ))


def register_averages(reg):
    # the tail of run_stat that turns the per-read maxima into the two averages: sums over the reads in iteration order (ghost prefix sums AI / AM over
    # the ghost enumeration rk0 of the dict's keys), divided by the number of reads when there is one; no division when there is none
    reg.add(Contract(
        file=STAT, func="run_stat", variant="#averages", fragment=("avg_highest_seq_identity = 0.0", 4),
        params=dict(reads=DictT(STR, ReadT)), ufuns={"fdiv": ([REAL, REAL], REAL)}, returns=NONE,
        ghost=dict(rk0=ListT(STR), AI=MapT(INT, REAL), AM=MapT(INT, REAL)), locals=dict(avg_highest_seq_identity=REAL, avg_highest_map_ratio=REAL),
        outputs=["avg_highest_seq_identity", "avg_highest_map_ratio"],
        ghost_at={"before:for k, v in reads.items()": "rk0 = keys(reads)"},
        assume_at={"before:for k, v in reads.items()": [
            # DEFINITION of the ghost prefix sums over the enumeration of the reads
            "AI[0] == 0.0 and AM[0] == 0.0",
            "forall(lambda t: implies(0 <= t < len(rk0), AI[t + 1] == AI[t] + reads[rk0[t]].highest_seq_identity and AM[t + 1] == AM[t] + reads[rk0[t]].highest_map_ratio))"]},
        loops={1: Loop(index="it1", fingerprint="for k, v in reads.items()", invariant={
            "identity-sum": "avg_highest_seq_identity == AI[it1]", "ratio-sum": "avg_highest_map_ratio == AM[it1]"})},
        ensures={
            "averages-over-the-reads": "implies(len(rk0) > 0, avg_highest_seq_identity == fdiv(AI[len(rk0)], float(len(rk0))) and "
                                       "avg_highest_map_ratio == fdiv(AM[len(rk0)], float(len(rk0))))",
            "zero-without-reads": "implies(len(rk0) == 0, avg_highest_seq_identity == 0.0 and avg_highest_map_ratio == 0.0)",
        },
        notes="float addition / division read as real arithmetic (fdiv uninterpreted); the safety obligation of the division is that it is never by zero",
    ))
