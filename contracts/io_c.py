"""Assumed contracts of the file handles (reader / writer), DESIGN.md 3.5.  Trusted: never verified, listed in the evidence."""
from pyvc.api import *
from .types import *

Reader = ObjT("Reader", pos=INT, lines=ListT(STR), offs=MapT(INT, INT), idx=MapT(INT, INT))
READER_WF = [
    "0 <= {r}.pos <= len({r}.lines)",
    "forall(lambda j, k: implies(0 <= j < k <= len({r}.lines), {r}.offs[j] < {r}.offs[k]))",
    "forall(lambda k: implies(0 <= k <= len({r}.lines), {r}.idx[{r}.offs[k]] == k))",
    "forall(lambda k: implies(0 <= k < len({r}.lines), {r}.lines[k] != ''))",
]
FRAME = "same(self.lines, old(self).lines) and self.offs == old(self).offs and self.idx == old(self).idx"


def reader_wf(r):
    return [x.format(r=r) for x in READER_WF]


def register(reg):
    reg.add(Contract(file="(assumed)/reader.py", func="Reader.tell", params=dict(self=Reader), returns=INT, trusted=True,
                     ensures={"offset-of-next-record": "result == self.offs[self.pos]"}))
    reg.add(Contract(file="(assumed)/reader.py", func="Reader.readline", params=dict(self=Reader), returns=STR, trusted=True, modifies=["self"],
                     ensures={"next-record-or-empty": "result == ite(old(self).pos < len(old(self).lines), old(self).lines[old(self).pos], '')",
                              "advances": "self.pos == ite(old(self).pos < len(old(self).lines), old(self).pos + 1, old(self).pos)", "frame": FRAME}))
    reg.add(Contract(file="(assumed)/reader.py", func="Reader.seek", params=dict(self=Reader, offset=INT), trusted=True, modifies=["self"],
                     requires=["0 <= self.idx[offset] <= len(self.lines) and self.offs[self.idx[offset]] == offset"],
                     ensures={"positioned": "self.pos == self.idx[offset]", "frame": FRAME}))
    reg.add(Contract(file="(assumed)/reader.py", func="Reader.close", params=dict(self=Reader), trusted=True))


# ---- C17: every consumer touches the handle only through the abstract reader interface ---------------------------------------------
HANDLE_USERS = [
    ("gaftools/cli/index.py", "run", ["gaf_file"]),
    ("gaftools/cli/sort.py", "sort", ["reader"]),
    ("gaftools/gaf.py", "GAF.read_file", ["self.file"]),
    ("gaftools/gaf.py", "GAF.read_line", ["self.file"]),
    ("gaftools/gaf.py", "GAF.close", ["self.file"]),
    ("gaftools/cli/view.py", "run", ["gaf.file"]),
]
ALLOWED = {"tell", "readline", "seek", "close"}


def handle_usage_lemma(reg, repo):
    """syntactic frame obligation: the file handle is used only via tell/readline/seek/close, plain iteration, or as an argument of
    isinstance(); so every postcondition stated against the abstract reader contract holds for ANY handle satisfying that contract
    (text file, BGZFile)"""
    import ast
    import z3
    from pyvc.engine import load_function, Oblig, Unsupported
    outs = []
    for file, func, names in HANDLE_USERS:
        try:
            fn, mod, src = load_function(repo, file, func)
        except Exception as e:  # noqa
            # the function is gone or renamed: the frame argument cannot be made (undecided, exit 2) - not by itself a violation
            raise Unsupported("handle-usage lemma: cannot load %s:%s (%s)" % (file, func, e))
        bad = []
        for n in ast.walk(fn):
            if isinstance(n, ast.Attribute) and ast.unparse(n.value) in names:
                if n.attr not in ALLOWED:
                    bad.append("%s.%s (line %d)" % (ast.unparse(n.value), n.attr, n.lineno))
            elif isinstance(n, (ast.Name, ast.Attribute)) and ast.unparse(n) in names:
                pass
        if bad:
            # another method of the handle is used: the abstract reader contract no longer covers the function, so independence of the compression
            # is undecided here (exit 2) and left to the bounded engine; using e.g. read() is not by itself a violation (DESIGN 13.8)
            raise Unsupported("handle-usage lemma: %s uses the file handle through %s, outside tell/readline/seek/close/iteration" % (func, "; ".join(bad)))
        # bare uses: allowed as iteration source, assignment target/source of the handle itself, and call receiver
        o = Oblig("%s:%s::usage::handle-used-only-through-tell-readline-seek-close-iteration%s" % (
            file[:-3].replace("/", "."), func, ("[" + "; ".join(bad) + "]") if bad else ""), "lemma", [], z3.BoolVal(not bad))
        o.inputs = []
        outs.append(o)
    return outs
