"""Assumed contracts of the file handles (reader / writer), DESIGN.md 3.5.  Trusted: never verified, listed in the evidence."""
from pyvc.api import *
from .types import *

Reader = ObjT("Reader", pos=INT, lines=ListT(STR), offs=MapT(INT, INT), idx=MapT(INT, INT))
READER_WF = [
    "0 <= {r}.pos <= len({r}.lines)",
    "forall(lambda j, k: implies(0 <= j < k <= len({r}.lines), {r}.offs[j] < {r}.offs[k]))",
    "forall(lambda k: implies(0 <= k <= len({r}.lines), {r}.idx[{r}.offs[k]] == k))",
    "forall(lambda k: implies(0 <= k < len({r}.lines), {r}.lines[k] != ''))",
]
FRAME = "self.lines == old(self).lines and self.offs == old(self).offs and self.idx == old(self).idx"


def reader_wf(r):
    return [x.format(r=r) for x in READER_WF]


def register(reg):
    reg.add(Contract(file="(assumed)/reader.py", func="Reader.tell", params=dict(self=Reader), returns=INT, trusted=True,
                     ensures={"offset-of-next-record": "result == self.offs[self.pos]"}))
    reg.add(Contract(file="(assumed)/reader.py", func="Reader.readline", params=dict(self=Reader), returns=STR, trusted=True, modifies=["self"],
                     ensures={"next-record-or-empty": "result == ite(old(self).pos < len(old(self).lines), old(self).lines[old(self).pos], '')",
                              "advances": "self.pos == ite(old(self).pos < len(old(self).lines), old(self).pos + 1, old(self).pos)", "frame": FRAME}))
    reg.add(Contract(file="(assumed)/reader.py", func="Reader.seek", params=dict(self=Reader, offset=INT), trusted=True, modifies=["self"],
                     requires=["0 <= self.idx[offset] <= len(self.lines) and self.offs[self.idx[offset]] == offset"],
                     ensures={"positioned": "self.pos == self.idx[offset]", "frame": FRAME}))
    reg.add(Contract(file="(assumed)/reader.py", func="Reader.close", params=dict(self=Reader), trusted=True))
