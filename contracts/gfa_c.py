"""Contracts for gaftools/gfa.py (C14, C15, C07)."""
import z3
from pyvc.api import *
from pyvc.engine import Val, Oblig, State, SpecEnv, Engine
from .types import *

GFA = "gaftools/gfa.py"

ADJ = "lambda g, a, side: ite(side == 1, g.nodes[a].end, g.nodes[a].start)"
# walking a in orientation o1 leaves through a's end (1) for '>' and through its start (0) for '<';
# entering b in orientation o2 arrives at b's start (0) for '>' and at its end (1) for '<'    (GFA link semantics)
EXIT = "lambda o: ite(o == '>', 1, 0)"
ENTRY = "lambda o: ite(o == '>', 0, 1)"
STEP_OK = ("lambda g, p, j: exists(lambda ov: (str_tail(p[j]), ite(str_head(p[j]) == '>', 0, 1), ov) in "
           "ite(ite(str_head(p[j - 1]) == '>', 1, 0) == 1, g.nodes[str_tail(p[j - 1])].end, g.nodes[str_tail(p[j - 1])].start))")
STR_UF = {"str_head": ([STR], STR), "str_tail": ([STR], STR)}

# representation invariant of the adjacency (C15): symmetric between the two ends of every link, no dangling ids.
# Stated per pair of sides (no if-then-else over the side) so that the quantifiers have clean triggers.
FLD = {0: "start", 1: "end"}


def wf_sym(g):
    out = {}
    for sa in (0, 1):
        for sb in (0, 1):
            out["wf-sym-%s-%s" % (FLD[sa], FLD[sb])] = (
                "forall([STR, STR, INT], lambda a, b, ov: implies(a in {g}.nodes and b in {g}.nodes, "
                "((b, {sb}, ov) in {g}.nodes[a].{fa}) == ((a, {sa}, ov) in {g}.nodes[b].{fb})))").format(g=g, sa=sa, sb=sb, fa=FLD[sa], fb=FLD[sb])
    return out


def wf_closed(g):
    out = {}
    for sa in (0, 1):
        out["wf-closed-%s" % FLD[sa]] = (
            "forall([STR, STR, INT, INT], lambda a, b, sb, ov: implies(a in {g}.nodes and (b, sb, ov) in {g}.nodes[a].{fa}, "
            "b in {g}.nodes and (sb == 0 or sb == 1)))").format(g=g, fa=FLD[sa])
    return out


def wf(g):
    return list(wf_sym(g).values()) + list(wf_closed(g).values())


def exact_change(kind, n1, s1, n2, s2, ov):
    """adjacency after adding (kind='add') / removing the link between side s1 of n1 and side s2 of n2, per side of a"""
    out = {}
    for sa in (0, 1):
        hit = ("(a == {n1} and {s1} == {sa} and b == {n2} and sb == {s2} and ov == {ov}) or "
               "(a == {n2} and {s2} == {sa} and b == {n1} and sb == {s1} and ov == {ov})").format(n1=n1, n2=n2, s1=s1, s2=s2, ov=ov, sa=sa)
        body = ("((b, sb, ov) in old(self).nodes[a].{fa}) or " + hit) if kind == "add" else ("((b, sb, ov) in old(self).nodes[a].{fa}) and not (" + hit + ")")
        out["exactly-this-link-%s-%s" % ("added" if kind == "add" else "removed", FLD[sa])] = (
            "forall([STR, STR, INT, INT], lambda a, b, sb, ov: implies(a in self.nodes, ((b, sb, ov) in self.nodes[a].{fa}) == (" + body + ")))").format(fa=FLD[sa])
    return out


def E_DIR_value(eng):
    kt, vt = TupleT(STR, STR), TupleT(INT, INT)
    ty = DictT(kt, vt)
    t = ty.empty()
    from pyvc.engine import StrV
    for (a, b), (x, y) in {("+", "+"): (1, 0), ("+", "-"): (1, 1), ("-", "+"): (0, 0), ("-", "-"): (0, 1)}.items():
        t = ty.store(t, kt.mk([StrV(a).t, StrV(b).t]), vt.mk([z3.IntVal(x), z3.IntVal(y)]))
    return Val(t, ty)


def check_E_DIR_matches_source(repo):
    """the module-level constant is re-read from the working tree on every run (it is data the contracts depend on)"""
    import ast, os
    src = open(os.path.join(repo, GFA)).read()
    for n in ast.parse(src).body:
        if isinstance(n, ast.Assign) and isinstance(n.targets[0], ast.Name) and n.targets[0].id == "E_DIR":
            return ast.literal_eval(n.value)
    return None


def register(reg):
    types = dict(STR=STR, INT=INT)
    for meth, fld, op in (("add_from_start", "start", "add"), ("add_from_end", "end", "add"),
                          ("remove_from_start", "start", "remove"), ("remove_from_end", "end", "remove")):
        reg.add(Contract(
            file=GFA, func="Node." + meth, params=dict(self=Node, neighbor=STR, side=INT, overlap=INT), modifies=["self"],
            types=types, requires=["side == 0 or side == 1"],
            ensures={
                "set-updated": "forall([STR, INT, INT], lambda b, s, ov: ((b, s, ov) in self.%s) == (%s))" % (
                    fld, "(b == neighbor and s == side and ov == overlap) or (b, s, ov) in old(self).%s" % fld if op == "add"
                    else "not (b == neighbor and s == side and ov == overlap) and (b, s, ov) in old(self).%s" % fld),
                "frame": "self.%s == old(self).%s and self.id == old(self).id and self.seq == old(self).seq and self.tags == old(self).tags "
                         "and self.seq_len == old(self).seq_len and self.visited == old(self).visited" % (("end", "end") if fld == "start" else ("start", "start")),
            },
        ))
    reg.add(Contract(
        file=GFA, func="GFA.add_edge",
        params=dict(self=GFAT, node1=STR, node1_dir=STR, node2=STR, node2_dir=STR, overlap=INT, tags=ListT(STR)),
        modifies=["self"], types=types, module_env={"E_DIR": E_DIR_value},
        spec_funcs={"adj": ADJ, "d1": "lambda: ite(old(node1_dir) == '+', 1, 0)", "d2": "lambda: ite(old(node2_dir) == '+', 0, 1)"},
        requires=["node1 in self.nodes and node2 in self.nodes", "node1_dir == '+' or node1_dir == '-'", "node2_dir == '+' or node2_dir == '-'"] + wf("self"),
        ensures=dict(
            [("same-node-set", "forall(STR, lambda a: (a in self.nodes) == (a in old(self).nodes))")]
            + list(exact_change("add", "old(node1)", "d1()", "old(node2)", "d2()", "overlap").items())
            + [(k, dict(expr=v, **{"from": ["same-node-set", "exactly-this-link-added-start", "exactly-this-link-added-end"]}))
               for k, v in list(wf_sym("self").items()) + list(wf_closed("self").items())]),
    ))
    reg.add(Contract(
        file=GFA, func="GFA.remove_edge",
        params=dict(self=GFAT, edge=TupleT(STR, INT, STR, INT, INT)), modifies=["self"], types=types,
        spec_funcs={"adj": ADJ},
        requires=["edge[0] in self.nodes and edge[2] in self.nodes", "(edge[1] == 0 or edge[1] == 1) and (edge[3] == 0 or edge[3] == 1)"] + wf("self"),
        ensures=dict(
            [("same-node-set", "forall(STR, lambda a: (a in self.nodes) == (a in old(self).nodes))")]
            + list(exact_change("remove", "edge[0]", "edge[1]", "edge[2]", "edge[3]", "edge[4]").items())
            + [(k, dict(expr=v, **{"from": ["same-node-set", "exactly-this-link-removed-start", "exactly-this-link-removed-end"]}))
               for k, v in list(wf_sym("self").items()) + list(wf_closed("self").items())]),
    ))
    reg.add(Contract(
        file=GFA, func="GFA.path_exists",
        params=dict(self=GFAT, ordered_path=ListT(STR)), returns=BOOL, types=types, ufuns=STR_UF,
        spec_funcs={"step_ok": STEP_OK},
        locals=dict(ok=BOOL),
        requires=[
            "forall(lambda j: implies(0 <= j < len(ordered_path), (str_head(ordered_path[j]) == '>' or str_head(ordered_path[j]) == '<') and str_tail(ordered_path[j]) in self.nodes))",
        ],
        loops={
            1: Loop(index="it1", fingerprint="range(1, len(ordered_path))", invariant={
                "all-steps-so-far": "forall(lambda j: implies(1 <= j <= it1, step_ok(self, ordered_path, j)))",
            }),
            2: Loop(index="it2", seq_name="edgeseq", fingerprint="for edge in getattr", invariant={
                "ok-iff-seen": "ok == exists(lambda t: 0 <= t < it2 and edgeseq[t][0] == str_tail(n2) and edgeseq[t][1] == case[1])",
            }),
        },
        ensures={
            "true-iff-every-step-is-a-link": "result == forall(lambda j: implies(1 <= j < len(ordered_path), step_ok(self, ordered_path, j)))",
        },
    ))


    # write_gfa: the orientation signs written on an L line decode (through E_DIR) to the sides stored in the adjacency
    for occ, side, fld in ((0, 0, "start"), (1, 1, "end")):
        reg.add(Contract(
            file=GFA, func="GFA.write_gfa", variant="#L-line-from-%s" % fld, fragment=("if n[1] == 0:", 1, occ),
            params=dict(n=Edge, n1=STR, overlap=STR, tags=ListT(STR), edges=ListT(LINE)), module_env={"E_DIR": E_DIR_value}, modifies=["edges"],
            locals=dict(edge=LINE), requires=["n[1] == 0 or n[1] == 1"],
            ensures={
                "one-line-appended": "len(edges) == len(old(edges)) + 1 and forall(lambda k: implies(0 <= k < len(old(edges)), edges[k] == old(edges)[k]))",
                "fields": "len(edges[len(edges) - 1]) == 6 + len(tags) and edges[len(edges) - 1][0] == 'L' and edges[len(edges) - 1][1] == n1 "
                          "and edges[len(edges) - 1][3] == n[0] and edges[len(edges) - 1][5] == overlap",
                "signs-decode-to-the-stored-sides": "(edges[len(edges) - 1][2], edges[len(edges) - 1][4]) in E_DIR and "
                                                    "E_DIR[(edges[len(edges) - 1][2], edges[len(edges) - 1][4])] == (%d, n[1])" % side,
                "tags-follow": "forall(lambda k: implies(0 <= k < len(tags), edges[len(edges) - 1][6 + k] == tags[k]))",
            },
        ))


FILES = [GFA]


def lemma_reversal(reg, repo):
    """C14: under the adjacency invariant, a step (a,o1)->(b,o2) is a link iff the reversed step (b,flip o2)->(a,flip o1) is."""
    con = reg.by_key[(GFA, "GFA.add_edge")]
    eng = Engine(con, reg, repo)
    st = State()
    g = Val(z3.Const("lem_g", GFAT.sort()), GFAT)
    names = {}
    for nm, ty in (("a", STR), ("b", STR), ("o1", STR), ("o2", STR), ("ov", INT)):
        names[nm] = Val(z3.Const("lem_" + nm, ty.sort()), ty)
    st.env = dict(self=g, **names)
    st.old = dict(st.env)
    sp = SpecEnv(eng, con, None)
    hyps = [sp.ev_bool(w, st) for w in wf("self")]
    hyps.append(sp.ev_bool("a in self.nodes and b in self.nodes and (o1 == '>' or o1 == '<') and (o2 == '>' or o2 == '<')", st))
    fwd = "(b, ite(o2 == '>', 0, 1), ov) in adj(self, a, ite(o1 == '>', 1, 0))"
    # reversed walk: b traversed in flip(o2), then a in flip(o1)
    bwd = "(a, ite(ite(o1 == '>', '<', '>') == '>', 0, 1), ov) in adj(self, b, ite(ite(o2 == '>', '<', '>') == '>', 1, 0))"
    goal = sp.ev_bool("(%s) == (%s)" % (fwd, bwd), st)
    o = Oblig("gaftools.gfa:lemma::reversed-step-is-a-link-iff-step-is", "lemma", hyps, goal)
    o.inputs = []
    outs = [o]
    # the E_DIR table in the source is the one the contracts assume
    tab = check_E_DIR_matches_source(repo)
    want = {("+", "+"): (1, 0), ("+", "-"): (1, 1), ("-", "+"): (0, 0), ("-", "-"): (0, 1)}
    o2 = Oblig("gaftools.gfa:lemma::E_DIR-table-as-assumed", "lemma", [], z3.BoolVal(tab == want))
    o2.inputs = []
    outs.append(o2)
    return outs


# ---- get_path: the per-contig segment lists handed to search_intervals are sorted by SO (boundary precondition of C01/C03) ---------
_C2N = DictT(STR, ListT(STR))


def _empty_list_default(eng):
    return Val(ListT(STR).empty(), ListT(STR))


_C2N.default = _empty_list_default
GFAPath = ObjT("GFA", nodes=DictT(STR, Node), contig_to_nodes=_C2N)
GFAPath.name = "Obj<GFAPathView>"


def register_get_path(reg):
    reg.add(Contract(file=GFA, func="GFA.list_is_path", params=dict(self=GFAPath, node_list=ListT(STR)), returns=BOOL, trusted=True, variant="#caller",
                     notes="caller view: any boolean (whether the sorted segments happen to be linked in a row)"))
    reg.add(Contract(
        file=GFA, func="GFA.get_path", params=dict(self=GFAPath, chrom=STR, throw_warning=BOOL), returns=ListT(STR),
        ghost=dict(sort_perm=MapT(INT, INT), sort_perm_inv=MapT(INT, INT)),
        spec_funcs={"so": "lambda x: int(self.nodes[x].tags['SO'][1])", "segs": "lambda: self.contig_to_nodes[chrom]"},
        requires=["chrom in self.contig_to_nodes"],
        ensures={
            "sorted-by-SO": "forall(lambda i, j: implies(0 <= i < j < len(result), so(result[i]) <= so(result[j])))",
            "all-segments-of-the-contig-when-not-strict": "implies(not throw_warning, len(result) == len(segs()) and "
                                                          "forall(lambda i: implies(0 <= i < len(segs()), 0 <= sort_perm[i] < len(result) and result[sort_perm[i]] == segs()[i])))",
            "empty-or-all-segments": "len(result) == 0 or len(result) == len(segs())",
        },
    ))
