"""Contracts for gaftools/gfa.py (C14, C15, C07)."""
import z3
from pyvc.api import *
from pyvc.engine import Val, Oblig, State, SpecEnv, Engine
from .types import *

GFA = "gaftools/gfa.py"

ADJ = "lambda g, a, side: ite(side == 1, g.nodes[a].end, g.nodes[a].start)"
# walking a in orientation o1 leaves through a's end (1) for '>' and through its start (0) for '<';
# entering b in orientation o2 arrives at b's start (0) for '>' and at its end (1) for '<'    (GFA link semantics)
EXIT = "lambda o: ite(o == '>', 1, 0)"
ENTRY = "lambda o: ite(o == '>', 0, 1)"
STEP_OK = ("lambda g, p, j: exists(lambda ov: (str_tail(p[j]), ite(str_head(p[j]) == '>', 0, 1), ov) in "
           "ite(ite(str_head(p[j - 1]) == '>', 1, 0) == 1, g.nodes[str_tail(p[j - 1])].end, g.nodes[str_tail(p[j - 1])].start))")
STR_UF = {"str_head": ([STR], STR), "str_tail": ([STR], STR)}

# representation invariant of the adjacency (C15): symmetric between the two ends of every link, no dangling ids.
# Stated per pair of sides (no if-then-else over the side) so that the quantifiers have clean triggers.
FLD = {0: "start", 1: "end"}


def wf_sym(g):
    out = {}
    for sa in (0, 1):
        for sb in (0, 1):
            out["wf-sym-%s-%s" % (FLD[sa], FLD[sb])] = (
                "forall([STR, STR, INT], lambda a, b, ov: implies(a in {g}.nodes and b in {g}.nodes, "
                "((b, {sb}, ov) in {g}.nodes[a].{fa}) == ((a, {sa}, ov) in {g}.nodes[b].{fb})))").format(g=g, sa=sa, sb=sb, fa=FLD[sa], fb=FLD[sb])
    return out


def wf_closed(g):
    out = {}
    for sa in (0, 1):
        out["wf-closed-%s" % FLD[sa]] = (
            "forall([STR, STR, INT, INT], lambda a, b, sb, ov: implies(a in {g}.nodes and (b, sb, ov) in {g}.nodes[a].{fa}, "
            "b in {g}.nodes and (sb == 0 or sb == 1)))").format(g=g, fa=FLD[sa])
    return out


def wf(g):
    return list(wf_sym(g).values()) + list(wf_closed(g).values())


# link tags are only stored for links that exist (key = (node, side, node, side) of the declaring end)
TAGS_INV = ("forall(EKEY, lambda k: implies(k in {g}.edge_tags, k[0] in {g}.nodes and (k[1] == 0 or k[1] == 1) and "
            "(k[2], k[3], tagov[k]) in ite(k[1] == 1, {g}.nodes[k[0]].end, {g}.nodes[k[0]].start)))")
# tagov: ghost witness, the overlap of a link that carries the tags stored under key k


def exact_change(kind, n1, s1, n2, s2, ov):
    """adjacency after adding (kind='add') / removing the link between side s1 of n1 and side s2 of n2, per side of a"""
    out = {}
    for sa in (0, 1):
        hit = ("(a == {n1} and {s1} == {sa} and b == {n2} and sb == {s2} and ov == {ov}) or "
               "(a == {n2} and {s2} == {sa} and b == {n1} and sb == {s1} and ov == {ov})").format(n1=n1, n2=n2, s1=s1, s2=s2, ov=ov, sa=sa)
        body = ("((b, sb, ov) in old(self).nodes[a].{fa}) or " + hit) if kind == "add" else ("((b, sb, ov) in old(self).nodes[a].{fa}) and not (" + hit + ")")
        out["exactly-this-link-%s-%s" % ("added" if kind == "add" else "removed", FLD[sa])] = (
            "forall([STR, STR, INT, INT], lambda a, b, sb, ov: implies(a in self.nodes, ((b, sb, ov) in self.nodes[a].{fa}) == (" + body + ")))").format(fa=FLD[sa])
    return out


def E_DIR_value(eng):
    kt, vt = TupleT(STR, STR), TupleT(INT, INT)
    ty = DictT(kt, vt)
    t = ty.empty()
    from pyvc.engine import StrV
    for (a, b), (x, y) in {("+", "+"): (1, 0), ("+", "-"): (1, 1), ("-", "+"): (0, 0), ("-", "-"): (0, 1)}.items():
        t = ty.store(t, kt.mk([StrV(a).t, StrV(b).t]), vt.mk([z3.IntVal(x), z3.IntVal(y)]))
    return Val(t, ty)


def check_E_DIR_matches_source(repo):
    """the module-level constant is re-read from the working tree on every run (it is data the contracts depend on)"""
    import ast, os
    src = open(os.path.join(repo, GFA)).read()
    for n in ast.parse(src).body:
        if isinstance(n, ast.Assign) and isinstance(n.targets[0], ast.Name) and n.targets[0].id == "E_DIR":
            return ast.literal_eval(n.value)
    return None


def register(reg):
    types = dict(STR=STR, INT=INT, EKEY=EdgeKey)
    for meth, fld, op in (("add_from_start", "start", "add"), ("add_from_end", "end", "add"),
                          ("remove_from_start", "start", "remove"), ("remove_from_end", "end", "remove")):
        reg.add(Contract(
            file=GFA, func="Node." + meth, params=dict(self=Node, neighbor=STR, side=INT, overlap=INT), modifies=["self"],
            types=types, requires=["side == 0 or side == 1"],
            ensures={
                "set-updated": "forall([STR, INT, INT], lambda b, s, ov: ((b, s, ov) in self.%s) == (%s))" % (
                    fld, "(b == neighbor and s == side and ov == overlap) or (b, s, ov) in old(self).%s" % fld if op == "add"
                    else "not (b == neighbor and s == side and ov == overlap) and (b, s, ov) in old(self).%s" % fld),
                "frame": "self.%s == old(self).%s and self.id == old(self).id and self.seq == old(self).seq and self.tags == old(self).tags "
                         "and self.seq_len == old(self).seq_len and self.visited == old(self).visited" % (("end", "end") if fld == "start" else ("start", "start")),
            },
        ))
    reg.add(Contract(
        file=GFA, func="GFA.add_edge",
        params=dict(self=GFAT, node1=STR, node1_dir=STR, node2=STR, node2_dir=STR, overlap=INT, tags=ListT(STR)),
        modifies=["self"], types=types, module_env={"E_DIR": E_DIR_value}, ghost=dict(tagov=MapT(EdgeKey, INT)),
        ghost_at={"after:self.edge_tags[": "tagov[(node1, node1_dir, node2, node2_dir)] = overlap"},
        spec_funcs={"adj": ADJ, "d1": "lambda: ite(old(node1_dir) == '+', 1, 0)", "d2": "lambda: ite(old(node2_dir) == '+', 0, 1)"},
        requires=["node1 in self.nodes and node2 in self.nodes", "node1_dir == '+' or node1_dir == '-'", "node2_dir == '+' or node2_dir == '-'"] + wf("self") + [TAGS_INV.format(g="self")],
        ensures=dict(
            [("same-node-set", "forall(STR, lambda a: (a in self.nodes) == (a in old(self).nodes))")]
            + list(exact_change("add", "old(node1)", "d1()", "old(node2)", "d2()", "overlap").items())
            + [("link-tags-stored-under-the-declaring-end", "implies(len(tags) > 0, (old(node1), d1(), old(node2), d2()) in self.edge_tags and "
                                                            "same(self.edge_tags[(old(node1), d1(), old(node2), d2())], tags))"),
               ("other-link-tags-kept", "forall(EKEY, lambda k: implies(k != (old(node1), d1(), old(node2), d2()) or len(tags) == 0, "
                                        "(k in self.edge_tags) == (k in old(self).edge_tags) and implies(k in self.edge_tags, same(self.edge_tags[k], old(self).edge_tags[k]))))"),
               ("link-tags-only-for-existing-links", dict(expr=TAGS_INV.format(g="self"), **{"from": [
                   "same-node-set", "exactly-this-link-added-start", "exactly-this-link-added-end", "link-tags-stored-under-the-declaring-end", "other-link-tags-kept"]}))]
            + [(k, dict(expr=v, **{"from": ["same-node-set", "exactly-this-link-added-start", "exactly-this-link-added-end"]}))
               for k, v in list(wf_sym("self").items()) + list(wf_closed("self").items())]),
    ))
    reg.add(Contract(
        file=GFA, func="GFA.remove_edge",
        params=dict(self=GFAT, edge=TupleT(STR, INT, STR, INT, INT)), modifies=["self"], types=types, ghost=dict(tagov=MapT(EdgeKey, INT)),
        spec_funcs={"adj": ADJ},
        requires=["edge[0] in self.nodes and edge[2] in self.nodes", "(edge[1] == 0 or edge[1] == 1) and (edge[3] == 0 or edge[3] == 1)"] + wf("self") + [TAGS_INV.format(g="self")],
        ensures=dict(
            [("same-node-set", "forall(STR, lambda a: (a in self.nodes) == (a in old(self).nodes))")]
            + list(exact_change("remove", "edge[0]", "edge[1]", "edge[2]", "edge[3]", "edge[4]").items())
            + [("link-tags-forgotten-under-both-keys", "(edge[0], edge[1], edge[2], edge[3]) not in self.edge_tags and (edge[2], edge[3], edge[0], edge[1]) not in self.edge_tags"),
               ("other-link-tags-kept", "forall(EKEY, lambda k: implies(k != (edge[0], edge[1], edge[2], edge[3]) and k != (edge[2], edge[3], edge[0], edge[1]), "
                                        "(k in self.edge_tags) == (k in old(self).edge_tags) and implies(k in self.edge_tags, same(self.edge_tags[k], old(self).edge_tags[k]))))"),
               ("link-tags-only-for-existing-links", dict(expr=TAGS_INV.format(g="self"), **{"from": [
                   "same-node-set", "exactly-this-link-removed-start", "exactly-this-link-removed-end", "link-tags-forgotten-under-both-keys", "other-link-tags-kept"]}))]
            + [(k, dict(expr=v, **{"from": ["same-node-set", "exactly-this-link-removed-start", "exactly-this-link-removed-end"]}))
               for k, v in list(wf_sym("self").items()) + list(wf_closed("self").items())]),
    ))
    reg.add(Contract(
        file=GFA, func="GFA.path_exists",
        params=dict(self=GFAT, ordered_path=ListT(STR)), returns=BOOL, types=types, ufuns=STR_UF,
        spec_funcs={"step_ok": STEP_OK},
        locals=dict(ok=BOOL),
        requires=[
            "forall(lambda j: implies(0 <= j < len(ordered_path), (str_head(ordered_path[j]) == '>' or str_head(ordered_path[j]) == '<') and str_tail(ordered_path[j]) in self.nodes))",
        ],
        loops={
            1: Loop(index="it1", fingerprint="range(1, len(ordered_path))", invariant={
                "all-steps-so-far": "forall(lambda j: implies(1 <= j <= it1, step_ok(self, ordered_path, j)))",
            }),
            2: Loop(index="it2", seq_name="edgeseq", fingerprint="for edge in getattr", invariant={
                "ok-iff-seen": "ok == exists(lambda t: 0 <= t < it2 and edgeseq[t][0] == str_tail(n2) and edgeseq[t][1] == case[1])",
            }),
        },
        ensures={
            "true-iff-every-step-is-a-link": "result == forall(lambda j: implies(1 <= j < len(ordered_path), step_ok(self, ordered_path, j)))",
        },
    ))


    # write_gfa: the orientation signs written on an L line decode (through E_DIR) to the sides stored in the adjacency
    for occ, side, fld in ((0, 0, "start"), (1, 1, "end")):
        reg.add(Contract(
            file=GFA, func="GFA.write_gfa", variant="#L-line-from-%s" % fld, fragment=("if n[1] == 0:", 1, occ),
            params=dict(n=Edge, n1=STR, overlap=STR, tags=ListT(STR), edges=ListT(LINE)), module_env={"E_DIR": E_DIR_value}, modifies=["edges"],
            locals=dict(edge=LINE), requires=["n[1] == 0 or n[1] == 1"],
            ensures={
                "one-line-appended": "len(edges) == len(old(edges)) + 1 and forall(lambda k: implies(0 <= k < len(old(edges)), edges[k] == old(edges)[k]))",
                "fields": "len(edges[len(edges) - 1]) == 6 + len(tags) and edges[len(edges) - 1][0] == 'L' and edges[len(edges) - 1][1] == n1 "
                          "and edges[len(edges) - 1][3] == n[0] and edges[len(edges) - 1][5] == overlap",
                "signs-decode-to-the-stored-sides": "(edges[len(edges) - 1][2], edges[len(edges) - 1][4]) in E_DIR and "
                                                    "E_DIR[(edges[len(edges) - 1][2], edges[len(edges) - 1][4])] == (%d, n[1])" % side,
                "tags-follow": "forall(lambda k: implies(0 <= k < len(tags), edges[len(edges) - 1][6 + k] == tags[k]))",
            },
        ))


FILES = [GFA]


def lemma_reversal(reg, repo):
    """C14: under the adjacency invariant, a step (a,o1)->(b,o2) is a link iff the reversed step (b,flip o2)->(a,flip o1) is."""
    con = reg.by_key[(GFA, "GFA.add_edge")]
    eng = Engine(con, reg, repo)
    st = State()
    g = Val(z3.Const("lem_g", GFAT.sort()), GFAT)
    names = {}
    for nm, ty in (("a", STR), ("b", STR), ("o1", STR), ("o2", STR), ("ov", INT)):
        names[nm] = Val(z3.Const("lem_" + nm, ty.sort()), ty)
    st.env = dict(self=g, **names)
    st.old = dict(st.env)
    sp = SpecEnv(eng, con, None)
    hyps = [sp.ev_bool(w, st) for w in wf("self")]
    hyps.append(sp.ev_bool("a in self.nodes and b in self.nodes and (o1 == '>' or o1 == '<') and (o2 == '>' or o2 == '<')", st))
    fwd = "(b, ite(o2 == '>', 0, 1), ov) in adj(self, a, ite(o1 == '>', 1, 0))"
    # reversed walk: b traversed in flip(o2), then a in flip(o1)
    bwd = "(a, ite(ite(o1 == '>', '<', '>') == '>', 0, 1), ov) in adj(self, b, ite(ite(o2 == '>', '<', '>') == '>', 1, 0))"
    goal = sp.ev_bool("(%s) == (%s)" % (fwd, bwd), st)
    o = Oblig("gaftools.gfa:lemma::reversed-step-is-a-link-iff-step-is", "lemma", hyps, goal)
    o.inputs = []
    outs = [o]
    # the E_DIR table in the source is the one the contracts assume
    tab = check_E_DIR_matches_source(repo)
    want = {("+", "+"): (1, 0), ("+", "-"): (1, 1), ("-", "+"): (0, 0), ("-", "-"): (0, 1)}
    o2 = Oblig("gaftools.gfa:lemma::E_DIR-table-as-assumed", "lemma", [], z3.BoolVal(tab == want))
    o2.inputs = []
    outs.append(o2)
    return outs


# ---- get_path: the per-contig segment lists handed to search_intervals are sorted by SO (boundary precondition of C01/C03) ---------
_C2N = C2N
GFAPath = ObjT("GFA", nodes=DictT(STR, Node), contig_to_nodes=_C2N)
GFAPath.name = "Obj<GFAPathView>"


def register_get_path(reg):
    reg.add(Contract(file=GFA, func="GFA.list_is_path", params=dict(self=GFAPath, node_list=ListT(STR)), returns=BOOL, trusted=True, variant="#caller",
                     notes="caller view: any boolean (whether the sorted segments happen to be linked in a row)"))
    reg.add(Contract(
        file=GFA, func="GFA.get_path", params=dict(self=GFAPath, chrom=STR, throw_warning=BOOL), returns=ListT(STR),
        ghost=dict(sort_perm=MapT(INT, INT), sort_perm_inv=MapT(INT, INT)),
        spec_funcs={"so": "lambda x: int(self.nodes[x].tags['SO'][1])", "segs": "lambda: self.contig_to_nodes[chrom]"},
        requires=["chrom in self.contig_to_nodes"],
        ensures={
            "sorted-by-SO": "forall(lambda i, j: implies(0 <= i < j < len(result), so(result[i]) <= so(result[j])))",
            "all-segments-of-the-contig-when-not-strict": "implies(not throw_warning, len(result) == len(segs()) and "
                                                          "forall(lambda i: implies(0 <= i < len(segs()), 0 <= sort_perm[i] < len(result) and result[sort_perm[i]] == segs()[i])))",
            "empty-or-all-segments": "len(result) == 0 or len(result) == len(segs())",
        },
    ))


# ---- extract_path (C14): spelling of a walk ------------------------------------------------------------------------------------------
UTILS = "gaftools/utils.py"
EP_M = {
    # NB: the local name `path` is re-bound to the list of steps inside the function; old(path) is the path string that was passed in
    "steps": "lambda: steps_of(old(path))",
    "walk": "lambda: forall(lambda j: implies(1 <= j < len(steps_of(old(path))), step_ok(self, steps_of(old(path)), j)))",
    "step_ok": STEP_OK,
    "piece": "lambda k: ite(str_head(steps_of(old(path))[k]) == '>', self.nodes[str_tail(steps_of(old(path))[k])].seq, revcomp(self.nodes[str_tail(steps_of(old(path))[k])].seq))",
}


def register_extract_path(reg):
    reg.add(Contract(file=UTILS, func="rev_comp", params=dict(seq=STR), returns=STR, trusted=True, ufuns={"revcomp": ([STR], STR)},
                     ensures={"def": "result == revcomp(seq)"}, notes="seq[::-1].translate(complement): reverse complement as an uninterpreted function of the sequence"))
    reg.add(Contract(
        file=GFA, func="GFA.extract_path", params=dict(self=GFAT, path=STR), returns=STR, types=dict(STR=STR, INT=INT),
        ufuns=dict(STR_UF, steps_of=([STR], LINE), revcomp=([STR], STR)), spec_funcs=EP_M, locals=dict(seq=LINE),
        requires=[
            # the steps are oriented node names over the nodes of the graph (the property's quantifier)
            "forall(lambda j: implies(0 <= j < len(steps_of(path)), (str_head(steps_of(path)[j]) == '>' or str_head(steps_of(path)[j]) == '<') "
            "and str_tail(steps_of(path)[j]) in self.nodes))",
        ],
        loops={1: Loop(index="it1", fingerprint="for n in path", invariant={
            "one-piece-per-step": "len(seq) == it1",
            "pieces": "forall(lambda k: implies(0 <= k < it1, seq[k] == piece(k)))",
        })},
        ensures={
            "empty-unless-a-walk": "implies(not walk(), result == '')",
            "a-walk-is-spelled-step-by-step": "implies(walk() and (str_head(old(path)) == '<' or str_head(old(path)) == '>'), len(untok(result)) == len(steps()) and "
                                              "forall(lambda k: implies(0 <= k < len(steps()), untok(result)[k] == piece(k))))",
        },
    ))


# ---- find_component (C15): the set returned is closed under adjacency, contains the start node, avoids earlier components, and is sound ----
ADJN = "lambda g, a, b: exists(lambda s, ov: (b, s, ov) in g.nodes[a].start or (b, s, ov) in g.nodes[a].end)"
FC_M = {
    "adj": ADJN, "R": "lambda a, b: comp(a) == comp(b)",
    "V": "lambda x: self.nodes[x].visited",
    "V0": "lambda x: old(self).nodes[x].visited",
    "queued": "lambda y: 0 <= qidx[y] < len(queue) and queue[qidx[y]] == y",
}
GRAPH_FRAME = ("forall(STR, lambda x: (x in self.nodes) == (x in old(self).nodes)) and forall(STR, lambda x: implies(x in self.nodes, "
               "self.nodes[x].start == old(self).nodes[x].start and self.nodes[x].end == old(self).nodes[x].end))")


def register_components(reg):
    reg.add(Contract(
        file=GFA, func="Node.neighbors", params=dict(self=Node), returns=ListT(STR), trusted=True, ufuns={"nbrpos": ([Node, STR], INT)}, types=dict(STR=STR, INT=INT),
        ensures={"only-neighbours": "forall(lambda i: implies(0 <= i < len(result), exists(lambda s, ov: (result[i], s, ov) in self.start or (result[i], s, ov) in self.end)))",
                 "all-neighbours": "forall([STR, INT, INT], lambda b, s, ov: implies((b, s, ov) in self.start or (b, s, ov) in self.end, "
                                   "0 <= nbrpos(self, b) < len(result) and result[nbrpos(self, b)] == b))"},
        notes="caller view of neighbors(): the ids on either side, each at some position (sorted(); duplicates possible)",
    ))
    reg.add(Contract(
        file=GFA, func="GFA.find_component", params=dict(self=GFAT, start_node=STR), returns=SetT(STR), modifies=["self"],
        types=dict(STR=STR, INT=INT), ufuns={"comp": ([STR], INT), "nbrpos": ([Node, STR], INT)}, spec_funcs=FC_M,
        ghost=dict(qidx=MapT(STR, INT)),
        ghost_at={"after:queue.append(start_node)": "qidx[start_node] = len(queue) - 1", "after:queue.append(n)": "qidx[n] = len(queue) - 1"},
        locals=dict(queue=ListT(STR), cc=SetT(STR), neighbors=ListT(STR)),
        requires=[
            "start_node in self.nodes and not self.nodes[start_node].visited",
            # adjacency invariant of C15 (symmetric, no dangling ids), in the form needed here
            "forall([STR, STR], lambda a, b: implies(a in self.nodes and adj(self, a, b), b in self.nodes and adj(self, b, a)))",
            # what all_components maintains: the nodes visited so far are closed under adjacency
            "forall([STR, STR], lambda a, b: implies(a in self.nodes and self.nodes[a].visited and adj(self, a, b), self.nodes[b].visited))",
            # R(a, b) := comp(a) == comp(b) for an UNINTERPRETED labelling comp that is constant along links: every equivalence relation that
            # contains the links is of this form (label = class), so soundness is proved for every such relation, hence for connectivity
            "forall([STR, STR, INT, INT], lambda a, b, s, ov: implies(a in self.nodes and (b, s, ov) in self.nodes[a].start, R(a, b)))",
            "forall([STR, STR, INT, INT], lambda a, b, s, ov: implies(a in self.nodes and (b, s, ov) in self.nodes[a].end, R(a, b)))",
        ],
        loops={
            1: Loop(fingerprint="while len(queue) > 0", decreases=["card(self.nodes) - card(cc)", "len(queue)"], assume_head=["card_mono(cc, self.nodes)"],
                    invariant={
                "graph-unchanged": GRAPH_FRAME,
                "members": "forall(STR, lambda x: implies(x in cc, x in self.nodes and V(x) and not V0(x) and R(start_node, x)))",
                "queue-entries": "forall(lambda i: implies(0 <= i < len(queue), queue[i] in self.nodes and not V0(queue[i]) and R(start_node, queue[i])))",
                "visited-is-old-plus-component": "forall(STR, lambda x: implies(x in self.nodes, V(x) == (V0(x) or x in cc or x == start_node)))",
                "closed-or-queued": "forall([STR, STR], lambda x, y: implies(x in cc and adj(self, x, y), y in cc or queued(y)))",
                "start-in-or-queued": "start_node in cc or queued(start_node)",
            }),
            2: Loop(index="it2", fingerprint="for n in neighbors", invariant={
                "graph-unchanged": GRAPH_FRAME,
                "members": "forall(STR, lambda x: implies(x in cc, x in self.nodes and V(x) and not V0(x) and R(start_node, x)))",
                "queue-entries": "forall(lambda i: implies(0 <= i < len(queue), queue[i] in self.nodes and not V0(queue[i]) and R(start_node, queue[i])))",
                "visited-is-old-plus-component": "forall(STR, lambda x: implies(x in self.nodes, V(x) == (V0(x) or x in cc or x == start_node)))",
                "closed-or-queued-others": "forall([STR, STR], lambda x, y: implies(x in cc and x != start and adj(self, x, y), y in cc or queued(y)))",
                "this-node-so-far": "start in cc and forall(lambda t: implies(0 <= t < it2, neighbors[t] in cc or queued(neighbors[t])))",
                "start-in-or-queued": "start_node in cc or queued(start_node)",
            }),
        },
        assert_at={"after:neighbors = self.nodes[start].neighbors()": {
            "adjacency-as-at-entry": "forall([STR, STR], lambda a, b: implies(a in self.nodes, adj(self, a, b) == adj(old(self), a, b)))",
            "this-node-known": "start in self.nodes and start in old(self).nodes and R(start_node, start)",
            "neighbours-are-adjacent": "forall(lambda t: implies(0 <= t < len(neighbors), adj(self, start, neighbors[t])))",
            "neighbours-are-nodes": "forall(lambda t: implies(0 <= t < len(neighbors), neighbors[t] in self.nodes))",
            "neighbours-are-related": "forall(lambda t: implies(0 <= t < len(neighbors), R(start_node, neighbors[t])))",
            "every-adjacent-node-is-listed": "forall(STR, lambda y: implies(adj(self, start, y), 0 <= nbrpos(self.nodes[start], y) < len(neighbors) and neighbors[nbrpos(self.nodes[start], y)] == y))",
        }},
        ensures={
            "contains-the-start-node": "start_node in result",
            "closed-under-adjacency": "forall([STR, STR], lambda x, y: implies(x in result and adj(self, x, y), y in result))",
            "disjoint-from-earlier-components": "forall(STR, lambda x: implies(x in result, x in self.nodes and not V0(x)))",
            "sound-for-every-link-closed-equivalence": "forall(STR, lambda x: implies(x in result, R(start_node, x)))",
            "visited-is-old-plus-component": "forall(STR, lambda x: implies(x in self.nodes, V(x) == (V0(x) or x in result)))",
            "graph-unchanged": GRAPH_FRAME,
        },
    ))


AC_M = {
    "adj": ADJN, "R": "lambda a, b: comp(a) == comp(b)",
    "V": "lambda x: self.nodes[x].visited",
}
R_REQ = [
    "forall([STR, STR, INT, INT], lambda a, b, s, ov: implies(a in self.nodes and (b, s, ov) in self.nodes[a].start, R(a, b)))",
    "forall([STR, STR, INT, INT], lambda a, b, s, ov: implies(a in self.nodes and (b, s, ov) in self.nodes[a].end, R(a, b)))",
]


def register_all_components(reg):
    reg.add(Contract(file=GFA, func="GFA.set_visited", params=dict(self=GFAT, visited=BOOL), modifies=["self"], trusted=True, types=dict(STR=STR),
                     ensures={"flags-set": "forall(STR, lambda x: implies(x in self.nodes, self.nodes[x].visited == visited))", "graph-unchanged": GRAPH_FRAME},
                     notes="caller view: sets every node's visited flag (the body mutates the nodes through the dict's values view: aliasing, not modelled)"))
    reg.add(Contract(
        file=GFA, func="GFA.all_components", params=dict(self=GFAT), returns=ListT(SetT(STR)), modifies=["self"],
        types=dict(STR=STR, INT=INT), ufuns={"comp": ([STR], INT)}, spec_funcs=AC_M,
        ghost=dict(rep=MapT(INT, STR), comp_of=MapT(STR, INT)), locals=dict(connected_comp=ListT(SetT(STR))),
        requires=[
            "forall(STR, lambda x: implies(x in self.nodes, not self.nodes[x].visited))",
            "forall([STR, STR], lambda a, b: implies(a in self.nodes and adj(self, a, b), b in self.nodes and adj(self, b, a)))",
        ] + R_REQ,
        loops={1: Loop(index="it1", seq_name="keyseq", fingerprint="for n in self.nodes", invariant={
            "graph-unchanged": GRAPH_FRAME,
            "visited-closed": "forall([STR, STR], lambda a, b: implies(a in self.nodes and V(a) and adj(self, a, b), V(b)))",
            "keys-so-far-visited": "forall(lambda t: implies(0 <= t < it1, V(keyseq[t])))",
            "components-closed": "forall([INT, STR, STR], lambda c, x, y: implies(0 <= c < len(connected_comp) and x in connected_comp[c] and adj(self, x, y), y in connected_comp[c]))",
            "components-of-visited-nodes": "forall([INT, STR], lambda c, x: implies(0 <= c < len(connected_comp) and x in connected_comp[c], x in self.nodes and V(x) and comp_of[x] == c))",
            "visited-nodes-are-covered": "forall(STR, lambda x: implies(x in self.nodes and V(x), 0 <= comp_of[x] < len(connected_comp) and x in connected_comp[comp_of[x]]))",
            "components-sound": "forall([INT, STR], lambda c, x: implies(0 <= c < len(connected_comp) and x in connected_comp[c], R(rep[c], x) and rep[c] in connected_comp[c]))",
        })},
        ghost_at={"after:connected_comp.append(": "rep[len(connected_comp) - 1] = n\ncomp_of = assign_members(comp_of, connected_comp[len(connected_comp) - 1], len(connected_comp) - 1)"},
        ensures={
            "cover": "forall(STR, lambda x: implies(x in self.nodes, 0 <= comp_of[x] < len(result) and x in result[comp_of[x]]))",
            "pairwise-disjoint": "forall([INT, INT, STR], lambda c, d, x: implies(0 <= c < len(result) and 0 <= d < len(result) and x in result[c] and x in result[d], c == d))",
            "each-closed-under-adjacency": "forall([INT, STR, STR], lambda c, x, y: implies(0 <= c < len(result) and x in result[c] and adj(self, x, y), y in result[c]))",
            "each-within-one-class-of-every-link-closed-equivalence": "forall([INT, STR, STR], lambda c, x, y: implies(0 <= c < len(result) and x in result[c] and y in result[c], R(x, y)))",
            "only-nodes": "forall([INT, STR], lambda c, x: implies(0 <= c < len(result) and x in result[c], x in self.nodes))",
            "flags-reset": "forall(STR, lambda x: implies(x in self.nodes, not self.nodes[x].visited))",
            "graph-unchanged": GRAPH_FRAME,
        },
    ))


DFS_M = {
    "adj": ADJN, "R": "lambda a, b: comp(a) == comp(b)",
    "stacked": "lambda y: 0 <= sidx[y] < len(stack) and stack[sidx[y]] == y",
}
DFS_INV = {
    "set-and-list-agree": "forall(STR, lambda x: (x in dfs_out) == (0 <= opos[x] < len(ordered_dfs_out) and ordered_dfs_out[opos[x]] == x))",
    "each-listed-once": "forall(lambda i: implies(0 <= i < len(ordered_dfs_out), opos[ordered_dfs_out[i]] == i))",
    "members": "forall(STR, lambda x: implies(x in dfs_out, x in self.nodes and R(start_node, x)))",
    "stack-entries": "forall(lambda i: implies(0 <= i < len(stack), stack[i] in self.nodes and R(start_node, stack[i])))",
    "start-in-or-stacked": "start_node in dfs_out or stacked(start_node)",
    "first-is-the-start-node": "implies(len(ordered_dfs_out) == 0, len(stack) == 1 and stack[0] == start_node) and implies(len(ordered_dfs_out) > 0, ordered_dfs_out[0] == start_node)",
}


def register_dfs(reg):
    reg.add(Contract(
        file=GFA, func="GFA.dfs", params=dict(self=GFAT, start_node=STR), returns=ListT(STR), pure=True,
        types=dict(STR=STR, INT=INT), ufuns={"comp": ([STR], INT), "nbrpos": ([Node, STR], INT)}, spec_funcs=DFS_M,
        ghost=dict(sidx=MapT(STR, INT), opos=MapT(STR, INT), ks0=ListT(STR)),
        ghost_at={"before:if start_node not in self": "opos = const_map(opos, 0)\nks0 = keys(self.nodes)",
                   "after:stack = [start_node]": "sidx[start_node] = 0", "after:stack.append(neighbour)": "sidx[neighbour] = len(stack) - 1",
                  "after:ordered_dfs_out.append(s)": "opos[s] = len(ordered_dfs_out) - 1"},
        locals=dict(stack=ListT(STR), dfs_out=SetT(STR), ordered_dfs_out=ListT(STR)),
        requires=list(wf_closed("self").values()) + R_REQ,   # no dangling ids (the adjacency invariant's closedness half)
        assert_at={"before:return [list(self.nodes.keys())[0]]": {
            "the-only-node-is-the-start-node": "forall(STR, lambda y: implies(y in self.nodes, y == start_node))",
            "its-links-are-self-links": "forall([STR, INT, INT], lambda b, s, ov: implies((b, s, ov) in self.nodes[start_node].start or (b, s, ov) in self.nodes[start_node].end, b == start_node))",
            "the-listed-key-is-the-start-node": "ks0[0] == start_node and len(ks0) == 1"}},
        loops={
            # termination: lexicographic measure (nodes not yet output, stack length); the first component needs "a set of nodes has at most as many
            # elements as there are nodes" (card_mono: an instance of a theorem about finite sets, assumed and listed)
            1: Loop(fingerprint="while stack", decreases=["card(self.nodes) - card(dfs_out)", "len(stack)"],
                    assume_head=["card_mono(dfs_out, self.nodes)"],
                    invariant=dict(DFS_INV, **{
                "closed-or-stacked": "forall([STR, STR], lambda x, y: implies(x in dfs_out and adj(self, x, y), y in dfs_out or stacked(y)))"})),
            2: Loop(index="it2", seq_name="nbrs", fingerprint="for neighbour in self[s].neighbors()",
                    pres_from={"neighbours-are-adjacent": ["loop2:neighbours-are-adjacent"], "every-adjacent-node-is-listed": ["loop2:every-adjacent-node-is-listed"]},
                    invariant=dict(DFS_INV, **{
                "closed-or-stacked-others": "forall([STR, STR], lambda x, y: implies(x in dfs_out and x != s and adj(self, x, y), y in dfs_out or stacked(y)))",
                "this-node-so-far": "s in dfs_out and forall(lambda t: implies(0 <= t < it2, nbrs[t] in dfs_out or stacked(nbrs[t])))",
                "neighbours-are-adjacent": "forall(lambda t: implies(0 <= t < len(nbrs), adj(self, s, nbrs[t]) and nbrs[t] in self.nodes and R(start_node, nbrs[t])))",
                "every-adjacent-node-is-listed": "forall(STR, lambda y: implies(adj(self, s, y), 0 <= nbrpos(self.nodes[s], y) < len(nbrs) and nbrs[nbrpos(self.nodes[s], y)] == y))",
            })),
        },
        ensures={
            "empty-iff-unknown-start": "(len(result) == 0) == (start_node not in self.nodes)",
            "starts-at-the-start-node": "implies(start_node in self.nodes, result[0] == start_node)",
            "each-node-exactly-once": "forall(lambda i, j: implies(0 <= i < j < len(result), result[i] != result[j]))",
            "closed-under-adjacency": "forall([INT, STR], lambda i, y: implies(0 <= i < len(result) and adj(self, result[i], y), 0 <= opos[y] < len(result) and result[opos[y]] == y))",
            "only-nodes-of-the-component": "forall(lambda i: implies(0 <= i < len(result), result[i] in self.nodes and R(start_node, result[i])))",
        },
    ))


def _wfd(g, tag):
    return {k + tag: v for k, v in list(wf_sym(g).items()) + list(wf_closed(g).items())}


def register_remove_node(reg):
    Q4 = "forall([STR, STR, INT, INT], lambda a, b, sb, ov: implies(a in self.nodes, "
    NODESET = "forall(STR, lambda a: (a in self.nodes) == (a in old(self).nodes))"
    inv1 = {
        "same-node-set": NODESET,
        "start-sides-so-far": Q4 + "((b, sb, ov) in self.nodes[a].start) == ((b, sb, ov) in old(self).nodes[a].start and "
                              "not (a == n_id and spos[(b, sb, ov)] < t1) and not (b == n_id and sb == 0 and spos[(a, 0, ov)] < t1))))",
        "end-sides-so-far": Q4 + "((b, sb, ov) in self.nodes[a].end) == ((b, sb, ov) in old(self).nodes[a].end and "
                            "not (b == n_id and sb == 0 and spos[(a, 1, ov)] < t1))))",
    }
    inv1.update(_wfd("self", ""))
    inv1["link-tags-only-for-existing-links"] = TAGS_INV.format(g="self")
    inv2 = {
        "same-node-set": NODESET,
        "start-sides-so-far": Q4 + "((b, sb, ov) in self.nodes[a].start) == ((b, sb, ov) in mid.nodes[a].start and "
                              "not (b == n_id and sb == 1 and epos[(a, 0, ov)] < t2))))",
        "end-sides-so-far": Q4 + "((b, sb, ov) in self.nodes[a].end) == ((b, sb, ov) in mid.nodes[a].end and "
                            "not (a == n_id and epos[(b, sb, ov)] < t2) and not (b == n_id and sb == 1 and epos[(a, 1, ov)] < t2))))",
    }
    inv2.update(_wfd("self", ""))
    inv2["link-tags-only-for-existing-links"] = TAGS_INV.format(g="self")
    reg.add(Contract(
        file=GFA, func="GFA.remove_node", params=dict(self=GFAT, n_id=STR), modifies=["self"], types=dict(STR=STR, INT=INT, EKEY=EdgeKey),
        ghost=dict(spos=MapT(Edge, INT), epos=MapT(Edge, INT), mid=GFAT, tagov=MapT(EdgeKey, INT)),
        locals=dict(starts=ListT(Edge), ends=ListT(Edge)),
        alias_ok=["contig_nodes"],
        ghost_at={"after:starts = [": "spos = last_keypos()", "after:ends = [": "epos = last_keypos()\nmid = self"},
        requires=["n_id in self.nodes"] + wf("self") + [TAGS_INV.format(g="self")],
        loops={
            1: Loop(index="t1", fingerprint="for n_start in starts", invariant=inv1),
            2: Loop(index="t2", fingerprint="for n_end in ends", invariant=inv2),
        },
        assert_at={
            "after:ends = [": {
                "mid-node-set": "forall(STR, lambda a: (a in mid.nodes) == (a in old(self).nodes))",
                "mid-start-sides": "forall([STR, STR, INT, INT], lambda a, b, sb, ov: implies(a in mid.nodes, ((b, sb, ov) in mid.nodes[a].start) == "
                                   "((b, sb, ov) in old(self).nodes[a].start and a != n_id and not (b == n_id and sb == 0))))",
                "mid-end-sides": "forall([STR, STR, INT, INT], lambda a, b, sb, ov: implies(a in mid.nodes, ((b, sb, ov) in mid.nodes[a].end) == "
                                 "((b, sb, ov) in old(self).nodes[a].end and not (b == n_id and sb == 0))))",
            },
        },
        ensures=dict([
            ("exactly-this-node-removed", "forall(STR, lambda a: (a in self.nodes) == (a in old(self).nodes and a != n_id))"),
            ("start-sides-lose-exactly-the-links-to-it", Q4 + "((b, sb, ov) in self.nodes[a].start) == ((b, sb, ov) in old(self).nodes[a].start and b != n_id)))"),
            ("end-sides-lose-exactly-the-links-to-it", Q4 + "((b, sb, ov) in self.nodes[a].end) == ((b, sb, ov) in old(self).nodes[a].end and b != n_id)))"),
        ] + [(k, dict(expr=v, **{"from": ["exactly-this-node-removed", "start-sides-lose-exactly-the-links-to-it", "end-sides-lose-exactly-the-links-to-it"]}))
             for k, v in _wfd("self", "").items()] + [
            ("link-tags-only-for-existing-links", TAGS_INV.format(g="self")),
            ("no-link-tags-refer-to-the-deleted-node", "forall(EKEY, lambda k: implies(k in self.edge_tags, k[0] != n_id and k[2] != n_id))"),
        ]),
        notes="contig_to_nodes clean-up (list bound from the dict, mutated in place) is not modelled: alias_ok, nothing is claimed about contig_to_nodes",
    ))


def node_init_lemma(reg, repo):
    """the constructor model used for `Node(node_id)` (types.Node.ctor / Node.defaults) is Node.__init__ of the working tree"""
    import ast, os
    src = open(os.path.join(repo, GFA)).read()
    got = None
    for n in ast.parse(src).body:
        if isinstance(n, ast.ClassDef) and n.name == "Node":
            for f in n.body:
                if isinstance(f, ast.FunctionDef) and f.name == "__init__":
                    got = [ast.unparse(s) for s in f.body if not (isinstance(s, ast.Expr) and isinstance(s.value, ast.Constant))]
                    args = [a.arg for a in f.args.args]
    want = ["self.id = identifier", "self.seq = ''", "self.seq_len = 0", "self.start = set()", "self.end = set()", "self.visited = False", "self.tags = dict()"]
    if got != want or args != ["self", "identifier"]:
        # a constructor that differs from the model is not by itself a violation of any property (an extra attribute is harmless): the contracts
        # that build nodes are then undecided (exit 2) and the bounded engine decides.  (Until the third round this was reported as a refuted
        # obligation, which would have been a false alarm for a harmless extra attribute - DESIGN 13.8.)
        raise Unsupported("Node.__init__ differs from the constructor model of the contracts (types.Node.ctor / Node.defaults): %s" % [x for x in (got or []) if x not in want][:3])
    o = Oblig("gaftools.gfa:lemma::Node.__init__-as-modelled", "lemma", [], z3.BoolVal(True))
    o.inputs = []
    return [o]


def register_add_node(reg):
    from pyvc.ty import OptT
    UT = "gaftools/utils.py"
    reg.add(Contract(file=UT, func="is_correct_tag", params=dict(tag=STR), returns=BOOL, trusted=True, ufuns={"split_colon_2": ([STR], LINE)},
                     ensures={"three-parts": "implies(result, len(split_colon_2(tag)) == 3)"},
                     notes="caller view: an accepted tag has the form NAME:TYPE:VALUE (tag_regex), so split(':', 2) yields three parts; the regular expressions themselves are the subject of C16"))
    SAMEADJ = "forall(STR, lambda a: implies(a in old(self).nodes, a in self.nodes and self.nodes[a].start == old(self).nodes[a].start and self.nodes[a].end == old(self).nodes[a].end))"
    NODESET = "forall(STR, lambda a: (a in self.nodes) == (a in old(self).nodes or a == old(node_id)))"
    FRESH = "implies(old(node_id) not in old(self).nodes, forall([STR, INT, INT], lambda b, s, ov: (b, s, ov) not in self.nodes[old(node_id)].start and (b, s, ov) not in self.nodes[old(node_id)].end))"
    frame = {"node-set": NODESET, "existing-adjacency-untouched": SAMEADJ, "new-node-has-no-links": FRESH}
    reg.add(Contract(
        file=GFA, func="GFA.add_node", params=dict(self=GFAT, node_id=STR, seq=STR, tags=OptT(ListT(STR))), modifies=["self"],
        types=dict(STR=STR, INT=INT, Node=Node), ufuns={"split_colon_2": ([STR], LINE)},
        raises={"ValueError": "*", "AssertionError": "*"}, locals=dict(tags=ListT(STR)),
        requires=wf("self"),
        ghost=dict(lastidx=MapT(STR, INT)),
        spec_funcs={"name": "lambda t: split_colon_2(val(tags)[t])[0]", "typ": "lambda t: split_colon_2(val(tags)[t])[1]", "tval": "lambda t: split_colon_2(val(tags)[t])[2]",
                    "T": "lambda: self.nodes[node_id].tags"},
        ghost_at={"after:self[node_id].tags[tag[0]] = ": "lastidx[name(it1 - 1)] = it1 - 1"},
        loops={1: Loop(index="it1", fingerprint="for tag in tags", invariant=dict(frame, **{
            "still-a-node": "node_id in self.nodes and node_id == old(node_id)",
            # the tag dictionary of the new node: every S-line tag seen so far is stored as (type, value); a repeated name keeps its last occurrence
            "tags-stored": "forall(lambda t: implies(0 <= t < it1, name(t) in T() and t <= lastidx[name(t)] < it1 and name(lastidx[name(t)]) == name(t) and "
                           "T()[name(t)] == (typ(lastidx[name(t)]), tval(lastidx[name(t)]))))",
            "only-those-tags": "forall(STR, lambda k: implies(k in T(), 0 <= lastidx[k] < it1 and name(lastidx[k]) == k))",
        }))},
        ensures=dict(list(frame.items()) + [
            ("nothing-changes-when-the-id-exists", "implies(old(node_id) in old(self).nodes, same(self.nodes, old(self).nodes))"),
            ("every-tag-stored-as-type-and-value", "implies(old(node_id) not in old(self).nodes and not is_none(old(tags)), forall(lambda t: implies(0 <= t < len(val(old(tags))), "
             "split_colon_2(val(old(tags))[t])[0] in self.nodes[old(node_id)].tags and t <= lastidx[split_colon_2(val(old(tags))[t])[0]] < len(val(old(tags))) and "
             "split_colon_2(val(old(tags))[lastidx[split_colon_2(val(old(tags))[t])[0]]])[0] == split_colon_2(val(old(tags))[t])[0] and "
             "self.nodes[old(node_id)].tags[split_colon_2(val(old(tags))[t])[0]] == (split_colon_2(val(old(tags))[lastidx[split_colon_2(val(old(tags))[t])[0]]])[1], "
             "split_colon_2(val(old(tags))[lastidx[split_colon_2(val(old(tags))[t])[0]]])[2]))))"),
            ("no-other-tags", "implies(old(node_id) not in old(self).nodes and not is_none(old(tags)), forall(STR, lambda k: implies(k in self.nodes[old(node_id)].tags, "
             "0 <= lastidx[k] < len(val(old(tags))) and split_colon_2(val(old(tags))[lastidx[k]])[0] == k)))"),
            ("no-tags-without-tags", "implies(old(node_id) not in old(self).nodes and is_none(old(tags)), forall(STR, lambda k: k not in self.nodes[old(node_id)].tags))")] + [
            (k, dict(expr=v, **{"from": ["node-set", "existing-adjacency-untouched", "new-node-has-no-links"]})) for k, v in _wfd("self", "").items()]),
        exc_ensures={"ValueError": dict(frame), "AssertionError": dict(frame)},
        notes="GFA.__setitem__'s isinstance(value, Node) test is not modelled (the value is the Node just built); logging is dropped",
    ))


# ---- find_path.run (C14): one output record per requested path, in order ---------------------------------------------------------------
FIND = "gaftools/cli/find_path.py"
GFAOpaque = ObjT("GFA", ident=INT)
GFAOpaque.name = "Obj<GFAOpaque>"


def register_find_path(reg):
    reg.add(Contract(file=GFA, func="GFA.extract_path", variant="#caller", params=dict(self=GFAOpaque, path=STR), returns=STR, trusted=True, pure=True,
                     ufuns={"spelled": ([GFAOpaque, STR], STR)}, ensures={"def": "result == spelled(self, path)"},
                     notes="caller view for find_path.run: the sequence spelled for a path is a function of (graph, path); what that function is, is GFA.extract_path's own contract"))
    reg.add(Contract(
        file=FIND, func="run", variant="#read-paths", fragment=("nodes = []", 3),
        params=dict(graph=GFAOpaque, reader=ListT(STR)), locals=dict(nodes=ListT(STR), path_seqs=ListT(STR)), outputs=["nodes", "path_seqs"],
        ufuns={"spelled": ([GFAOpaque, STR], STR), "strip": ([STR], STR)}, returns=NONE,
        loops={1: Loop(index="it1", fingerprint="for line in reader", invariant={
            "one-entry-per-line": "len(nodes) == it1 and len(path_seqs) == it1",
            "entries": "forall(lambda k: implies(0 <= k < it1, nodes[k] == strip(reader[k]) and path_seqs[k] == spelled(graph, strip(reader[k]))))",
        })},
        ensures={
            "one-entry-per-line-in-order": "len(nodes) == len(reader) and len(path_seqs) == len(reader) and "
                                           "forall(lambda k: implies(0 <= k < len(reader), nodes[k] == strip(reader[k]) and path_seqs[k] == spelled(graph, strip(reader[k]))))",
        },
    ))
    reg.add(Contract(
        file=FIND, func="run", variant="#write-records", fragment=("if fasta:", 1),
        params=dict(nodes=ListT(STR), path_seqs=ListT(STR), writer=ListT(STR), fasta=BOOL), modifies=["writer"], returns=NONE,
        requires=["len(nodes) == len(path_seqs)", "len(writer) == 0"],
        loops={
            1: Loop(index="it1", fingerprint="for node, path_seq in zip(nodes, path_seqs)", invariant={
                "two-lines-per-path": "len(writer) == 2 * it1",
                "records": "forall(lambda k: implies(0 <= k < it1, writer[2 * k] == cat('>seq_', nodes[k]) and writer[2 * k + 1] == path_seqs[k]))"}),
            2: Loop(index="it2", fingerprint="for node, path_seq in zip(nodes, path_seqs)", invariant={
                "one-line-per-path": "len(writer) == it2",
                "records": "forall(lambda k: implies(0 <= k < it2, writer[k] == path_seqs[k]))"}),
        },
        ensures={
            "plain-one-record-per-path-in-order": "implies(not fasta, len(writer) == len(nodes) and forall(lambda k: implies(0 <= k < len(nodes), writer[k] == path_seqs[k])))",
            "fasta-header-then-sequence-per-path-in-order": "implies(fasta, len(writer) == 2 * len(nodes) and forall(lambda k: implies(0 <= k < len(nodes), "
                                                            "writer[2 * k] == cat('>seq_', nodes[k]) and writer[2 * k + 1] == path_seqs[k])))",
        },
    ))


def register_neighbors_body(reg):
    # the body of Node.neighbors; the positions that the caller view's Skolem function nbrpos stands for are given explicitly by ghost maps:
    # kp1 / kp2 = position of an entry in the enumeration of self.start / self.end, sort_perm = where sorted() moved each element
    reg.add(Contract(
        file=GFA, func="Node.neighbors", variant="#body", params=dict(self=Node), returns=ListT(STR), types=dict(STR=STR, INT=INT), pure=True,
        locals=dict(neighbors=ListT(STR)), ghost=dict(kp1=MapT(Edge, INT), kp2=MapT(Edge, INT), ks1=ListT(Edge), ks2=ListT(Edge), n1=INT, sort_perm=MapT(INT, INT), sort_perm_inv=MapT(INT, INT)),
        ghost_at={"after:neighbors = [": "kp1 = keypos_n(0)\nkp2 = keypos_n(1)\nks1 = keyseq_n(0)\nks2 = keyseq_n(1)\nn1 = len(keyseq_n(0))"},
        ensures={
            # the entry each listed id comes from, by ghost witness (no existential)
            "only-neighbours": "forall(lambda i: implies(0 <= i < len(result), ite(sort_perm_inv[i] < n1, "
                               "ks1[sort_perm_inv[i]] in self.start and ks1[sort_perm_inv[i]][0] == result[i], "
                               "ks2[sort_perm_inv[i] - n1] in self.end and ks2[sort_perm_inv[i] - n1][0] == result[i])))",
            "start-side-neighbours-listed": "forall([STR, INT, INT], lambda b, s, ov: implies((b, s, ov) in self.start, "
                                            "0 <= sort_perm[kp1[(b, s, ov)]] < len(result) and result[sort_perm[kp1[(b, s, ov)]]] == b))",
            "end-side-neighbours-listed": "forall([STR, INT, INT], lambda b, s, ov: implies((b, s, ov) in self.end, "
                                          "0 <= sort_perm[n1 + kp2[(b, s, ov)]] < len(result) and result[sort_perm[n1 + kp2[(b, s, ov)]]] == b))",
        },
    ))


# ---- write_gfa, both output loops as one fragment (C07): all S lines precede all L lines, one S line per existing node in the given order ----
def register_write_gfa_body(reg):
    reg.add(Contract(file=GFA, func="Node.to_gfa_line", params=dict(self=Node, with_seq=BOOL), returns=LINE, trusted=True, pure=True, defaults={"with_seq": lambda eng: Val(z3.BoolVal(True), BOOL)},
                     ensures={"s-line": "len(result) >= 3 and result[0] == 'S' and result[1] == self.id"},
                     notes="caller view: an S line whose second field is the node id (tags and sequence: bounded stand-in / C16)"))
    keep = "forall(lambda k: implies(0 <= k < b, same(f[k], F1[k])))"
    llines = "forall(lambda k: implies(b <= k < len(f), f[k][0] == 'L'))"
    edges_l = "forall(lambda k: implies(0 <= k < len(edges), edges[k][0] == 'L'))"
    reg.add(Contract(
        file=GFA, func="GFA.write_gfa", variant="#both-loops", fragment=("for n in sorted_set_of_nodes:", 2),
        params=dict(self=GFAT, set_of_nodes=SetT(STR), sorted_set_of_nodes=ListT(STR), f=ListT(LINE)), modifies=["f"], returns=NONE,
        ghost=dict(CNT=IMAP, b=INT, F1=ListT(LINE)), locals=dict(edges=ListT(LINE), tags=ListT(STR), edge=LINE), module_env={"E_DIR": E_DIR_value},
        types=dict(STR=STR, INT=INT), ghost_at={"before:for n1 in sorted_set_of_nodes": "b = len(f)\nF1 = f"},
        requires=["len(f) == 0", "forall(STR, lambda a: implies(a in self.nodes, self.nodes[a].id == a))",
                  "CNT[0] == 0 and forall(lambda t: implies(0 <= t < len(sorted_set_of_nodes), CNT[t + 1] == CNT[t] + ite(sorted_set_of_nodes[t] in self.nodes, 1, 0)))",
                  "forall(lambda t, u: implies(0 <= t < u <= len(sorted_set_of_nodes), CNT[t] + ite(sorted_set_of_nodes[t] in self.nodes, 1, 0) <= CNT[u])) and "
                  "forall(lambda t: implies(0 <= t <= len(sorted_set_of_nodes), CNT[t] >= 0))"],
        loops={
            1: Loop(index="it1", fingerprint="for n in sorted_set_of_nodes", invariant={
                "count": "len(f) == CNT[it1]",
                "s-lines": "forall(lambda k: implies(0 <= k < len(f), f[k][0] == 'S'))",
                "one-s-line-per-existing-node-in-order": "forall(lambda t: implies(0 <= t < it1 and sorted_set_of_nodes[t] in self.nodes, f[CNT[t]][1] == sorted_set_of_nodes[t]))",
            }),
            2: Loop(index="it2", fingerprint="for n1 in sorted_set_of_nodes", invariant={"s-lines-kept": keep, "l-lines": llines, "at-least-b": "len(f) >= b"}),
            3: Loop(index="it3", fingerprint="for n in self.nodes[n1].start", invariant={"edges-are-l-lines": edges_l}),
            4: Loop(index="it4", fingerprint="for n in self.nodes[n1].end", invariant={"edges-are-l-lines": edges_l}),
            5: Loop(index="it5", fingerprint="for e in edges", invariant={"s-lines-kept": keep, "l-lines": llines, "at-least-b": "len(f) >= b"}),
        },
        ensures={
            "all-s-lines-precede-all-l-lines": "b == CNT[len(sorted_set_of_nodes)] and b <= len(f) and forall(lambda k: implies(0 <= k < b, f[k][0] == 'S')) and "
                                               "forall(lambda k: implies(b <= k < len(f), f[k][0] == 'L'))",
            "one-s-line-per-existing-node-in-the-given-order": "forall(lambda t: implies(0 <= t < len(sorted_set_of_nodes) and sorted_set_of_nodes[t] in self.nodes, "
                                                               "f[CNT[t]][1] == sorted_set_of_nodes[t]))",
        },
    ))


# ---- graph_from_comp (used by order_gfa on each component): the sub-graph has exactly the component's nodes with their adjacency, and is
# well-formed when the component is closed under adjacency (which find_component proves of the sets it returns) ------------------------------
def register_graph_from_comp(reg):
    GFAT.ctor = []
    GFAT.defaults = {
        "nodes": lambda eng: Val(GFAT.fields["nodes"].empty(), GFAT.fields["nodes"]),
        "edge_tags": lambda eng: Val(GFAT.fields["edge_tags"].empty(), GFAT.fields["edge_tags"]),
        "contig_to_nodes": lambda eng: Val(GFAT.fields["contig_to_nodes"].empty(), GFAT.fields["contig_to_nodes"]),
        "contigs": lambda eng: Val(GFAT.fields["contigs"].empty(), GFAT.fields["contigs"]),
    }
    reg.add(Contract(
        file=GFA, func="GFA.graph_from_comp", params=dict(self=GFAT, component_nodes=SetT(STR)), returns=GFAT, pure=True,
        types=dict(STR=STR, INT=INT, GFA=GFAT, Node=Node), locals=dict(new_graph=GFAT, new_node=Node),
        requires=["forall(STR, lambda a: implies(a in component_nodes, a in self.nodes))"] + wf("self") + [
            # the component is closed under adjacency (postcondition of find_component / all_components)
            "forall([STR, STR, INT, INT], lambda a, b, sb, ov: implies(a in component_nodes and ((b, sb, ov) in self.nodes[a].start or (b, sb, ov) in self.nodes[a].end), b in component_nodes))"],
        loops={1: Loop(index="it1", seq_name="cseq", fingerprint="for n in component_nodes", invariant={
            "only-component-nodes": "forall(STR, lambda a: implies(a in new_graph.nodes, a in component_nodes))",
            "nodes-so-far": "forall(lambda t: implies(0 <= t < it1, cseq[t] in new_graph.nodes))",
            "adjacency-copied": "forall(STR, lambda a: implies(a in new_graph.nodes, new_graph.nodes[a].start == self.nodes[a].start and "
                                "new_graph.nodes[a].end == self.nodes[a].end and new_graph.nodes[a].id == a and same(new_graph.nodes[a].tags, self.nodes[a].tags)))",
        })},
        ensures=dict([
            ("exactly-the-component", "forall(STR, lambda a: (a in result.nodes) == (a in component_nodes))"),
            ("adjacency-and-tags-copied", "forall(STR, lambda a: implies(a in result.nodes, result.nodes[a].start == self.nodes[a].start and "
                                          "result.nodes[a].end == self.nodes[a].end and result.nodes[a].id == a and same(result.nodes[a].tags, self.nodes[a].tags)))"),
        ] + [(k, dict(expr=v, **{"from": ["exactly-the-component", "adjacency-and-tags-copied"]})) for k, v in _wfd("result", "").items()]),
        notes="the new nodes SHARE their start / end sets and tag dictionaries with the original graph's nodes (aliasing, not modelled: the copy is read-only in order_gfa)",
    ))


# ---- write_gfa, the links written for ONE node (the body of the second output loop after the existence test), C07 -------------------------------
# For the node n1 the lines appended are exactly: one L line per entry of n1's start set (then end set), in the iteration order of the set,
# whose neighbour is among the nodes being written and for which link tags are stored under the key of THIS end (non-empty list; the `[0]`
# sentinel means "declared from this end without tags"); nothing else.  Together with the edge_tags invariant "every link has its tags under
# exactly one of its two keys" (established by read_graph, a precondition here) this is exactly-once emission of every link.
def register_write_gfa_links(reg):
    def side(k, fld, sign):
        S, C = "S%d" % k, "C%d" % k
        key = "(n1, %d, %s[t][0], %s[t][1])" % (k - 1, S, S)
        q = "lambda t: %s[t][0] in set_of_nodes and %s in self.edge_tags and len(self.edge_tags[%s]) > 0" % (S, key, key)
        tg = "lambda t: self.edge_tags[%s]" % key
        return S, C, key, q, tg

    macros = {}
    for k, fld, sign in ((1, "start", "-"), (2, "end", "+")):
        S, C, key, q, tg = side(k, fld, sign)
        macros["q%d" % k] = q
        macros["tg%d" % k] = tg
        macros["notags%d" % k] = "lambda t: self.edge_tags[%s][0] == 0" % key
    LINE_OK = ("len({L}) == 6 + ite(notags{k}(t), 0, len(tg{k}(t))) and {L}[0] == 'L' and {L}[1] == n1 and {L}[2] == '{sign}' and {L}[3] == S{k}[t][0] and "
               "{L}[4] == ite(S{k}[t][1] == 0, '+', '-') and {L}[5] == cat(str(S{k}[t][2]), 'M') and "
               "implies(not notags{k}(t), forall(lambda u: implies(0 <= u < len(tg{k}(t)), {L}[6 + u] == tg{k}(t)[u])))")
    defs = []
    for k, fld in ((1, "start"), (2, "end")):
        defs += ["C%d[0] == 0" % k,
                 "forall(lambda t: implies(0 <= t < len(S%d), C%d[t + 1] == C%d[t] + ite(q%d(t), 1, 0)))" % (k, k, k, k),
                 # pairwise form of the same prefix counts (consequence by induction)
                 "forall(lambda t, u: implies(0 <= t < u <= len(S%d), C%d[t] + ite(q%d(t), 1, 0) <= C%d[u])) and forall(lambda t: implies(0 <= t <= len(S%d), C%d[t] >= 0))" % (k, k, k, k, k, k)]
    inv3 = {
        "count": "len(edges) == C1[it3]",
        "lines": "forall(lambda t: implies(0 <= t < it3 and q1(t), " + LINE_OK.format(L="edges[C1[t]]", k=1, sign="-") + "))",
        "nothing-else": "forall(lambda j: implies(0 <= j < len(edges), 0 <= src[j] < it3 and q1(src[j]) and C1[src[j]] == j))",
    }
    inv4 = {
        "count": "len(edges) == C1[len(S1)] + C2[it4]",
        "start-lines-kept": "forall(lambda t: implies(0 <= t < len(S1) and q1(t), " + LINE_OK.format(L="edges[C1[t]]", k=1, sign="-") + "))",
        "lines": "forall(lambda t: implies(0 <= t < it4 and q2(t), " + LINE_OK.format(L="edges[C1[len(S1)] + C2[t]]", k=2, sign="+") + "))",
        "nothing-else": "forall(lambda j: implies(0 <= j < len(edges), ite(j < C1[len(S1)], 0 <= src[j] < len(S1) and q1(src[j]) and C1[src[j]] == j, "
                        "0 <= src[j] < it4 and q2(src[j]) and C1[len(S1)] + C2[src[j]] == j)))",
    }
    reg.add(Contract(
        file=GFA, func="GFA.write_gfa", variant="#links-of-one-node", fragment=("edges = []", 4),
        params=dict(self=GFAT, n1=STR, set_of_nodes=SetT(STR), f=ListT(LINE)), modifies=["f"], returns=NONE, types=dict(STR=STR, INT=INT),
        ghost=dict(S1=ListT(Edge), S2=ListT(Edge), C1=IMAP, C2=IMAP, src=IMAP, F0=ListT(LINE), L0=INT),
        locals=dict(edges=ListT(LINE), tags=ListT(STR), edge=LINE), spec_funcs=macros,
        requires=["n1 in self.nodes"],
        ghost_at={"before:for n in self.nodes[n1].start": "S1 = members(self.nodes[n1].start)\nS2 = members(self.nodes[n1].end)\nF0 = f"},
        assume_at={"before:for n in self.nodes[n1].start": defs},
        loops={
            1: Loop(index="it3", fingerprint="for n in self.nodes[n1].start", invariant=inv3, ghost_body_start="L0 = len(edges)",
                    ghost_body_end="src[len(edges) - 1] = ite(len(edges) > L0, it3 - 1, src[len(edges) - 1])"),
            2: Loop(index="it4", fingerprint="for n in self.nodes[n1].end", invariant=inv4, ghost_body_start="L0 = len(edges)",
                    ghost_body_end="src[len(edges) - 1] = ite(len(edges) > L0, it4 - 1, src[len(edges) - 1])"),
            3: Loop(index="it5", fingerprint="for e in edges", invariant={
                "written-so-far": "len(f) == len(F0) + it5 and forall(lambda j: implies(0 <= j < it5, same(f[len(F0) + j], edges[j])))",
                "earlier-lines-kept": "forall(lambda j: implies(0 <= j < len(F0), same(f[j], F0[j])))"}),
        },
        ensures={
            "as-many-lines-as-links-declared-from-this-node": "len(f) == len(old(f)) + C1[len(S1)] + C2[len(S2)]",
            "earlier-lines-kept": "forall(lambda j: implies(0 <= j < len(old(f)), same(f[j], old(f)[j])))",
            "one-line-per-qualifying-start-entry": "forall(lambda t: implies(0 <= t < len(S1) and q1(t), " + LINE_OK.format(L="f[len(old(f)) + C1[t]]", k=1, sign="-") + "))",
            "one-line-per-qualifying-end-entry": "forall(lambda t: implies(0 <= t < len(S2) and q2(t), " + LINE_OK.format(L="f[len(old(f)) + C1[len(S1)] + C2[t]]", k=2, sign="+") + "))",
        },
        notes="S1 / S2: ghost enumerations of the node's start / end sets (iteration order); C1 / C2: number of qualifying entries among the first t "
              "(defined where the enumerations come into existence); src: which entry an appended line came from",
    ))


def lemma_exactly_once(reg, repo):
    """C07 composition: per-node emission (write_gfa#links-of-one-node) + "every link has non-empty tags under exactly one of its two keys"
    (the edge_tags state read_graph builds when every link is declared by one L line) => a link whose two nodes are both written is emitted from
    exactly one of its ends (a link from a side to itself: from that one entry)."""
    S = z3.DeclareSort("EndSide")  # an end of a link: (node, side)
    a, b = z3.Consts("lem_a lem_b", S)
    inset = z3.Function("end_node_is_written", S, z3.BoolSort())
    nk = z3.Function("nonempty_tags_under_key", S, S, z3.BoolSort())
    emitted_from = lambda x, y: z3.And(inset(y), nk(x, y))  # what the per-node postcondition says about the entry `y` in the set of end `x`
    hyps = [z3.ForAll([a, b], z3.Implies(a != b, z3.Xor(nk(a, b), nk(b, a)))), z3.ForAll([a], nk(a, a))]
    goal = z3.And(z3.ForAll([a, b], z3.Implies(z3.And(inset(a), inset(b), a != b), z3.Xor(emitted_from(a, b), emitted_from(b, a)))),
                  z3.ForAll([a], z3.Implies(inset(a), emitted_from(a, a))))
    o = Oblig("gaftools.gfa:lemma::link-emitted-from-exactly-one-end", "lemma", hyps, goal)
    o.inputs = []
    return [o]


# ---- sort_bo_no (C07: S lines in (BO, NO) order): the result lists every node of the set exactly where its bucket and rank put it, ordered by (BO, NO) ----
TagI = TupleT(STR, INT)   # order_gfa stores BO / NO as ('i', <int>)
NodeBO = ObjT("Node", id=STR, tags=DictT(STR, TagI))
NodeBO.name = "Obj<NodeBOView>"
GFABO = ObjT("GFA", nodes=DictT(STR, NodeBO))
GFABO.name = "Obj<GFABOView>"
GFABO.dunder = {"__getitem__": "nodes", "__contains__": "nodes"}
BUCKETS = DictT(INT, ListT(STR))


def register_sort_bo_no(reg):
    M = {"BO": "lambda x: self.nodes[x].tags['BO'][1]", "NO": "lambda x: self.nodes[x].tags['NO'][1]", "SB": "lambda: separate_bubbles"}
    inv1 = {
        "every-node-so-far-is-in-its-bucket": "forall(lambda t: implies(0 <= t < it1, BO(E[t]) in SB() and 0 <= bpos[E[t]] < len(SB()[BO(E[t])]) and SB()[BO(E[t])][bpos[E[t]]] == E[t]))",
        "buckets-hold-only-their-nodes": "forall([INT, INT], lambda k, i: implies(k in SB() and 0 <= i < len(SB()[k]), SB()[k][i] in set_of_nodes and BO(SB()[k][i]) == k and "
                                         "bpos[SB()[k][i]] == i and 0 <= epos[SB()[k][i]] < it1 and E[epos[SB()[k][i]]] == SB()[k][i]))",
        "no-empty-bucket": "forall(INT, lambda k: implies(k in SB(), len(SB()[k]) >= 1))",
    }
    inv2 = {
        "same-keys-same-sizes": "forall(INT, lambda k: (k in SB()) == (k in SB0) and implies(k in SB0, len(SB()[k]) == len(SB0[k])))",
        "keys-listed-so-far": "len(bo_ids) == it2 and forall(lambda t: implies(0 <= t < it2, bo_ids[t] == K[t]))",
        "sorted-buckets-hold-their-nodes": "forall([INT, STR], lambda t, x: implies(0 <= t < it2 and x in set_of_nodes and BO(x) == K[t], "
                                           "0 <= bpos2[x] < len(SB()[K[t]]) and SB()[K[t]][bpos2[x]] == x))",
        "sorted-buckets-hold-only-their-nodes": "forall([INT, INT], lambda t, i: implies(0 <= t < it2 and 0 <= i < len(SB()[K[t]]), SB()[K[t]][i] in set_of_nodes and "
                                                "BO(SB()[K[t]][i]) == K[t] and bpos2[SB()[K[t]][i]] == i))",
        "sorted-buckets-ascend-in-NO": "forall([INT, INT, INT], lambda t, i, j: implies(0 <= t < it2 and 0 <= i < j < len(SB()[K[t]]), NO(SB()[K[t]][i]) <= NO(SB()[K[t]][j])))",
        "other-buckets-untouched": "forall(lambda t: implies(it2 <= t < len(K), same(SB()[K[t]], SB0[K[t]])))",
    }
    SBK = "SB()[SK[{u}]]"
    inv3 = {
        "length": "len(sorted_set_of_nodes) == OFF[it3]",
        "buckets-copied-in-key-order": "forall([INT, INT], lambda u, i: implies(0 <= u < it3 and 0 <= i < len(SB()[SK[u]]), sorted_set_of_nodes[OFF[u] + i] == SB()[SK[u]][i]))",
        "every-position-comes-from-a-bucket": "forall(lambda j: implies(0 <= j < len(sorted_set_of_nodes), 0 <= ru[j] < it3 and 0 <= ri[j] < len(SB()[SK[ru[j]]]) and OFF[ru[j]] + ri[j] == j))",
    }
    inv4 = {
        "length": "len(sorted_set_of_nodes) == OFF[it3 - 1] + it4",
        "earlier-buckets-kept": "forall([INT, INT], lambda u, i: implies(0 <= u < it3 - 1 and 0 <= i < len(SB()[SK[u]]), sorted_set_of_nodes[OFF[u] + i] == SB()[SK[u]][i]))",
        "this-bucket-so-far": "forall(lambda i: implies(0 <= i < it4, sorted_set_of_nodes[OFF[it3 - 1] + i] == SB()[SK[it3 - 1]][i]))",
        "every-position-comes-from-a-bucket": "forall(lambda j: implies(0 <= j < len(sorted_set_of_nodes), 0 <= ru[j] <= it3 - 1 and 0 <= ri[j] < len(SB()[SK[ru[j]]]) and "
                                              "OFF[ru[j]] + ri[j] == j and implies(ru[j] == it3 - 1, ri[j] < it4)))",
    }
    OFFDEF = [
        "OFF[0] == 0 and forall(lambda u: implies(0 <= u < len(SK), OFF[u + 1] == OFF[u] + len(SB()[SK[u]])))",
        # pairwise form of the same prefix sums (consequence by induction, bucket lengths are non-negative)
        "forall(lambda u, v: implies(0 <= u < v <= len(SK), OFF[u] + len(SB()[SK[u]]) <= OFF[v])) and forall(lambda u: implies(0 <= u <= len(SK), OFF[u] >= 0))",
    ]
    RPOS = "OFF[kperm[kpos[BO(x)]]] + bpos2[x]"
    reg.add(Contract(
        file=GFA, func="GFA.sort_bo_no", params=dict(self=GFABO, set_of_nodes=SetT(STR)), returns=ListT(STR), pure=True, types=dict(STR=STR, INT=INT),
        ghost=dict(E=ListT(STR), e0=MapT(STR, INT), bpos=MapT(STR, INT), epos=MapT(STR, INT), K=ListT(INT), kpos=MapT(INT, INT), SB0=BUCKETS, bpos2=MapT(STR, INT),
                   sort_perm=MapT(INT, INT), sort_perm_inv=MapT(INT, INT), kperm=MapT(INT, INT), kinv=MapT(INT, INT), OFF=MapT(INT, INT),
                   ru=MapT(INT, INT), ri=MapT(INT, INT)),
        locals=dict(separate_bubbles=BUCKETS, bo_ids=ListT(INT), sorted_set_of_nodes=ListT(STR)),
        spec_funcs=M,
        requires=["forall(STR, lambda x: implies(x in set_of_nodes, x in self.nodes and 'BO' in self.nodes[x].tags and 'NO' in self.nodes[x].tags))"],
        ghost_at={"before:for n in set_of_nodes": "E = members(set_of_nodes)\ne0 = last_keypos()",
                  "after:separate_bubbles[self[n].tags['BO'][1]]": "bpos[n] = len(separate_bubbles[BO(n)]) - 1\nepos[n] = it1 - 1",
                  "after:sorted_set_of_nodes.append(n_id)": "ru[len(sorted_set_of_nodes) - 1] = it3 - 1\nri[len(sorted_set_of_nodes) - 1] = it4 - 1"},
        loops={1: Loop(index="it1", fingerprint="for n in set_of_nodes", invariant=inv1,
                       hints=["forall(STR, lambda x: implies(x in set_of_nodes, 0 <= e0[x] < len(E) and E[e0[x]] == x))"]),
               2: Loop(index="it2", fingerprint="for bo, n_list in separate_bubbles.items()", invariant=inv2, modifies=["sort_perm", "sort_perm_inv"],
                       hints=["forall(lambda t: implies(0 <= t < len(K), kpos[K[t]] == t and K[t] in SB0)) and "
                              "forall(INT, lambda k: implies(k in SB0, 0 <= kpos[k] < len(K) and K[kpos[k]] == k))"],
                       ghost_before="K = keys(separate_bubbles)\nkpos = last_keypos()\nSB0 = separate_bubbles",
                       ghost_body_end="bpos2 = remap(bpos2, lambda x: x in set_of_nodes and BO(x) == bo, lambda x: sort_perm[bpos[x]])"),
               3: Loop(index="it3", seq_name="SK", fingerprint="for bo in sorted(bo_ids)", invariant=inv3,
                       pres_from={"buckets-copied-in-key-order": ["loop4:earlier-buckets-kept", "loop4:this-bucket-so-far"],
                                  "length": ["loop4:length", "loop3:assume0"],
                                  "every-position-comes-from-a-bucket": ["loop4:every-position-comes-from-a-bucket"]},
                       ghost_before="kperm = sort_perm\nkinv = sort_perm_inv", assume_before=OFFDEF,
                       hints=["forall(lambda u: implies(0 <= u < len(SK), SK[u] == K[kinv[u]] and 0 <= kinv[u] < len(K) and kperm[kinv[u]] == u and SK[u] in SB()))",
                              "forall(lambda u, v: implies(0 <= u < v < len(SK), SK[u] < SK[v]))",
                              "len(SK) == len(K) and forall(lambda t: implies(0 <= t < len(K), 0 <= kperm[t] < len(SK) and SK[kperm[t]] == K[t] and kinv[kperm[t]] == t))"]),
               4: Loop(index="it4", fingerprint="for n_id in separate_bubbles[bo]", invariant=inv4)},
        assert_at={"before:return sorted_set_of_nodes": {
            "positions-name-bucket-members": {"expr": "forall(lambda j: implies(0 <= j < len(sorted_set_of_nodes), 0 <= ru[j] < len(SK) and 0 <= ri[j] < len(SB()[SK[ru[j]]]) and "
                                                      "sorted_set_of_nodes[j] == SB()[SK[ru[j]]][ri[j]] and OFF[ru[j]] + ri[j] == j))",
                                              "from": ["loop3:buckets-copied-in-key-order", "loop3:every-position-comes-from-a-bucket"]},
            "bucket-facts-by-sorted-key": {"expr": "forall([INT, INT], lambda u, i: implies(0 <= u < len(SK) and 0 <= i < len(SB()[SK[u]]), SB()[SK[u]][i] in set_of_nodes and "
                                                   "BO(SB()[SK[u]][i]) == SK[u] and bpos2[SB()[SK[u]][i]] == i)) and "
                                                   "forall([INT, INT, INT], lambda u, i, j: implies(0 <= u < len(SK) and 0 <= i < j < len(SB()[SK[u]]), NO(SB()[SK[u]][i]) <= NO(SB()[SK[u]][j])))",
                                           "from": ["loop2:sorted-buckets-hold-only-their-nodes", "loop2:sorted-buckets-ascend-in-NO", "loop3:hint0"]},
            "only-nodes-of-the-set": {"expr": "forall(lambda j: implies(0 <= j < len(sorted_set_of_nodes), sorted_set_of_nodes[j] in set_of_nodes))",
                                      "from": ["positions-name-bucket-members", "bucket-facts-by-sorted-key"]},
            "position-of-each-listed-node": {"expr": "forall(lambda j: implies(0 <= j < len(sorted_set_of_nodes), "
                                                     "OFF[kperm[kpos[BO(sorted_set_of_nodes[j])]]] + bpos2[sorted_set_of_nodes[j]] == j))",
                                             "from": ["positions-name-bucket-members", "bucket-facts-by-sorted-key", "loop3:hint0", "loop2:hint0"]},
            "every-node-has-its-position": {"expr": "forall(STR, lambda x: implies(x in set_of_nodes, 0 <= %(r)s < len(sorted_set_of_nodes) and sorted_set_of_nodes[%(r)s] == x))" % dict(r=RPOS),
                                            "from": ["loop1:hint0", "loop1:every-node-so-far-is-in-its-bucket", "loop2:same-keys-same-sizes", "loop2:hint0",
                                                     "loop2:sorted-buckets-hold-their-nodes", "loop3:hint2", "loop3:buckets-copied-in-key-order", "loop3:length",
                                                     "loop3:assume0", "loop3:assume1"]},
            "ascending": {"expr": "forall(lambda i, j: implies(0 <= i < j < len(sorted_set_of_nodes), BO(sorted_set_of_nodes[i]) < BO(sorted_set_of_nodes[j]) or "
                                  "(BO(sorted_set_of_nodes[i]) == BO(sorted_set_of_nodes[j]) and NO(sorted_set_of_nodes[i]) <= NO(sorted_set_of_nodes[j]))))",
                          "from": ["positions-name-bucket-members", "bucket-facts-by-sorted-key", "loop3:hint1", "loop3:assume1"]},
        }},
        ensures={
            "only-nodes-of-the-set": "forall(lambda j: implies(0 <= j < len(result), result[j] in set_of_nodes))",
            "every-node-of-the-set-exactly-once": "forall(STR, lambda x: implies(x in set_of_nodes, 0 <= %s < len(result) and result[%s] == x)) and "
                                                  "forall(lambda j: implies(0 <= j < len(result), OFF[kperm[kpos[BO(result[j])]]] + bpos2[result[j]] == j))" % (RPOS, RPOS),
            "ascending-in-BO-then-NO": "forall(lambda i, j: implies(0 <= i < j < len(result), BO(result[i]) < BO(result[j]) or "
                                       "(BO(result[i]) == BO(result[j]) and NO(result[i]) <= NO(result[j]))))",
        },
    ))


# ---- read_graph, first loop (C07 / C17): every S line becomes a node, L lines are collected in file order, every other record is ignored -------
def register_read_graph_s_lines(reg):
    M = {"isS": "lambda t: str_head(opened_file[t]) == 'S'", "isL": "lambda t: str_head(opened_file[t]) == 'L'",
         "F": "lambda t: fields_of(rstrip_crlf(opened_file[t]))", "sid": "lambda t: fields_of(rstrip_crlf(opened_file[t]))[1]"}
    inv = {
        "s-line-ids-are-nodes": "forall(lambda t: implies(0 <= t < it1 and isS(t), sid(t) in self.nodes))",
        "nodes-come-from-s-lines": "forall(STR, lambda a: implies(a in self.nodes and a not in old(self).nodes, 0 <= src[a] < it1 and isS(src[a]) and sid(src[a]) == a))",
        "old-nodes-kept": "forall(STR, lambda a: implies(a in old(self).nodes, a in self.nodes and self.nodes[a].start == old(self).nodes[a].start and "
                          "self.nodes[a].end == old(self).nodes[a].end))",
        "new-nodes-have-no-links": "forall([STR, STR, INT, INT], lambda a, b, s, ov: implies(a in self.nodes and a not in old(self).nodes, "
                                   "(b, s, ov) not in self.nodes[a].start and (b, s, ov) not in self.nodes[a].end))",
        "l-lines-collected-in-order": "len(edges) == CL[it1] and forall(lambda t: implies(0 <= t < it1 and isL(t), edges[CL[t]] == opened_file[t]))",
    }
    inv.update(_wfd("self", ""))
    reg.add(Contract(
        file=GFA, func="GFA.read_graph", variant="#s-lines", fragment=("for line in opened_file:", 1),
        params=dict(self=GFAT, opened_file=ListT(STR), low_memory=BOOL, edges=ListT(STR)), modifies=["self", "edges"], returns=NONE,
        types=dict(STR=STR, INT=INT), ufuns={"fields_of": ([STR], LINE), "rstrip_crlf": ([STR], STR), "str_head": ([STR], STR), "split_colon_2": ([STR], LINE)},
        ghost=dict(src=MapT(STR, INT), CL=IMAP, was=BOOL), spec_funcs=M, raises={"ValueError": "*", "AssertionError": "*"},
        requires=["len(edges) == 0"] + wf("self") + [
            "CL[0] == 0 and forall(lambda t: implies(0 <= t < len(opened_file), CL[t + 1] == CL[t] + ite(isL(t), 1, 0)))",
            "forall(lambda t, u: implies(0 <= t < u <= len(opened_file), CL[t] + ite(isL(t), 1, 0) <= CL[u])) and forall(lambda t: implies(0 <= t <= len(opened_file), CL[t] >= 0))"],
        ghost_at={"before:self.add_node(line[1]": "was = line[1] in self.nodes", "after:self.add_node(line[1]": "src[line[1]] = ite(was, src[line[1]], it1 - 1)"},
        loops={1: Loop(index="it1", fingerprint="for line in opened_file", invariant=inv)},
        ensures=dict(
            [("every-s-line-id-is-a-node", "forall(lambda t: implies(0 <= t < len(opened_file) and isS(t), sid(t) in self.nodes))"),
             ("every-new-node-comes-from-an-s-line", "forall(STR, lambda a: implies(a in self.nodes and a not in old(self).nodes, 0 <= src[a] < len(opened_file) and isS(src[a]) and sid(src[a]) == a))"),
             ("nodes-already-there-keep-their-links", inv["old-nodes-kept"]),
             ("new-nodes-have-no-links-yet", inv["new-nodes-have-no-links"]),
             ("l-lines-collected-in-file-order-nothing-else", "len(edges) == CL[len(opened_file)] and forall(lambda t: implies(0 <= t < len(opened_file) and isL(t), edges[CL[t]] == opened_file[t]))")]
            + list(_wfd("self", "").items())),
        notes="records that are neither S nor L lines (header, P, W, comments, blank lines) change nothing; a repeated S id keeps the first node (add_node)",
    ))


# ---- read_graph, second loop: every L line whose two segments exist becomes a link stored at both ends (sides from E_DIR, overlap from "<n>M"),
# its tags (or the [0] sentinel) under the key of the declaring end; nothing else is added; the adjacency and link-tag invariants hold afterwards ----
E5 = TupleT(STR, INT, STR, INT, INT)


def register_read_graph_l_lines(reg):
    M = {
        "G": "lambda t: fields_of(rstrip_crlf(edges[t]))",
        "n1": "lambda t: fields_of(rstrip_crlf(edges[t]))[1]", "o1": "lambda t: fields_of(rstrip_crlf(edges[t]))[2]",
        "n2": "lambda t: fields_of(rstrip_crlf(edges[t]))[3]", "o2": "lambda t: fields_of(rstrip_crlf(edges[t]))[4]",
        "ovl": "lambda t: int(str_drop_last(fields_of(rstrip_crlf(edges[t]))[5]))",
        "s1": "lambda t: ite(fields_of(rstrip_crlf(edges[t]))[2] == '+', 1, 0)", "s2": "lambda t: ite(fields_of(rstrip_crlf(edges[t]))[4] == '+', 0, 1)",
        "key": "lambda t: (fields_of(rstrip_crlf(edges[t]))[1], ite(fields_of(rstrip_crlf(edges[t]))[2] == '+', 1, 0), "
               "fields_of(rstrip_crlf(edges[t]))[3], ite(fields_of(rstrip_crlf(edges[t]))[4] == '+', 0, 1))",
        "notags": "lambda t: len(fields_of(rstrip_crlf(edges[t]))) == 6",
        "present": "lambda t: fields_of(rstrip_crlf(edges[t]))[1] in self.nodes and fields_of(rstrip_crlf(edges[t]))[3] in self.nodes",
        # membership in the adjacency set of side sa of node a (an ite over the two membership tests, not over the two sets)
        "inadj": "lambda g, a, sa, b, sb, ov: ite(sa == 1, (b, sb, ov) in g.nodes[a].end, (b, sb, ov) in g.nodes[a].start)",
    }
    inv = {
        "same-node-set": "forall(STR, lambda a: (a in self.nodes) == (a in old(self).nodes))",
        "links-only-grow": "forall([STR, INT, STR, INT, INT], lambda a, sa, b, sb, ov: implies(a in self.nodes and (sa == 0 or sa == 1) and inadj(old(self), a, sa, b, sb, ov), "
                           "inadj(self, a, sa, b, sb, ov)))",
        "every-l-line-so-far-is-a-link-at-both-ends": "forall(lambda t: implies(0 <= t < it1 and present(t), inadj(self, n1(t), s1(t), n2(t), s2(t), ovl(t)) and "
                                                      "inadj(self, n2(t), s2(t), n1(t), s1(t), ovl(t))))",
        "every-new-link-comes-from-an-l-line": "forall([STR, INT, STR, INT, INT], lambda a, sa, b, sb, ov: implies(a in self.nodes and (sa == 0 or sa == 1) and "
                                               "inadj(self, a, sa, b, sb, ov) and not inadj(old(self), a, sa, b, sb, ov), "
                                               "0 <= src[(a, sa, b, sb, ov)] < it1 and present(src[(a, sa, b, sb, ov)]) and ovl(src[(a, sa, b, sb, ov)]) == ov and "
                                               "((n1(src[(a, sa, b, sb, ov)]) == a and s1(src[(a, sa, b, sb, ov)]) == sa and n2(src[(a, sa, b, sb, ov)]) == b and s2(src[(a, sa, b, sb, ov)]) == sb) or "
                                               "(n2(src[(a, sa, b, sb, ov)]) == a and s2(src[(a, sa, b, sb, ov)]) == sa and n1(src[(a, sa, b, sb, ov)]) == b and s1(src[(a, sa, b, sb, ov)]) == sb))))",
        "link-tags-only-for-existing-links": TAGS_INV.format(g="self"),
        # the tags kept for a declared link are the tag columns of the LAST L line with that key, or the [0] sentinel when that line has none
        "link-tags-are-the-lines-tag-columns": "forall(lambda t: implies(0 <= t < it1 and present(t), key(t) in self.edge_tags and t <= lastl[key(t)] < it1 and "
                                               "present(lastl[key(t)]) and key(lastl[key(t)]) == key(t) and "
                                               "ite(notags(lastl[key(t)]), len(self.edge_tags[key(t)]) == 1 and self.edge_tags[key(t)][0] == 0, "
                                               "same(self.edge_tags[key(t)], G(lastl[key(t)])[6:]))))",
    }
    inv.update(_wfd("self", ""))
    reg.add(Contract(
        file=GFA, func="GFA.read_graph", variant="#l-lines", fragment=("for e in edges:", 1),
        params=dict(self=GFAT, edges=ListT(STR)), modifies=["self"], returns=NONE, module_env={"E_DIR": E_DIR_value},
        types=dict(STR=STR, INT=INT, EKEY=EdgeKey),
        ufuns={"fields_of": ([STR], LINE), "rstrip_crlf": ([STR], STR), "str_drop_last": ([STR], STR)},
        ghost=dict(src=MapT(E5, INT), tagov=MapT(EdgeKey, INT), lastl=MapT(EdgeKey, INT)), locals=dict(e_tags=ListT(STR)), spec_funcs=M,
        raises={"AssertionError": "*"},
        requires=wf("self") + [TAGS_INV.format(g="self"),
                               # valid L lines: six columns at least, orientations are + or -
                               "forall(lambda t: implies(0 <= t < len(edges), len(G(t)) >= 6 and (o1(t) == '+' or o1(t) == '-') and (o2(t) == '+' or o2(t) == '-')))"],
        ghost_at={"after:self.add_edge(": "src[(n1(it1 - 1), s1(it1 - 1), n2(it1 - 1), s2(it1 - 1), ovl(it1 - 1))] = it1 - 1\n"
                                                     "src[(n2(it1 - 1), s2(it1 - 1), n1(it1 - 1), s1(it1 - 1), ovl(it1 - 1))] = it1 - 1\nlastl[key(it1 - 1)] = it1 - 1"},
        call_ghost={"GFA.add_edge": {"tagov": "tagov"}},
        loops={1: Loop(index="it1", fingerprint="for e in edges", invariant=inv, modifies=["tagov"],
                       pres_from={"links-only-grow": ["loop1:links-only-grow", "loop1:same-node-set", "GFA.add_edge:same-node-set",
                                                      "GFA.add_edge:exactly-this-link-added-start", "GFA.add_edge:exactly-this-link-added-end", "!partial"]})},
        ensures=dict(list(inv.items())[:1] + [
            ("every-l-line-between-existing-segments-is-a-link-at-both-ends", "forall(lambda t: implies(0 <= t < len(edges) and present(t), "
             "inadj(self, n1(t), s1(t), n2(t), s2(t), ovl(t)) and inadj(self, n2(t), s2(t), n1(t), s1(t), ovl(t))))"),
            ("links-already-there-are-kept", inv["links-only-grow"]),
            ("every-new-link-comes-from-an-l-line", inv["every-new-link-comes-from-an-l-line"].replace("< it1", "< len(edges)")),
            ("link-tags-only-for-existing-links", TAGS_INV.format(g="self")),
            ("link-tags-are-the-lines-tag-columns", inv["link-tags-are-the-lines-tag-columns"].replace("< it1", "< len(edges)"))] + list(_wfd("self", "").items())),
        notes="a malformed overlap (not <int>M) raises ValueError in the real code: int() is modelled as total, so that exit is not covered; "
              "L lines naming a missing segment are skipped",
    ))


# ---- rev_comp at character level (C14): the real body is re-read and symbolically evaluated over (length, index -> code point) ------
class _SymStrT:
    """decoder of a symbolic string (length term, array term) from a counter-model"""
    name = "SymStr"

    def decode(self, m, t):
        n, arr = t
        k = m.eval(n, model_completion=True).as_long()
        out = []
        for i in range(max(0, min(k, 64))):
            c = m.eval(z3.Select(arr, z3.IntVal(i)), model_completion=True).as_long()
            out.append(chr(c) if 0 <= c < 0x110000 else "?")
        return "".join(out)


class _IntDecT:
    name = "Int"

    def decode(self, m, t):
        return m.eval(t, model_completion=True).as_long()


class _V:
    def __init__(self, t, ty):
        self.t, self.ty = t, ty


def _rev_comp_source(repo):
    """(expression AST of the single return statement of rev_comp, its parameter name, {name: translation dict} of the module-level
    str.maketrans(<literal>, <literal>) tables).  Anything else: Unsupported (the check exits 2, undecided)."""
    import ast, os
    tree = ast.parse(open(os.path.join(repo, UTILS)).read())
    tables, fn = {}, None
    for n in tree.body:
        if isinstance(n, ast.Assign) and len(n.targets) == 1 and isinstance(n.targets[0], ast.Name) and isinstance(n.value, ast.Call):
            f = n.value.func
            if isinstance(f, ast.Attribute) and f.attr == "maketrans" and isinstance(f.value, ast.Name) and f.value.id == "str":
                args = n.value.args
                if len(args) == 2 and all(isinstance(a, ast.Constant) and isinstance(a.value, str) for a in args) and \
                        len(args[0].value) == len(args[1].value) and not n.value.keywords:
                    tables[n.targets[0].id] = {ord(a): ord(b) for a, b in zip(args[0].value, args[1].value)}  # later duplicates win, as in CPython
                else:
                    raise Unsupported("rev_comp lemma: table %s is not str.maketrans(<str literal>, <str literal>) of equal lengths" % n.targets[0].id)
        if isinstance(n, ast.FunctionDef) and n.name == "rev_comp":
            fn = n
    if fn is None:
        raise Unsupported("rev_comp lemma: gaftools/utils.py has no function rev_comp")
    body = [s for s in fn.body if not (isinstance(s, ast.Expr) and isinstance(s.value, ast.Constant))]  # docstring dropped
    if len(fn.args.args) != 1 or len(body) != 1 or not isinstance(body[0], ast.Return) or body[0].value is None:
        raise Unsupported("rev_comp lemma: body is not a single return of an expression over one parameter")
    return body[0].value, fn.args.args[0].arg, tables


def _rc_eval(e, param, tables, s):
    """symbolic value (length, index -> code point) of a string expression built from the parameter, [::-1] and .translate(<table>)"""
    import ast
    if isinstance(e, ast.Name) and e.id == param:
        return s
    if isinstance(e, ast.Subscript) and isinstance(e.slice, ast.Slice) and e.slice.lower is None and e.slice.upper is None:
        st = e.slice.step
        minus1 = (isinstance(st, ast.UnaryOp) and isinstance(st.op, ast.USub) and isinstance(st.operand, ast.Constant) and st.operand.value == 1) or \
                 (isinstance(st, ast.Constant) and st.value == -1)
        n, f = _rc_eval(e.value, param, tables, s)
        if st is None:
            return n, f
        if minus1:
            return n, (lambda i, n=n, f=f: f(n - 1 - i))
    if isinstance(e, ast.Call) and isinstance(e.func, ast.Attribute) and e.func.attr == "translate" and len(e.args) == 1 and not e.keywords \
            and isinstance(e.args[0], ast.Name) and e.args[0].id in tables:
        tab = tables[e.args[0].id]
        n, f = _rc_eval(e.func.value, param, tables, s)

        def g(i, f=f, tab=tab):
            c = f(i)
            out = c
            for k in sorted(tab):
                out = z3.If(c == k, z3.IntVal(tab[k]), out)
            return out
        return n, g
    raise Unsupported("rev_comp lemma: expression %s is outside the modelled subset (parameter, [::-1], .translate(<module-level maketrans table>))" % ast.dump(e)[:120])


def lemma_rev_comp(reg, repo):
    """C14, character level.  rev_comp's real return expression is evaluated symbolically on strings given as (length n >= 0, total map from
    index to code point); s[::-1] is (n, i -> s[n-1-i]), s.translate(T) is (n, i -> T.get(s[i], s[i])) for the maketrans table read from the
    source (CPython semantics of these two operations and of two-argument str.maketrans: assumed).  Proved for all lengths:
      length kept; on A/C/G/T the base at i is the Watson-Crick complement of the base at n-1-i; rev_comp(rev_comp(s)) == s;
      rev_comp(p + q) == rev_comp(q) + rev_comp(p)  (hence the reversed walk spells the reverse complement of the walk)."""
    expr, param, tables = _rev_comp_source(repo)
    I = z3.IntSort()
    A = z3.ArraySort(I, I)
    n, lp, lq, i = z3.Ints("rc_n rc_lp rc_lq rc_i")
    sa, pa, qa = z3.Const("rc_s", A), z3.Const("rc_p", A), z3.Const("rc_q", A)
    rc = lambda s: _rc_eval(expr, param, tables, s)
    s = (n, lambda k: z3.Select(sa, k))
    p = (lp, lambda k: z3.Select(pa, k))
    q = (lq, lambda k: z3.Select(qa, k))
    cat = lambda x, y: (x[0] + y[0], lambda k: z3.If(k < x[0], x[1](k), y[1](k - x[0])))
    chars = []  # no hypothesis on the code points is needed: the four statements hold for arbitrary integers as characters
    wc = lambda c: z3.If(c == ord("A"), ord("T"), z3.If(c == ord("T"), ord("A"), z3.If(c == ord("C"), ord("G"), ord("C"))))
    base = lambda c: z3.Or(*[c == ord(x) for x in "ACGT"])
    sty, ity = _SymStrT(), _IntDecT()
    outs = []

    def ob(name, hyps, goal, inputs, note):
        o = Oblig("gaftools.utils:rev_comp::" + name, "lemma", hyps, goal, note=note)
        o.inputs = inputs
        outs.append(o)
    r = rc(s)
    in_s = [("s", _V((n, sa), sty)), ("i", _V(i, ity))]
    ob("length-kept", [n >= 0] + chars, r[0] == n, in_s, "len(rev_comp(s)) == len(s)")
    ob("base-at-i-is-complement-of-base-at-n-1-i", [n >= 0, 0 <= i, i < n, base(z3.Select(sa, n - 1 - i))] + chars, r[1](i) == wc(z3.Select(sa, n - 1 - i)), in_s,
       "A<->T, C<->G, read from the other end")
    rr = rc(r)
    ob("involution", [n >= 0, 0 <= i, i < n] + chars, z3.And(rr[0] == n, rr[1](i) == z3.Select(sa, i)), in_s, "rev_comp(rev_comp(s)) == s, every character")
    lhs, rhs = rc(cat(p, q)), cat(rc(q), rc(p))
    ob("reverses-concatenation", [lp >= 0, lq >= 0, 0 <= i, i < lp + lq] + chars, z3.And(lhs[0] == rhs[0], lhs[1](i) == rhs[1](i)),
       [("p", _V((lp, pa), sty)), ("q", _V((lq, qa), sty)), ("i", _V(i, ity))], "rev_comp(p + q) == rev_comp(q) + rev_comp(p)")
    return outs
