"""Contracts for gaftools/cli/order_gfa.py (C06, C18)."""
from pyvc.api import *
from .types import *

ORDER = "gaftools/cli/order_gfa.py"
BONO = TupleT(INT, INT)
SKIPT = TupleT(Opt(SetT(STR)), Opt(SetT(STR)), Opt(DictT(STR, BONO)), Opt(INT), Opt(INT))

NUM_MACROS = {
    "typ": "lambda t: scaffold_node_types[traversal[t]]",
    "bub": "lambda t: sorted_strs(bubbles[bubble_names[traversal[t]]])",
}
DONE = ("forall(lambda t: implies(0 <= t < {n} and typ(t) == 's', traversal[t] in node_order and node_order[traversal[t]] == (bo_start + t, 0)))")
DONE_B = ("forall(lambda t, i: implies(0 <= t < {n} and typ(t) == 'b' and 0 <= i < len(bub(t)), bub(t)[i] in node_order and node_order[bub(t)[i]] == (bo_start + t, i + 1)))")


def register(reg):
    reg.add(Contract(
        file=ORDER, func="decompose_and_order", variant="#numbering", fragment=("node_order = dict()", 3),
        params=dict(traversal=ListT(STR), scaffold_node_types=DictT(STR, STR), bubbles=ListT(SetT(STR)), bubble_names=DictT(STR, INT), bo_start=INT),
        locals=dict(node_order=DictT(STR, BONO)), types=dict(STR=STR, INT=INT), spec_funcs=NUM_MACROS,
        requires=[
            # what the decomposition hands over (assumed here, bounded-checked in C15): a chain whose elements are distinct, typed s / b,
            # bubbles are non-empty, pairwise disjoint and disjoint from the scaffold nodes
            "forall(lambda t: implies(0 <= t < len(traversal), traversal[t] in scaffold_node_types and (typ(t) == 's' or typ(t) == 'b')))",
            "forall(lambda t: implies(0 <= t < len(traversal) and typ(t) == 'b', traversal[t] in bubble_names and 0 <= bubble_names[traversal[t]] < len(bubbles)))",
            "forall(lambda t, u: implies(0 <= t < u < len(traversal), traversal[t] != traversal[u]))",
            "forall(lambda t, u, i: implies(0 <= t < len(traversal) and 0 <= u < len(traversal) and typ(t) == 'b' and typ(u) == 's' and 0 <= i < len(bub(t)), bub(t)[i] != traversal[u]))",
            "forall(lambda t, u, i, j: implies(0 <= t < u < len(traversal) and typ(t) == 'b' and typ(u) == 'b' and 0 <= i < len(bub(t)) and 0 <= j < len(bub(u)), bub(t)[i] != bub(u)[j]))",
            "bo_start >= 0",
        ],
        loops={
            1: Loop(index="it1", fingerprint="for node in traversal", invariant={
                "running-bo": "bo == bo_start + it1",
                "scaffold-numbered": DONE.format(n="it1"),
                "bubble-numbered": DONE_B.format(n="it1"),
            }),
            2: Loop(index="it2", fingerprint="for i, n in enumerate(sorted(", invariant={
                "running-bo": "bo == bo_start + it1 - 1",
                "scaffold-numbered": DONE.format(n="it1 - 1"),
                "bubble-numbered": DONE_B.format(n="it1 - 1"),
                "this-bubble": "forall(lambda i: implies(0 <= i < it2, bub(it1 - 1)[i] in node_order and node_order[bub(it1 - 1)[i]] == (bo_start + it1 - 1, i + 1)))",
            }),
        },
        ensures={
            "bo-advances-by-chain-length": "bo == bo_start + len(traversal)",
            "scaffold-nodes-BO-position-NO-0": DONE.format(n="len(traversal)"),
            "bubble-nodes-share-BO-and-NO-is-1-plus-lexicographic-rank": DONE_B.format(n="len(traversal)"),
        },
    ))
    reg.add(Contract(
        file=ORDER, func="decompose_and_order", variant="#orientation", fragment=("if ends[0] > ends[1]:", 2),
        params=dict(ends=ListT(INT), traversal=ListT(STR), traversal_scaffold_only=ListT(STR), coordinates=ListT(INT)),
        modifies=["traversal", "traversal_scaffold_only", "coordinates"],
        requires=[
            "len(ends) == 2", "len(coordinates) >= 1",
            "implies(len(coordinates) >= 2, ends[0] == coordinates[0] and ends[1] == coordinates[len(coordinates) - 1])",
            # input validity (rank-0 contig runs through the chain): scaffold offsets strictly monotone along the chain, either way
            "forall(lambda i, j: implies(0 <= i < j < len(coordinates), coordinates[i] < coordinates[j])) or "
            "forall(lambda i, j: implies(0 <= i < j < len(coordinates), coordinates[i] > coordinates[j]))",
        ],
        loops={1: Loop(index="it1", fingerprint="for i in range(len(coordinates) - 1)", invariant={})},
        ensures={
            "scaffold-offsets-ascending-afterwards": "forall(lambda i, j: implies(0 <= i < j < len(coordinates), coordinates[i] < coordinates[j]))",
            "reversed-iff-ends-descending": "len(traversal) == len(old(traversal)) and forall(lambda k: implies(0 <= k < len(traversal), traversal[k] == "
                                            "ite(old(ends)[0] > old(ends)[1], old(traversal)[len(traversal) - 1 - k], old(traversal)[k])))",
        },
    ))
    # C18: the caller's handling of the skip value
    reg.add(Contract(
        file=ORDER, func="decompose_and_order", params=dict(graph=INT, component=SetT(STR), component_name=STR, bo_start=INT), returns=SKIPT,
        trusted=True, ensures={"this-variant-models-a-skipped-chromosome": "is_none(result[0])"},
        notes="caller view used ONLY for the skip-frame obligation of run_order_gfa: the callee returned the skip value",
    ))
    reg.add(Contract(
        file=ORDER, func="run_order_gfa", variant="#skip-frame", fragment=("scaffold_nodes, inside_nodes, node_order, new_bo, bubble_count = decompose_and_order(", 2),
        params=dict(graph=INT, component_nodes=SetT(STR), chromosome=STR, bo=INT, total_bubbles=INT, out_gfa=ListT(STR), out_csv=ListT(STR)),
        ensures={
            "running-BO-untouched-by-a-skipped-chromosome": "bo == old(bo)",
            "nothing-recorded-for-it": "total_bubbles == old(total_bubbles) and same(out_gfa, old(out_gfa)) and same(out_csv, old(out_csv))",
        },
    ))
