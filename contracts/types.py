"""Shared type descriptors for the contracts."""
from pyvc.ty import *  # noqa
import z3
from pyvc.engine import Val

StableNode = ObjT("StableNode", contig_id=STR, start=INT, end=INT)
StableNode.ctor = ["contig_id", "start", "end"]
Pair = TupleT(StableNode, STR)

TagVal = TupleT(STR, STR)  # (type, value)
# gfa.Node as seen by the coordinate code: id + tags
GNode = ObjT("NodeTagsView", id=STR, tags=DictT(STR, TagVal))

Alignment = ObjT("Alignment", query_name=STR, query_length=INT, query_start=INT, query_end=INT, strand=STR, path=ListT(STR),
                 path_length=INT, path_start=INT, path_end=INT, residue_matches=INT, alignment_block_length=INT,
                 mapping_quality=INT, is_primary=BOOL, cigar=STR, tags=OrdDictT(STR, STR))
LINE = ListT(STR)
IMAP = MapT(INT, INT)

# full gfa.Node / gfa.GFA (adjacency view)
Edge = TupleT(STR, INT, INT)  # (neighbor id, side of the neighbor: 0 start / 1 end, overlap)
Node = ObjT("Node", id=STR, seq=STR, seq_len=INT, start=SetT(Edge), end=SetT(Edge), visited=BOOL, tags=DictT(STR, TagVal))
EdgeKey = TupleT(STR, INT, STR, INT)
C2N = DictT(STR, ListT(STR))  # defaultdict(list)
C2N.default = lambda eng: Val(ListT(STR).empty(), ListT(STR))
CONTIGS = DictT(STR, OptT(INT))  # defaultdict(lambda: None)
CONTIGS.default = lambda eng: Val(OptT(INT).none(), OptT(INT))
GFAT = ObjT("GFA", nodes=DictT(STR, Node), edge_tags=DictT(EdgeKey, ListT(STR)), contig_to_nodes=C2N, contigs=CONTIGS)
# Node(identifier): the constructor model; node_init_lemma (contracts/gfa_c.py) re-reads Node.__init__ on every run and compares
Node.ctor = ["id"]
Node.defaults = {"seq": lambda eng: Val(z3.IntVal(str_code("")), STR), "seq_len": lambda eng: Val(z3.IntVal(0), INT),
                 "start": lambda eng: Val(SetT(Edge).empty(), SetT(Edge)), "end": lambda eng: Val(SetT(Edge).empty(), SetT(Edge)),
                 "visited": lambda eng: Val(z3.BoolVal(False), BOOL), "tags": lambda eng: Val(DictT(STR, TagVal).empty(), DictT(STR, TagVal))}
GFAT.dunder = {"__getitem__": "nodes", "__contains__": "nodes", "__len__": "nodes"}
