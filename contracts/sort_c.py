"""Contracts for gaftools/cli/sort.py (C08, C09, C10)."""
import z3
from pyvc.api import *
from pyvc.engine import Engine, Oblig, Val

SortRec = TupleT(INT, INT, INT, INT, INT, STR, names=["offset", "BO", "NO", "start", "inv", "sn"])

DOMAIN = ["{0}.offset >= 0", "{0}.BO >= -1", "{0}.NO >= -1", "{0}.start >= 0"]


def register(reg):
    c = Contract(
        file="gaftools/cli/sort.py", func="compare_gaf",
        params=dict(al1=SortRec, al2=SortRec), returns=INT,
        requires=[d.format(a) for a in ("al1", "al2") for d in DOMAIN],
        spec_funcs={"key": "lambda x: (x.BO == -1, x.BO, x.NO, x.start, x.offset)"},
        ensures={
            "sign-lt": "(result < 0) == lex_lt(key(al1), key(al2))",
            "sign-gt": "(result > 0) == lex_lt(key(al2), key(al1))",
            "zero-iff-same-key": "(result == 0) == (key(al1) == key(al2))",
        },
        pure=True,
    )
    reg.add(c)
    return c


def relational_obligations(reg, repo):
    """antisymmetry, transitivity, totality proved directly on the code (key-free)"""
    con = reg.by_key[("gaftools/cli/sort.py", "compare_gaf")]
    recs = {n: Val(z3.Const("rec_" + n, SortRec.sort()), SortRec) for n in "abc"}
    dom = []
    tmp = Engine(con, reg, repo)
    from pyvc.engine import State, SpecEnv
    st = State()
    for n, v in recs.items():
        st.env[n] = v
    st.old = dict(st.env)
    for n in recs:
        for d in DOMAIN:
            dom.append(SpecEnv(tmp, con, None).ev_bool(d.format(n), st))

    def f(x, y):
        e = Engine(con, reg, repo)
        v, side = e.summarize(dict(al1=recs[x], al2=recs[y]), x + y)
        return v.t
    fab, fba, fbc, fac = f("a", "b"), f("b", "a"), f("b", "c"), f("a", "c")
    off = lambda x: SortRec.get(recs[x].t, 0)
    claims = {
        "antisym": z3.Implies(fab < 0, fba > 0),
        "antisym-rev": z3.Implies(fab > 0, fba < 0),
        "trans": z3.Implies(z3.And(fab < 0, fbc < 0), fac < 0),
        "total-on-distinct-offsets": z3.Implies(off("a") != off("b"), fab != 0),
        "reflexive-zero": z3.Implies(recs["a"].t == recs["b"].t, fab == 0),
    }
    out = []
    for k, g in claims.items():
        o = Oblig("%s::relational::%s" % (con.qual, k), "relational", dom, g)
        o.inputs = list(recs.items())
        out.append(o)
    return out


# ---------------------------------------------------------------------------------------------------------
from .types import GNode, LINE, Opt  # noqa
from . import io_c  # noqa

SORT = "gaftools/cli/sort.py"
PA_RET = TupleT(INT, INT, INT, INT, STR)
IDXVAL = TupleT(Opt(INT), Opt(INT))
IndexDict = DictT(STR, IDXVAL)


def _default_pair(eng):
    from pyvc.engine import Val
    return Val(IDXVAL.mk([Opt(INT).none(), Opt(INT).none()]), IDXVAL)


IndexDict.default = _default_pair

REC_OF = ("lambda j: process_alignment(fields_of(rstrip(reader.lines[j])), nodes, reader.offs[j])")


def register_sort_loops(reg):
    io_c.register(reg)
    reg.add(Contract(
        file=SORT, func="write_to_file", params=dict(line=LINE, writer=ListT(LINE)), modifies=["writer"],
        ensures={"appended": "len(writer) == len(old(writer)) + 1 and writer[len(old(writer))] == line and "
                             "forall(lambda k: implies(0 <= k < len(old(writer)), writer[k] == old(writer)[k]))"},
    ))
    # caller view of process_alignment: a deterministic function of (fields, graph tags, offset); its own contract is below
    reg.add(Contract(
        file=SORT, func="process_alignment", params=dict(line=LINE, nodes=DictT(STR, GNode), offset=INT), returns=PA_RET, pure=True,
        trusted=True, ensures={"inv-is-flag": "result[3] == 0 or result[3] == 1"},
        notes="caller view (pure function symbol); the body is verified under process_alignment#body",
    ))
    reg.add(Contract(
        file=SORT, func="sort", variant="#passes", fragment=("gaf_alignments = []", "if index_file is not None:", 0),
        params=dict(reader=io_c.Reader, nodes=DictT(STR, GNode), writer=ListT(LINE), index_dict=IndexDict, index_file=Opt(STR)),
        modifies=["reader", "writer", "index_dict"],
        types=dict(Alignment=SortRec, STR=STR, INT=INT),
        ufuns={"fields_of": ([STR], LINE), "rstrip": ([STR], STR), "woff": ([INT], INT)},
        ghost=dict(seen=MapT(STR, BOOL), firstpos=MapT(STR, INT), lastpos=MapT(STR, INT), w0=INT, sort_perm=MapT(INT, INT), sort_perm_inv=MapT(INT, INT),
                   pickled_index=IndexDict),
        locals=dict(gaf_alignments=ListT(SortRec)),
        spec_funcs={"rec": REC_OF, "R": "lambda: len(reader.lines)"},
        requires=io_c.reader_wf("reader") + ["reader.pos == 0", "forall(STR, lambda s: not (s in index_dict))", "forall(STR, lambda s: not seen[s])",
                                             "w0 == len(writer)"],
        loops={
            1: Loop(fingerprint="while True", decreases="len(reader.lines) - reader.pos", invariant={
                "reader-frame": "same(reader.lines, old(reader).lines) and reader.offs == old(reader).offs and reader.idx == old(reader).idx",
                "one-per-record": "reader.pos == len(gaf_alignments) and reader.pos <= len(reader.lines)",
                "offsets": "forall(lambda j: implies(0 <= j < len(gaf_alignments), gaf_alignments[j].offset == reader.offs[j]))",
                "keys": "forall(lambda j: implies(0 <= j < len(gaf_alignments), gaf_alignments[j].BO == rec(j)[0] and gaf_alignments[j].NO == rec(j)[1] "
                        "and gaf_alignments[j].start == rec(j)[2] and gaf_alignments[j].inv == rec(j)[3] and gaf_alignments[j].sn == rec(j)[4]))",
                "writer-untouched": "writer == old(writer) and index_dict == old(index_dict)",
            }),
            2: Loop(index="it2", fingerprint="for alignment in gaf_alignments", invariant={
                "reader-frame": "same(reader.lines, old(reader).lines) and reader.offs == old(reader).offs and reader.idx == old(reader).idx",
                "one-line-per-record": "len(writer) == w0 + it2",
                "earlier-output-kept": "forall(lambda k: implies(0 <= k < w0, writer[k] == old(writer)[k]))",
                "line-len": "forall(lambda k: implies(w0 <= k < w0 + it2, len(writer[k]) == 4))",
                "line-0": "forall(lambda k: implies(w0 <= k < w0 + it2, writer[k][0] == rstrip(reader.lines[reader.idx[gaf_alignments[k - w0].offset]])))",
                "line-bo": "forall(lambda k: implies(w0 <= k < w0 + it2, writer[k][1] == cat('bo:i:', str(gaf_alignments[k - w0].BO))))",
                "line-sn": "forall(lambda k: implies(w0 <= k < w0 + it2, writer[k][2] == cat('sn:Z:', gaf_alignments[k - w0].sn)))",
                "line-iv": "forall(lambda k: implies(w0 <= k < w0 + it2, writer[k][3] == cat(cat('iv:i:', str(gaf_alignments[k - w0].inv)), '\\n')))",
                "index-keys": "implies(not is_none(index_file), forall(STR, lambda s: (s in index_dict) == seen[s]))",
                "index-untouched-without-file": "implies(is_none(index_file), index_dict == old(index_dict))",
                "index-first": "implies(not is_none(index_file), forall(STR, lambda s: implies(seen[s], index_dict[s][0] == woff(w0 + firstpos[s]))))",
                "index-last": "implies(not is_none(index_file), forall(STR, lambda s: implies(seen[s], index_dict[s][1] == woff(w0 + lastpos[s]))))",
                "first-last-range": "forall(STR, lambda s: implies(seen[s], 0 <= firstpos[s] <= lastpos[s] < it2 and "
                                    "gaf_alignments[firstpos[s]].sn == s and gaf_alignments[lastpos[s]].sn == s))",
                "all-between": "forall(lambda t: implies(0 <= t < it2, seen[gaf_alignments[t].sn] and "
                               "firstpos[gaf_alignments[t].sn] <= t <= lastpos[gaf_alignments[t].sn]))",
            }, ghost_body_start="firstpos[alignment.sn] = ite(seen[alignment.sn], firstpos[alignment.sn], it2 - 1)\n"
                                "lastpos[alignment.sn] = it2 - 1\nseen[alignment.sn] = True"),
        },
        assert_at={"before:write_to_file(line, writer)": {
            "this-contig-entry": "implies(not is_none(index_file), alignment.sn in index_dict and index_dict[alignment.sn][1] == woff(w0 + it2 - 1) and "
                                 "index_dict[alignment.sn][0] == woff(w0 + firstpos[alignment.sn]) and lastpos[alignment.sn] == it2 - 1)"},
                   "after:gaf_alignments.sort(": {
            "sorted-len": "len(gaf_alignments) == R()",
            "sorted-offsets": "forall(lambda t: implies(0 <= t < R(), 0 <= sort_perm_inv[t] < R() and gaf_alignments[t].offset == reader.offs[sort_perm_inv[t]] "
                              "and reader.idx[gaf_alignments[t].offset] == sort_perm_inv[t]))",
            "sorted-keys": "forall(lambda t: implies(0 <= t < R(), gaf_alignments[t].BO == rec(sort_perm_inv[t])[0] and gaf_alignments[t].inv == rec(sort_perm_inv[t])[3] "
                           "and gaf_alignments[t].sn == rec(sort_perm_inv[t])[4]))",
        }},
        ensures={
            # C09: a permutation of the input records, each with exactly the three tags appended
            "count": "len(writer) == w0 + R()",
            "permutation": "forall(lambda j: implies(0 <= j < R(), 0 <= sort_perm[j] < R() and sort_perm_inv[sort_perm[j]] == j)) and "
                           "forall(lambda t: implies(0 <= t < R(), 0 <= sort_perm_inv[t] < R() and sort_perm[sort_perm_inv[t]] == t))",
            "each-line-has-four-parts": "forall(lambda k: implies(w0 <= k < w0 + R(), len(writer[k]) == 4))",
            "each-line-is-its-input-line": "forall(lambda k: implies(w0 <= k < w0 + R(), writer[k][0] == rstrip(old(reader).lines[sort_perm_inv[k - w0]])))",
            "plus-bo-tag": "forall(lambda k: implies(w0 <= k < w0 + R(), writer[k][1] == cat('bo:i:', str(rec(sort_perm_inv[k - w0])[0]))))",
            "plus-sn-tag": "forall(lambda k: implies(w0 <= k < w0 + R(), writer[k][2] == cat('sn:Z:', rec(sort_perm_inv[k - w0])[4])))",
            "plus-iv-tag": "forall(lambda k: implies(w0 <= k < w0 + R(), writer[k][3] == cat(cat('iv:i:', str(rec(sort_perm_inv[k - w0])[3])), '\\n')))",
            # C10: the index
            "index-no-unknown": "implies(not is_none(index_file), not ('unknown' in pickled_index))",
            "index-entries": "implies(not is_none(index_file), forall(STR, lambda s: implies(s != 'unknown', (s in pickled_index) == seen[s] and "
                             "implies(seen[s], pickled_index[s][0] == woff(w0 + firstpos[s]) and pickled_index[s][1] == woff(w0 + lastpos[s])))))",
            "index-first-last-are-records-of-the-contig": "forall(STR, lambda s: implies(seen[s], 0 <= firstpos[s] <= lastpos[s] < R() and "
                             "rec(sort_perm_inv[firstpos[s]])[4] == s and rec(sort_perm_inv[lastpos[s]])[4] == s))",
            "index-all-records-between": "forall(lambda t: implies(0 <= t < R(), seen[rec(sort_perm_inv[t])[4]] and "
                             "firstpos[rec(sort_perm_inv[t])[4]] <= t <= lastpos[rec(sort_perm_inv[t])[4]]))",
        },
    ))


def register_process_alignment(reg):
    TOK = "tokens_of(line[5])"
    reg.add(Contract(
        file=SORT, func="process_alignment", variant="#body",
        params=dict(line=LINE, nodes=DictT(STR, GNode), offset=INT), returns=PA_RET,
        ufuns={"tokens_of": ([STR], LINE)}, types=dict(STR=STR, INT=INT),
        ghost=dict(gfw=INT, grv=INT, first0=INT),
        locals=dict(orient=Opt(STR), orient_list=ListT(STR), sn=Opt(STR), bo=Opt(INT), no=Opt(INT), start=Opt(INT)),
        lifted_asserts=["sn == sn_tag"],
        spec_funcs={
            "tok": "lambda k: tokens_of(line[5])[k]",
            "isname": "lambda k: tokens_of(line[5])[k] != '>' and tokens_of(line[5])[k] != '<'",
            "tagint": "lambda k, t: int(nodes[tokens_of(line[5])[k]].tags[t][1])",
        },
        requires=[
            "len(line) >= 9", "len(tokens_of(line[5])) >= 2", "not isname(0)", "isname(1)", "isname(len(tokens_of(line[5])) - 1)",
            "forall(lambda k: implies(0 <= k < len(tokens_of(line[5])) and isname(k), tok(k) in nodes and 'SN' in nodes[tok(k)].tags and "
            "'BO' in nodes[tok(k)].tags and 'NO' in nodes[tok(k)].tags and 'SR' in nodes[tok(k)].tags))",
            "gfw == 0 and grv == 0 and first0 == -1",
        ],
        loops={1: Loop(index="it1", fingerprint="for n in path", invariant={
            "orient-set": "implies(it1 >= 1, not is_none(orient) and (val(orient) == '>' or val(orient) == '<'))",
            "counts": "orient_list.count('>') == gfw and orient_list.count('<') == grv and gfw >= 0 and grv >= 0",
            "sn-first-rank0": "(is_none(sn) == (first0 == -1)) and -1 <= first0 < it1 and implies(first0 >= 0, isname(first0) and tagint(first0, 'SR') == 0 "
                              "and val(sn) == nodes[tok(first0)].tags['SN'][1])",
            "no-earlier-rank0": "forall(lambda k: implies(0 <= k < ite(first0 == -1, it1, first0) and isname(k), tagint(k, 'SR') != 0))",
            "inv-still-0": "inv == 0",
        })},
        ghost_at={
            # definition of the counters from the graph tags (not from the code's control flow)
            "after:sr_tag =": "gfw = gfw + ite(tagint(it1 - 1, 'BO') != -1 and tagint(it1 - 1, 'NO') == 0 and val(orient) == '>', 1, 0)\n"
                              "grv = grv + ite(tagint(it1 - 1, 'BO') != -1 and tagint(it1 - 1, 'NO') == 0 and val(orient) == '<', 1, 0)",
            "after:sn = sn_tag": "first0 = it1 - 1",
        },
        ensures={
            "anchor-last-iff-more-reverse-scaffold-steps":
                "result[0] == tagint(ite(gfw < grv, len(tokens_of(line[5])) - 1, 1), 'BO') and result[1] == tagint(ite(gfw < grv, len(tokens_of(line[5])) - 1, 1), 'NO')",
            "start-on-the-anchor-side": "result[2] == ite(gfw < grv, int(line[6]) - int(line[8]), int(line[7]))",
            "inversion-flag": "result[3] == ite(gfw != 0 and grv != 0, 1, 0)",
            "sn-of-first-rank0-node-or-unknown": "result[4] == ite(first0 == -1, 'unknown', nodes[tok(ite(first0 == -1, 1, first0))].tags['SN'][1])",
            "first0-is-first": "forall(lambda k: implies(0 <= k < ite(first0 == -1, len(tokens_of(line[5])), first0) and isname(k), tagint(k, 'SR') != 0)) and "
                               "implies(first0 >= 0, isname(first0) and tagint(first0, 'SR') == 0)",
        },
        notes="ghost counters gfw / grv count the tagged scaffold steps (BO != -1, NO == 0) by orientation; first0 is the index of the first rank-0 node token",
    ))
