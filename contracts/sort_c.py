"""Contracts for gaftools/cli/sort.py (C08, C09, C10)."""
import z3
from pyvc.api import *
from pyvc.engine import Engine, Oblig, Val

SortRec = TupleT(INT, INT, INT, INT, INT, STR, names=["offset", "BO", "NO", "start", "inv", "sn"])

DOMAIN = ["{0}.offset >= 0", "{0}.BO >= -1", "{0}.NO >= -1", "{0}.start >= 0"]


def register(reg):
    c = Contract(
        file="gaftools/cli/sort.py", func="compare_gaf",
        params=dict(al1=SortRec, al2=SortRec), returns=INT,
        requires=[d.format(a) for a in ("al1", "al2") for d in DOMAIN],
        spec_funcs={"key": "lambda x: (x.BO == -1, x.BO, x.NO, x.start, x.offset)"},
        ensures={
            "sign-lt": "(result < 0) == lex_lt(key(al1), key(al2))",
            "sign-gt": "(result > 0) == lex_lt(key(al2), key(al1))",
            "zero-iff-same-key": "(result == 0) == (key(al1) == key(al2))",
        },
        pure=True,
    )
    reg.add(c)
    return c


def relational_obligations(reg, repo):
    """antisymmetry, transitivity, totality proved directly on the code (key-free)"""
    con = reg.by_key[("gaftools/cli/sort.py", "compare_gaf")]
    recs = {n: Val(z3.Const("rec_" + n, SortRec.sort()), SortRec) for n in "abc"}
    dom = []
    tmp = Engine(con, reg, repo)
    from pyvc.engine import State, SpecEnv
    st = State()
    for n, v in recs.items():
        st.env[n] = v
    st.old = dict(st.env)
    for n in recs:
        for d in DOMAIN:
            dom.append(SpecEnv(tmp, con, None).ev_bool(d.format(n), st))

    def f(x, y):
        e = Engine(con, reg, repo)
        v, side = e.summarize(dict(al1=recs[x], al2=recs[y]), x + y)
        return v.t
    fab, fba, fbc, fac = f("a", "b"), f("b", "a"), f("b", "c"), f("a", "c")
    off = lambda x: SortRec.get(recs[x].t, 0)
    claims = {
        "antisym": z3.Implies(fab < 0, fba > 0),
        "antisym-rev": z3.Implies(fab > 0, fba < 0),
        "trans": z3.Implies(z3.And(fab < 0, fbc < 0), fac < 0),
        "total-on-distinct-offsets": z3.Implies(off("a") != off("b"), fab != 0),
        "reflexive-zero": z3.Implies(recs["a"].t == recs["b"].t, fab == 0),
    }
    out = []
    for k, g in claims.items():
        o = Oblig("%s::relational::%s" % (con.qual, k), "relational", dom, g)
        o.inputs = list(recs.items())
        out.append(o)
    return out
