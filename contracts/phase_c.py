"""Contracts for gaftools/cli/phase.py (C20)."""
from pyvc.api import *
from .types import *

PHASE = "gaftools/cli/phase.py"
PNode = ObjT("Node", chr_name=STR, phase_set=STR, haplotype=STR)
PNode.ctor = ["chr_name", "haplotype", "phase_set"]
# NB: the class is called Node in phase.py; a distinct sort name avoids a clash with gfa.Node
PNode.name = "Obj<PhaseNode>"
GAFObj = ObjT("GAF", records=ListT(Alignment))
LineSink = ObjT("LineSink", done=ListT(LINE), cur=LINE)

F = "lambda t: fields_of(rstrip(tsv_file[t]))"
REC_LINE = {
    "c12": "lambda L, r: L[0] == r.query_name and L[1] == str(r.query_length) and L[2] == str(r.query_start) and L[3] == str(r.query_end) and "
           "L[4] == r.strand and L[5] == r.path and L[6] == str(r.path_length) and L[7] == str(r.path_start) and L[8] == str(r.path_end) and "
           "L[9] == str(r.residue_matches) and L[10] == str(r.alignment_block_length) and L[11] == str(r.mapping_quality)",
    "phased": "lambda r: r.query_name in phase and phase[r.query_name].haplotype != 'none'",
    "psht": "lambda L, r: L[12] == ite(phased(r), cat(cat(cat('ps:Z:', phase[r.query_name].chr_name), '-'), phase[r.query_name].phase_set), 'ps:Z:none') and "
            "L[13] == ite(phased(r), cat('ht:Z:', phase[r.query_name].haplotype), 'ht:Z:none')",
    "tagsok": "lambda L, r: len(L) == 14 + len(keys(r.tags)) and forall(lambda k: implies(0 <= k < len(keys(r.tags)), L[14 + k] == cat(keys(r.tags)[k], r.tags[keys(r.tags)[k]])))",
    "lineof": "lambda k: ite(k < len(gaf_out.done), gaf_out.done[k], gaf_out.cur)",
}
PathAlignment = ObjT("Alignment", **{**Alignment.fields, "path": STR})
PathAlignment.name = "Obj<AlignmentP>"
GAFObjP = ObjT("GAF", records=ListT(PathAlignment))
GAFObjP.name = "Obj<GAFP>"


def register(reg):
    reg.add(Contract(file="(assumed)/gafobj.py", func="GAF.read_file", params=dict(self=GAFObjP), returns=ListT(PathAlignment), trusted=True,
                     ensures={"records": "same(result, self.records)"},
                     notes="the records as parsed by GAF.parse_gaf_line (verified in C16); iteration over the generator = iteration over this list"))
    reg.add(Contract(
        file=PHASE, func="add_phase_info", variant="#tsv", fragment=("phase = {}", 2),
        params=dict(tsv_file=ListT(STR)), types=dict(Node=PNode, STR=STR), ufuns={"fields_of": ([STR], LINE), "rstrip": ([STR], STR)},
        locals=dict(phase=DictT(STR, PNode)), ghost=dict(first=MapT(STR, INT)), spec_funcs={"f": F},
        requires=["forall(lambda t: implies(0 <= t < len(tsv_file), len(f(t)) >= 4))"],
        loops={1: Loop(index="it1", fingerprint="for line in tsv_file", invariant={
            "every-listed-read-known": "forall(lambda t: implies(0 <= t < it1, f(t)[0] in phase))",
            "first-entry-wins": "forall(STR, lambda s: implies(s in phase, 0 <= first[s] < it1 and f(first[s])[0] == s and "
                                "phase[s].haplotype == f(first[s])[1] and phase[s].phase_set == f(first[s])[2] and phase[s].chr_name == f(first[s])[3]))",
            "first-is-first": "forall(STR, lambda s: implies(s in phase, forall(lambda t: implies(0 <= t < first[s], f(t)[0] != s))))",
        })},
        ghost_at={"after:phase[line_elements[0]] = tmp": "first[line_elements[0]] = it1 - 1"},
        ensures={
            "reads-of-the-tsv": "forall(STR, lambda s: (s in phase) == exists(lambda t: 0 <= t < len(tsv_file) and f(t)[0] == s))",
            "first-entry-wins": "forall(STR, lambda s: implies(s in phase, 0 <= first[s] < len(tsv_file) and f(first[s])[0] == s and "
                                "phase[s].haplotype == f(first[s])[1] and phase[s].phase_set == f(first[s])[2] and phase[s].chr_name == f(first[s])[3] "
                                "and forall(lambda t: implies(0 <= t < first[s], f(t)[0] != s))))",
        },
    ))
    reg.add(Contract(
        file=PHASE, func="add_phase_info", variant="#records", fragment=("for gaf_line in gaf_file.read_file()", 1),
        params=dict(gaf_file=GAFObjP, phase=DictT(STR, PNode), gaf_out=LineSink, line_count=INT, missing_in_tsv=INT, phased=INT),
        types=dict(STR=STR), spec_funcs=REC_LINE,
        requires=["line_count == 0", "len(gaf_out.done) == 0 and len(gaf_out.cur) == 0",
                  "forall(lambda j, t: implies(0 <= j < len(gaf_file.records) and 0 <= t < len(keys(gaf_file.records[j].tags)), "
                  "keys(gaf_file.records[j].tags)[t] in gaf_file.records[j].tags))"],
        loops={
            1: Loop(index="it1", fingerprint="for gaf_line in gaf_file.read_file()", invariant={
                "count": "line_count == it1",
                "lines": "len(gaf_out.done) == ite(it1 == 0, 0, it1 - 1) and implies(it1 == 0, len(gaf_out.cur) == 0)",
                "records-12-columns": "forall(lambda k: implies(0 <= k < it1, c12(lineof(k), gaf_file.records[k])))",
                "records-ps-ht": "forall(lambda k: implies(0 <= k < it1, psht(lineof(k), gaf_file.records[k])))",
                "records-tags": "forall(lambda k: implies(0 <= k < it1, tagsok(lineof(k), gaf_file.records[k])))",
            }),
            2: Loop(index="it2", fingerprint="for k in gaf_line.tags.keys()", invariant={
                "count": "line_count == it1",
                "lines": "len(gaf_out.done) == it1 - 1",
                "earlier-12": "forall(lambda k: implies(0 <= k < it1 - 1, c12(gaf_out.done[k], gaf_file.records[k])))",
                "earlier-psht": "forall(lambda k: implies(0 <= k < it1 - 1, psht(gaf_out.done[k], gaf_file.records[k])))",
                "earlier-tags": "forall(lambda k: implies(0 <= k < it1 - 1, tagsok(gaf_out.done[k], gaf_file.records[k])))",
                "cur-12": "c12(gaf_out.cur, gaf_line) and psht(gaf_out.cur, gaf_line)",
                "cur-tags": "len(gaf_out.cur) == 14 + it2 and forall(lambda k: implies(0 <= k < it2, gaf_out.cur[14 + k] == cat(keys(gaf_line.tags)[k], gaf_line.tags[keys(gaf_line.tags)[k]])))",
                "cur-record": "same(gaf_line, gaf_file.records[it1 - 1])",
            }),
        },
        ensures={
            "one-line-per-record": "len(gaf_out.done) == ite(len(gaf_file.records) == 0, 0, len(gaf_file.records) - 1) and line_count == len(gaf_file.records)",
            "twelve-columns-as-input-including-strand": "forall(lambda k: implies(0 <= k < len(gaf_file.records), c12(lineof(k), gaf_file.records[k])))",
            "ps-and-ht-from-the-tsv-or-none": "forall(lambda k: implies(0 <= k < len(gaf_file.records), psht(lineof(k), gaf_file.records[k])))",
            "then-the-input-optional-fields-in-order": "forall(lambda k: implies(0 <= k < len(gaf_file.records), tagsok(lineof(k), gaf_file.records[k])))",
        },
    ))
