"""Contracts for gaftools/cli/view.py (C04, C05)."""
from pyvc.api import *
from .types import *

VIEW = "gaftools/cli/view.py"
Key = TupleT(STR, STR, INT, INT)  # (node id, contig, start, end) as stored in the view index

SEARCH_MACROS = {
    "hits": "lambda k: node_list[k][2] <= int(node[2]) and int(node[1]) < node_list[k][3]",
}


def register(reg):
    reg.add(Contract(
        file=VIEW, func="search",
        params=dict(node=ListT(STR), node_list=ListT(Key)), returns=ListT(Key),
        ghost=dict(glo=INT), locals=dict(result=ListT(Key)),
        spec_funcs=SEARCH_MACROS,
        requires=[
            "len(node) == 3",
            "forall(lambda k: implies(0 <= k < len(node_list), 0 <= node_list[k][2] < node_list[k][3]))",
            # the indexed nodes of one contig, sorted by start, pairwise disjoint (valid rGFA)
            "forall(lambda j, k: implies(0 <= j < k < len(node_list), node_list[j][3] <= node_list[k][2]))",
            "int(node[1]) >= 0",
        ],
        loops={
            1: Loop(fingerprint="while s < e", decreases="e - s", invariant={
                "range": "0 <= s <= e <= len(node_list)",
                "left-end-before-region": "forall(lambda k: implies(0 <= k < s, node_list[k][3] <= q_s))",
                "right-end-after-region-start": "forall(lambda k: implies(e <= k < len(node_list), node_list[k][3] > q_s))",
                "q": "q_s == int(node[1]) and q_e == int(node[2])",
            }),
            2: Loop(fingerprint="while pos < len(node_list)", decreases="len(node_list) - pos", invariant={
                "range": "glo <= pos <= len(node_list) and 0 <= glo",
                "count": "len(result) == pos - glo",
                "elements": "forall(lambda t: implies(0 <= t < len(result), result[t] == node_list[glo + t]))",
                "taken-start-in-region": "forall(lambda k: implies(glo <= k < pos, node_list[k][2] <= q_e))",
                "q": "q_s == int(node[1]) and q_e == int(node[2])",
                "left": "forall(lambda k: implies(0 <= k < glo, node_list[k][3] <= q_s))",
                "right": "forall(lambda k: implies(glo <= k < len(node_list), node_list[k][3] > q_s))",
            }),
        },
        ghost_at={"before:result = []": "glo = s"},
        ensures={
            "contiguous-run-of-the-list": "0 <= glo and glo + len(result) <= len(node_list) and forall(lambda t: implies(0 <= t < len(result), result[t] == node_list[glo + t]))",
            "exactly-the-intersecting-nodes": "forall(lambda k: implies(0 <= k < len(node_list), (glo <= k < glo + len(result)) == hits(k)))",
        },
    ))


IndexT = DictT(Key, ListT(INT))
IN_ENTRY = ("lambda x, t: nodes[t] in ind_dict and exists(lambda m: 0 <= m < len(ind[ind_dict[nodes[t]]]) and ind[ind_dict[nodes[t]]][m] == x)")


def register_selection(reg):
    reg.add(Contract(
        file=VIEW, func="get_unstable", params=dict(regions=ListT(STR), index=IndexT), returns=ListT(STR), trusted=True,
        notes="caller view; view.search (the part that decides which nodes lie under a region) is verified separately; the glue is bounded",
    ))
    reg.add(Contract(
        file=VIEW, func="run", variant="#select-offsets", fragment=("ind_key = sorted(", "if len(offsets) == 0"),
        params=dict(ind=IndexT, nodes=ListT(STR), regions=ListT(STR)),
        types=dict(KEY=Key, STR=STR, INT=INT), locals=dict(ind_dict=DictT(STR, Key), offsets=SetT(INT)),
        spec_funcs={"in_entry": IN_ENTRY, "keyed": "lambda t: nodes[t] in ind_dict"},
        requires=[
            "len(regions) == 0",  # --node mode; --region composes get_unstable with this fragment (bounded stand-in)
            # a view index (C03): one key per node id, no empty entry
            "forall([KEY, KEY], lambda k1, k2: implies(k1 in ind and k2 in ind and k1[0] == k2[0], k1 == k2))",
            "forall(KEY, lambda k: implies(k in ind, len(ind[k]) >= 1))",
        ],
        loops={
            1: Loop(index="it1", seq_name="keyseq1", fingerprint="for i in ind_key", invariant={
                "ids-map-to-their-key": "forall(STR, lambda s: implies(s in ind_dict, ind_dict[s] in ind and ind_dict[s][0] == s))",
                "seen-keys-mapped": "forall(lambda t: implies(0 <= t < it1, keyseq1[t][0] in ind_dict))",
            }),
            2: Loop(index="it2", fingerprint="for nd in nodes", invariant={
                "only-offsets-of-named-indexed-nodes": "forall(lambda x: implies(x in offsets, exists(lambda t: 0 <= t < it2 and in_entry(x, t))))",
                "all-offsets-of-named-indexed-nodes": "forall(lambda t, m: implies(0 <= t < it2 and keyed(t) and 0 <= m < len(ind[ind_dict[nodes[t]]]), "
                                                      "ind[ind_dict[nodes[t]]][m] in offsets))",
                "first-offset-of-each-indexed-node": "forall(lambda t: implies(0 <= t < it2 and keyed(t), ind[ind_dict[nodes[t]]][0] in offsets))",
            }),
        },
        assert_at={"before:offsets = set()": {
            "every-indexed-node-is-mapped": "forall(KEY, lambda k: implies(k in ind, k[0] in ind_dict and ind_dict[k[0]] == k))",
            "unindexed-nodes-unmapped": "forall(STR, lambda s: implies(s in ind_dict, ind_dict[s] in ind and ind_dict[s][0] == s))",
        }},
        ensures={
            "strictly-increasing": "forall(lambda i, j: implies(0 <= i < j < len(offsets), offsets[i] < offsets[j]))",
            "only-records-of-named-nodes": "forall(lambda i: implies(0 <= i < len(offsets), exists(lambda t: 0 <= t < len(nodes) and in_entry(offsets[i], t))))",
            "every-record-of-a-named-node": "forall(lambda t, m: implies(0 <= t < len(nodes) and keyed(t) and 0 <= m < len(ind[ind_dict[nodes[t]]]), "
                                            "exists(lambda i: 0 <= i < len(offsets) and offsets[i] == ind[ind_dict[nodes[t]]][m])))",
            "unaligned-node-contributes-nothing": "forall(lambda t: implies(0 <= t < len(nodes), keyed(t) == exists(KEY, lambda k: k in ind and k[0] == nodes[t])))",
        },
        exc_ensures={"CommandLineError": {
            "raised-only-when-no-named-node-has-alignments": "forall(lambda t: implies(0 <= t < len(nodes), not keyed(t)))",
        }},
    ))


# ---- get_unstable: regions -> ids of exactly the indexed nodes under each region (C05 glue around search) -----------------------------
NK = TupleT(INT, Key)
GU_M = {
    "rc": "lambda n: rsplit_colon_1(regions[n])[0]",
    "ra": "lambda n: int(split_dash(rsplit_colon_1(regions[n])[1])[0])",
    "rb": "lambda n: int(split_dash(rsplit_colon_1(regions[n])[1])[len(split_dash(rsplit_colon_1(regions[n])[1])) - 1])",
    "hits": "lambda n, key: key in index and key[1] == rsplit_colon_1(regions[n])[0] and key[2] <= rb(n) and ra(n) < key[3]",
    "wfl": "lambda L, c: forall(lambda j, k: implies(0 <= j < k < len(L), L[j][3] <= L[k][2])) and "
           "forall(lambda j: implies(0 <= j < len(L), L[j] in index and L[j][1] == c and 0 <= L[j][2] < L[j][3]))",
}


def register_get_unstable(reg):
    reg.add(Contract(
        file=VIEW, func="get_unstable", variant="#body",
        params=dict(regions=ListT(STR), index=IndexT), returns=ListT(STR),
        types=dict(KEY=Key, STR=STR, INT=INT), ufuns={"rsplit_colon_1": ([STR], LINE), "split_dash": ([STR], LINE)},
        ghost=dict(cachepos=MapT(Key, INT), rn=MapT(INT, INT), rkey=MapT(INT, Key), rpos=MapT(NK, INT), sglo=INT, filter_pos=MapT(INT, INT), filter_inv=MapT(INT, INT),
                   sort_perm=MapT(INT, INT), sort_perm_inv=MapT(INT, INT)),
        locals=dict(node_dict=DictT(STR, ListT(Key)), result=ListT(STR), node_list=ListT(Key)),
        spec_funcs=GU_M, call_ghost={"search": {"glo": "sglo"}},
        requires=[
            "forall(lambda n: implies(0 <= n < len(regions), len(rsplit_colon_1(regions[n])) >= 2 and ra(n) >= 0))",
            # a view index over a valid rGFA: intervals non-empty, distinct nodes of one contig are disjoint
            "forall(KEY, lambda k: implies(k in index, 0 <= k[2] < k[3]))",
            "forall([KEY, KEY], lambda k1, k2: implies(k1 in index and k2 in index and k1[1] == k2[1] and k1 != k2, k1[3] <= k2[2] or k2[3] <= k1[2]))",
        ],
        loops={
            1: Loop(index="it1", fingerprint="for n, c in enumerate(contig)", modifies=["sglo", "filter_pos", "filter_inv", "sort_perm", "sort_perm_inv"], invariant={
                "cache-lists-wellformed": "forall(STR, lambda c: implies(c in node_dict, wfl(node_dict[c], c)))",
                "cache-lists-complete": "forall(KEY, lambda k: implies(k in index and k[1] in node_dict, 0 <= cachepos[k] < len(node_dict[k[1]]) and node_dict[k[1]][cachepos[k]] == k))",
                "only-nodes-under-a-region": "forall(lambda p: implies(0 <= p < len(result), 0 <= rn[p] < it1 and hits(rn[p], rkey[p]) and result[p] == rkey[p][0]))",
                "every-node-under-a-region": "forall([INT, KEY], lambda n, k: implies(0 <= n < it1 and hits(n, k), 0 <= rpos[(n, k)] < len(result) and result[rpos[(n, k)]] == k[0]))",
            }),
            2: Loop(index="it2", fingerprint="for nd in node", invariant={}),
            3: Loop(index="it3", fingerprint="for nd in node",
                    pres_from={"only-nodes-under-a-region": ["found-are-hits", "loop3:only-nodes-under-a-region"],
                               "every-node-under-an-earlier-region": ["loop3:every-node-under-an-earlier-region", "loop3:only-nodes-under-a-region"],
                               "this-region-so-far": ["loop3:this-region-so-far", "loop3:only-nodes-under-a-region"]},
                    invariant={
                "only-nodes-under-a-region": "forall(lambda p: implies(0 <= p < len(result), 0 <= rn[p] <= it1 - 1 and hits(rn[p], rkey[p]) and result[p] == rkey[p][0]))",
                "every-node-under-an-earlier-region": "forall([INT, KEY], lambda n, k: implies(0 <= n < it1 - 1 and hits(n, k), 0 <= rpos[(n, k)] < len(result) and result[rpos[(n, k)]] == k[0]))",
                "this-region-so-far": "forall(lambda t: implies(0 <= t < it3, 0 <= rpos[(it1 - 1, node[t])] < len(result) and result[rpos[(it1 - 1, node[t])]] == node[t][0]))",
            }),
        },
        ghost_at={
            "after:node_dict[c] = node_list": "cachepos = cache_positions(cachepos, node_list)",
            "after:result.append(": "rn[len(result) - 1] = it1 - 1\nrkey[len(result) - 1] = nd\nrpos[(it1 - 1, nd)] = len(result) - 1",
        },
        assert_at={
            "before:node = search(": {
                "list-wellformed": "wfl(node_list, c)",
                "list-complete": "forall(KEY, lambda k: implies(k in index and k[1] == c, 0 <= cachepos[k] < len(node_list) and node_list[cachepos[k]] == k))",
                "region": "c == rc(it1 - 1) and n == it1 - 1"},
            "after:node = search(": {
                "found-are-hits": "forall(lambda t: implies(0 <= t < len(node), hits(it1 - 1, node[t])))",
                "hits-are-found": "forall(KEY, lambda k: implies(hits(it1 - 1, k), sglo <= cachepos[k] < sglo + len(node) and node[cachepos[k] - sglo] == k))"},
        },
        ensures={
            "only-ids-of-indexed-nodes-under-some-region": "forall(lambda p: implies(0 <= p < len(result), 0 <= rn[p] < len(regions) and hits(rn[p], rkey[p]) and result[p] == rkey[p][0]))",
            "every-indexed-node-under-a-region-is-returned": "forall([INT, KEY], lambda n, k: implies(0 <= n < len(regions) and hits(n, k), "
                                                              "0 <= rpos[(n, k)] < len(result) and result[rpos[(n, k)]] == k[0]))",
        },
    ))
