"""Contracts for gaftools/cli/view.py (C04, C05)."""
from pyvc.api import *
from .types import *

VIEW = "gaftools/cli/view.py"
Key = TupleT(STR, STR, INT, INT)  # (node id, contig, start, end) as stored in the view index

SEARCH_MACROS = {
    "hits": "lambda k: node_list[k][2] <= int(node[2]) and int(node[1]) < node_list[k][3]",
}


def register(reg):
    reg.add(Contract(
        file=VIEW, func="search",
        params=dict(node=ListT(STR), node_list=ListT(Key)), returns=ListT(Key),
        ghost=dict(glo=INT), locals=dict(result=ListT(Key)),
        spec_funcs=SEARCH_MACROS,
        requires=[
            "len(node) == 3",
            "forall(lambda k: implies(0 <= k < len(node_list), 0 <= node_list[k][2] < node_list[k][3]))",
            # the indexed nodes of one contig, sorted by start, pairwise disjoint (valid rGFA)
            "forall(lambda j, k: implies(0 <= j < k < len(node_list), node_list[j][3] <= node_list[k][2]))",
            "int(node[1]) >= 0",
        ],
        loops={
            1: Loop(fingerprint="while s < e", decreases="e - s", invariant={
                "range": "0 <= s <= e <= len(node_list)",
                "left-end-before-region": "forall(lambda k: implies(0 <= k < s, node_list[k][3] <= q_s))",
                "right-end-after-region-start": "forall(lambda k: implies(e <= k < len(node_list), node_list[k][3] > q_s))",
                "q": "q_s == int(node[1]) and q_e == int(node[2])",
            }),
            2: Loop(fingerprint="while pos < len(node_list)", decreases="len(node_list) - pos", invariant={
                "range": "glo <= pos <= len(node_list) and 0 <= glo",
                "count": "len(result) == pos - glo",
                "elements": "forall(lambda t: implies(0 <= t < len(result), result[t] == node_list[glo + t]))",
                "taken-start-in-region": "forall(lambda k: implies(glo <= k < pos, node_list[k][2] <= q_e))",
                "q": "q_s == int(node[1]) and q_e == int(node[2])",
                "left": "forall(lambda k: implies(0 <= k < glo, node_list[k][3] <= q_s))",
                "right": "forall(lambda k: implies(glo <= k < len(node_list), node_list[k][3] > q_s))",
            }),
        },
        ghost_at={"before:result = []": "glo = s"},
        ensures={
            "contiguous-run-of-the-list": "0 <= glo and glo + len(result) <= len(node_list) and forall(lambda t: implies(0 <= t < len(result), result[t] == node_list[glo + t]))",
            "exactly-the-intersecting-nodes": "forall(lambda k: implies(0 <= k < len(node_list), (glo <= k < glo + len(result)) == hits(k)))",
        },
    ))


IndexT = DictT(Key, ListT(INT))
IN_ENTRY = ("lambda x, t: nodes[t] in ind_dict and exists(lambda m: 0 <= m < len(ind[ind_dict[nodes[t]]]) and ind[ind_dict[nodes[t]]][m] == x)")


def register_selection(reg):
    reg.add(Contract(
        file=VIEW, func="get_unstable", params=dict(regions=ListT(STR), index=IndexT), returns=ListT(STR), trusted=True,
        notes="caller view; view.search (the part that decides which nodes lie under a region) is verified separately; the glue is bounded",
    ))
    reg.add(Contract(
        file=VIEW, func="run", variant="#select-offsets", fragment=("ind_key = sorted(", "if len(offsets) == 0"),
        params=dict(ind=IndexT, nodes=ListT(STR), regions=ListT(STR)),
        types=dict(KEY=Key, STR=STR, INT=INT), locals=dict(ind_dict=DictT(STR, Key), offsets=SetT(INT)),
        spec_funcs={"in_entry": IN_ENTRY, "keyed": "lambda t: nodes[t] in ind_dict"},
        requires=[
            "len(regions) == 0",  # --node mode; --region composes get_unstable with this fragment (bounded stand-in)
            # a view index (C03): one key per node id, no empty entry
            "forall([KEY, KEY], lambda k1, k2: implies(k1 in ind and k2 in ind and k1[0] == k2[0], k1 == k2))",
            "forall(KEY, lambda k: implies(k in ind, len(ind[k]) >= 1))",
        ],
        loops={
            1: Loop(index="it1", seq_name="keyseq1", fingerprint="for i in ind_key", invariant={
                "ids-map-to-their-key": "forall(STR, lambda s: implies(s in ind_dict, ind_dict[s] in ind and ind_dict[s][0] == s))",
                "seen-keys-mapped": "forall(lambda t: implies(0 <= t < it1, keyseq1[t][0] in ind_dict))",
            }),
            2: Loop(index="it2", fingerprint="for nd in nodes", invariant={
                "only-offsets-of-named-indexed-nodes": "forall(lambda x: implies(x in offsets, exists(lambda t: 0 <= t < it2 and in_entry(x, t))))",
                "all-offsets-of-named-indexed-nodes": "forall(lambda t, m: implies(0 <= t < it2 and keyed(t) and 0 <= m < len(ind[ind_dict[nodes[t]]]), "
                                                      "ind[ind_dict[nodes[t]]][m] in offsets))",
                "first-offset-of-each-indexed-node": "forall(lambda t: implies(0 <= t < it2 and keyed(t), ind[ind_dict[nodes[t]]][0] in offsets))",
            }),
        },
        assert_at={"before:offsets = set()": {
            "every-indexed-node-is-mapped": "forall(KEY, lambda k: implies(k in ind, k[0] in ind_dict and ind_dict[k[0]] == k))",
            "unindexed-nodes-unmapped": "forall(STR, lambda s: implies(s in ind_dict, ind_dict[s] in ind and ind_dict[s][0] == s))",
        }},
        ensures={
            "strictly-increasing": "forall(lambda i, j: implies(0 <= i < j < len(offsets), offsets[i] < offsets[j]))",
            "only-records-of-named-nodes": "forall(lambda i: implies(0 <= i < len(offsets), exists(lambda t: 0 <= t < len(nodes) and in_entry(offsets[i], t))))",
            "every-record-of-a-named-node": "forall(lambda t, m: implies(0 <= t < len(nodes) and keyed(t) and 0 <= m < len(ind[ind_dict[nodes[t]]]), "
                                            "exists(lambda i: 0 <= i < len(offsets) and offsets[i] == ind[ind_dict[nodes[t]]][m])))",
            "unaligned-node-contributes-nothing": "forall(lambda t: implies(0 <= t < len(nodes), keyed(t) == exists(KEY, lambda k: k in ind and k[0] == nodes[t])))",
        },
        exc_ensures={"CommandLineError": {
            "raised-only-when-no-named-node-has-alignments": "forall(lambda t: implies(0 <= t < len(nodes), not keyed(t)))",
        }},
    ))
