"""Contracts for gaftools/cli/view.py (C04, C05)."""
from pyvc.api import *
from .types import *

VIEW = "gaftools/cli/view.py"
Key = TupleT(STR, STR, INT, INT)  # (node id, contig, start, end) as stored in the view index

SEARCH_MACROS = {
    "hits": "lambda k: node_list[k][2] <= int(node[2]) and int(node[1]) < node_list[k][3]",
}


def register(reg):
    reg.add(Contract(
        file=VIEW, func="search",
        params=dict(node=ListT(STR), node_list=ListT(Key)), returns=ListT(Key),
        ghost=dict(glo=INT), locals=dict(result=ListT(Key)),
        spec_funcs=SEARCH_MACROS,
        requires=[
            "len(node) == 3",
            "forall(lambda k: implies(0 <= k < len(node_list), 0 <= node_list[k][2] < node_list[k][3]))",
            # the indexed nodes of one contig, sorted by start, pairwise disjoint (valid rGFA)
            "forall(lambda j, k: implies(0 <= j < k < len(node_list), node_list[j][3] <= node_list[k][2]))",
            "int(node[1]) >= 0",
        ],
        loops={
            1: Loop(fingerprint="while s < e", decreases="e - s", invariant={
                "range": "0 <= s <= e <= len(node_list)",
                "left-end-before-region": "forall(lambda k: implies(0 <= k < s, node_list[k][3] <= q_s))",
                "right-end-after-region-start": "forall(lambda k: implies(e <= k < len(node_list), node_list[k][3] > q_s))",
                "q": "q_s == int(node[1]) and q_e == int(node[2])",
            }),
            2: Loop(fingerprint="while pos < len(node_list)", decreases="len(node_list) - pos", invariant={
                "range": "glo <= pos <= len(node_list) and 0 <= glo",
                "count": "len(result) == pos - glo",
                "elements": "forall(lambda t: implies(0 <= t < len(result), result[t] == node_list[glo + t]))",
                "taken-start-in-region": "forall(lambda k: implies(glo <= k < pos, node_list[k][2] <= q_e))",
                "q": "q_s == int(node[1]) and q_e == int(node[2])",
                "left": "forall(lambda k: implies(0 <= k < glo, node_list[k][3] <= q_s))",
                "right": "forall(lambda k: implies(glo <= k < len(node_list), node_list[k][3] > q_s))",
            }),
        },
        ghost_at={"before:result = []": "glo = s"},
        ensures={
            "contiguous-run-of-the-list": "0 <= glo and glo + len(result) <= len(node_list) and forall(lambda t: implies(0 <= t < len(result), result[t] == node_list[glo + t]))",
            "exactly-the-intersecting-nodes": "forall(lambda k: implies(0 <= k < len(node_list), (glo <= k < glo + len(result)) == hits(k)))",
        },
    ))
