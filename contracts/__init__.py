from pyvc.api import Registry


def build_registry():
    from . import sort_c, conversion_c
    reg = Registry()
    sort_c.register(reg)
    conversion_c.register(reg)
    conversion_c.register_to_stable(reg)
    return reg
