from pyvc.api import Registry


def build_registry():
    from . import sort_c, conversion_c, view_c, gfa_c, index_c, order_c, phase_c, stat_c, gaf_c, realign_c
    reg = Registry()
    sort_c.register(reg)
    conversion_c.register(reg)
    conversion_c.register_to_stable(reg)
    conversion_c.register_streaming(reg)
    conversion_c.register_to_unstable(reg)
    sort_c.register_sort_loops(reg)
    sort_c.register_process_alignment(reg)
    view_c.register(reg)
    view_c.register_selection(reg)
    gfa_c.register(reg)
    gfa_c.register_get_path(reg)
    index_c.register(reg)
    order_c.register(reg)
    phase_c.register(reg)
    stat_c.register(reg)
    gaf_c.register(reg)
    gaf_c.register_printer(reg)
    realign_c.register(reg)
    realign_c.register_wfa(reg)
    return reg
