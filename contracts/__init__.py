from pyvc.api import Registry


def build_registry():
    from . import sort_c
    reg = Registry()
    for m in (sort_c,):
        m.register(reg)
    return reg
