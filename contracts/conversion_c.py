"""Contracts for gaftools/conversion.py and gaftools/utils.py (C01, C02, C03)."""
import z3
from pyvc.api import *
from pyvc.engine import Engine, Oblig, Val
from .types import *

CONV = "gaftools/conversion.py"
UTILS = "gaftools/utils.py"
INDEX = "gaftools/cli/index.py"

# base identity of offset i inside segment n traversed in orientation o (DESIGN 3.2)
POS = "lambda n, o, i: ite(o == '>', n.start + i, n.end - 1 - i)"
SEGLEN = "lambda n: n.end - n.start"

SI_MACROS = {
    "so": "lambda k: int(intervals[k].tags['SO'][1])",
    "en": "lambda k: int(intervals[k].tags['SO'][1]) + int(intervals[k].tags['LN'][1])",
    "ovl": "lambda k: int(intervals[k].tags['SO'][1]) < query_end and query_start < int(intervals[k].tags['SO'][1]) + int(intervals[k].tags['LN'][1])",
}

FILTER_REQ = ["s < e", "int(query_start) < int(query_end)", "s >= 0", "int(query_start) >= 0"]


def register(reg):
    reg.add(Contract(
        file=CONV, func="merge_nodes",
        params=dict(node1=StableNode, node2=StableNode, orient1=STR, orient2=STR),
        returns=FalseOr(Pair), types=dict(StableNode=StableNode),
        ghost=dict(i=INT),
        requires=["0 <= node1.start < node1.end", "0 <= node2.start < node2.end",
                  "orient1 == '>' or orient1 == '<'", "orient2 == '>' or orient2 == '<'"],
        spec_funcs={"pos": POS, "seglen": SEGLEN},
        ensures={
            "false-iff-not-mergeable":
                "is_none(result) == (node1.contig_id != node2.contig_id or orient1 != orient2 or "
                "(orient1 == '>' and node1.end != node2.start) or (orient1 == '<' and node1.start != node2.end))",
            "merged-contig-orient": "implies(not is_none(result), val(result)[1] == orient1 and val(result)[0].contig_id == node1.contig_id)",
            "merged-length": "implies(not is_none(result), seglen(val(result)[0]) == seglen(node1) + seglen(node2))",
            "merged-wellformed": "implies(not is_none(result), 0 <= val(result)[0].start < val(result)[0].end)",
            "ident-first": "implies(not is_none(result) and 0 <= i < seglen(node1), pos(val(result)[0], orient1, i) == pos(node1, orient1, i))",
            "ident-second": "implies(not is_none(result) and 0 <= i < seglen(node2), pos(val(result)[0], orient1, seglen(node1) + i) == pos(node2, orient2, i))",
            "covers": "implies(not is_none(result), val(result)[0].start <= node1.start and node1.end <= val(result)[0].end "
                      "and val(result)[0].start <= node2.start and node2.end <= val(result)[0].end)",
        },
    ))
    reg.add(Contract(
        file=UTILS, func="search_intervals",
        params=dict(intervals=ListT(GNode), query_start=INT, query_end=INT, start=INT, end=INT),
        returns=TupleT(INT, INT), ghost=dict(w=INT), spec_funcs=SI_MACROS,
        requires=[
            "forall(lambda k: implies(0 <= k < len(intervals), 'SO' in intervals[k].tags and 'LN' in intervals[k].tags))",
            "forall(lambda k: implies(0 <= k < len(intervals), 0 <= so(k) < en(k)))",
            "forall(lambda j, k: implies(0 <= j < k < len(intervals), en(j) <= so(k)))",
            "0 <= query_start < query_end", "0 <= start", "end <= len(intervals)",
            "start <= w <= end and w < len(intervals) and ovl(w)",
            "forall(lambda k: implies(0 <= k < len(intervals) and ovl(k), start <= k <= end))",
        ],
        ensures={
            "never-minus-one": "result[0] >= 0 and result[1] >= 0",
            "window-in-range": "0 <= result[0] <= result[1] <= len(intervals)",
            "window-contains-every-overlap": "forall(lambda k: implies(0 <= k < len(intervals) and ovl(k), result[0] <= k <= result[1]))",
        },
        decreases="end - start + 1",
    ))
    # the 3-case overlap filter, as a statement-range fragment of the two functions that contain a copy of it
    reg.add(Contract(
        file=CONV, func="to_unstable", variant="#filter",
        fragment=("cases = -1", 2),
        params=dict(s=INT, e=INT, query_start=STR, query_end=STR, new_start=INT, split_contig=BOOL),
        locals=dict(cases=INT), requires=FILTER_REQ, returns=NONE,
        ensures={
            "filter-iff-overlap": "(cases != -1) == (s < int(query_end) and int(query_start) < e)",
            "new_start-set-on-first": "implies(old(new_start) == -1 and s <= int(query_start) < e, "
                                      "new_start == ite(split_contig, int(query_start), int(query_start) - s))",
            "new_start-kept": "implies(not (old(new_start) == -1 and s <= int(query_start) < e), new_start == old(new_start))",
        },
        outputs=["cases", "new_start"],
    ))
    reg.add(Contract(
        file=INDEX, func="convert_coord", variant="#filter",
        fragment=("cases = -1", 2),
        params=dict(node=GNode, query_start=STR, query_end=STR),
        locals=dict(cases=INT), returns=NONE,
        requires=["'SO' in node.tags and 'LN' in node.tags", "0 <= int(node.tags['SO'][1])", "int(node.tags['LN'][1]) > 0",
                  "0 <= int(query_start) < int(query_end)"],
        ensures={"filter-iff-overlap": "(cases != -1) == (int(node.tags['SO'][1]) < int(query_end) and "
                                       "int(query_start) < int(node.tags['SO'][1]) + int(node.tags['LN'][1]))"},
        outputs=["cases"],
    ))


# ---------------------------------------------------------------------------------------------------------
# to_stable: whole function.  Path = token list; output line = field list; ghost prefix arrays S (input), U (output).
SEG_UFUNS = {
    "segtok": ([STR, STR, INT, INT], STR),
    "is_seg": ([STR], BOOL), "seg_o": ([STR], STR), "seg_c": ([STR], STR), "seg_s": ([STR], INT), "seg_e": ([STR], INT),
    "reverse_cigar_of": ([STR], STR),
}
TS_MACROS = {
    "pos": POS, "seglen": SEGLEN,
    "ntok": "lambda: len(gaf_line.path)",
    "name": "lambda j: gaf_line.path[2 * j + 1]",
    "ori": "lambda j: gaf_line.path[2 * j]",
    "nd": "lambda j: nodes[gaf_line.path[2 * j + 1]]",
    "tokstr": "lambda p: segtok(p[1], p[0].contig_id, p[0].start, p[0].end)",
    "P": "lambda: untok(result[5])",
}
TS_REQUIRES = [
    "len(gaf_line.path) >= 2 and len(gaf_line.path) % 2 == 0",
    "forall(lambda j: implies(0 <= j and 2 * j + 1 < len(gaf_line.path), (ori(j) == '>' or ori(j) == '<') and name(j) != '>' and name(j) != '<' and name(j) != '' and name(j) in nodes))",
    "forall(STR, lambda x: implies(x in nodes, 0 <= nodes[x].start < nodes[x].end))",
    "gaf_line.strand == '+'",
    "0 <= gaf_line.path_start < gaf_line.path_end <= gaf_line.path_length",
    "S[0] == 0",
    "forall(lambda j: implies(0 <= j and 2 * j + 1 < len(gaf_line.path), S[j + 1] == S[j] + seglen(nd(j))))",
    "gaf_line.path_length == S[len(gaf_line.path) // 2]",
    "forall(STR, lambda c: implies(c in ref_contig, c in contig_len and not is_seg(c)))",
    # well-formed ordered tag dict: the key list enumerates exactly the present keys
    "forall(lambda t: implies(0 <= t < len(keys(gaf_line.tags)), keys(gaf_line.tags)[t] in gaf_line.tags))",
]


def register_to_stable(reg):
    reg.add(Contract(
        file=CONV, func="StableNode.to_string", params=dict(self=StableNode, orient=STR), returns=STR, ufuns=SEG_UFUNS,
        trusted=True, pure=False,
        ensures={"def": "result == segtok(orient, self.contig_id, self.start, self.end)"},
        post_hints=["is_seg(result) and seg_o(result) == orient and seg_c(result) == self.contig_id and seg_s(result) == self.start and seg_e(result) == self.end"],
        notes="definitional: segtok abstracts '%s%s:%d-%d'; the decode facts state that the format is injective (assumed library fact)",
    ))
    reg.add(Contract(
        file=UTILS, func="reverse_cigar", variant="", params=dict(cg=STR), returns=STR, ufuns=SEG_UFUNS, trusted=True,
        ensures={"def": "result == reverse_cigar_of(cg)"},
        notes="caller view: the CIGAR is an opaque string and reverse_cigar an uninterpreted function of it; the token-level contract is reverse_cigar#tokens",
    ))
    reg.add(Contract(
        file=CONV, func="to_stable",
        params=dict(gaf_line=Alignment, nodes=DictT(STR, StableNode), ref_contig=SetT(STR), contig_len=DictT(STR, INT)),
        returns=LINE, modifies=["gaf_line"],
        ghost=dict(S=IMAP, U=IMAP, run_of=IMAP, Tout=INT, L12=LINE),
        types=dict(STR=STR, INT=INT, StableNode=StableNode),
        ufuns=SEG_UFUNS, spec_funcs=TS_MACROS,
        locals=dict(node_list=ListT(Pair), out_node=ListT(Pair), stable_coord=LINE, orient=Opt(STR), new_line=LINE,
                    new_total=Opt(INT), new_start=Opt(INT)),
        requires=TS_REQUIRES,
        axioms=["forall([STR, STR, INT, INT], lambda o, c, s, e: is_seg(segtok(o, c, s, e)) and seg_o(segtok(o, c, s, e)) == o and "
                "seg_c(segtok(o, c, s, e)) == c and seg_s(segtok(o, c, s, e)) == s and seg_e(segtok(o, c, s, e)) == e)"],
        loops={
            1: Loop(index="it1", fingerprint="for nd in gaf_nodes", invariant={
                "count": "len(node_list) * 2 + (it1 % 2) == it1",
                "orient": "implies(it1 % 2 == 1, (not is_none(orient)) and val(orient) == gaf_line.path[it1 - 1])",
                "nodes": "forall(lambda j: implies(0 <= j < len(node_list), node_list[j][0] == nodes[gaf_line.path[2 * j + 1]] and node_list[j][1] == gaf_line.path[2 * j]))",
                "nodes-wf": "forall(lambda j: implies(0 <= j < len(node_list), 0 <= node_list[j][0].start < node_list[j][0].end and (node_list[j][1] == '>' or node_list[j][1] == '<')))",
            }),
            2: Loop(index="it2", fingerprint="range(len(node_list) - 1)",
                    ghost_before="U[0] = 0\nrun_of[0] = 0\nTout = seglen(node_list[0][0])",
                    invariant={
                "size": "1 <= len(out_node) <= it2 + 1",
                "tot-S": "Tout == S[it2 + 1]",
                "tot-U": "Tout == U[len(out_node) - 1] + seglen(out_node[len(out_node) - 1][0])",
                "U0": "U[0] == 0",
                "offs": "forall(lambda t: implies(0 <= t < len(out_node) - 1, U[t + 1] == U[t] + seglen(out_node[t][0])))",
                "wf": "forall(lambda t: implies(0 <= t < len(out_node), 0 <= out_node[t][0].start < out_node[t][0].end))",
                "run-range": "forall(lambda j: implies(0 <= j <= it2, 0 <= run_of[j] < len(out_node)))",
                "run-contig-orient": "forall(lambda j: implies(0 <= j <= it2, out_node[run_of[j]][0].contig_id == nd(j).contig_id and out_node[run_of[j]][1] == ori(j)))",
                "run-offset": "forall(lambda j: implies(0 <= j <= it2, U[run_of[j]] <= S[j] and "
                              "ite(ori(j) == '>', out_node[run_of[j]][0].start + (S[j] - U[run_of[j]]) == nd(j).start, "
                              "out_node[run_of[j]][0].end - (S[j] - U[run_of[j]]) == nd(j).end)))",
                "run-covers": "forall(lambda j: implies(0 <= j <= it2, out_node[run_of[j]][0].start <= nd(j).start and nd(j).end <= out_node[run_of[j]][0].end))",
                "last-run": "run_of[it2] == len(out_node) - 1",
                "run-end": "forall(lambda j: implies(0 <= j <= it2, S[j + 1] <= ite(run_of[j] == len(out_node) - 1, Tout, U[run_of[j] + 1])))",
                "str-len": "len(stable_coord) == len(out_node) - 1",
                "str-toks": "forall(lambda t: implies(0 <= t < len(out_node) - 1, stable_coord[t] == tokstr(out_node[t])))",
            }),
            3: Loop(index="it3", fingerprint="gaf_line.tags.keys()", ghost_before="L12 = new_line", invariant={
                "len": "len(new_line) == 12 + it3",
                "prefix": "forall(lambda f: implies(0 <= f < 12, new_line[f] == L12[f]))",
                "tags": "forall(lambda t: implies(0 <= t < it3, new_line[12 + t] == cat(keys(gaf_line.tags)[t], gaf_line.tags[keys(gaf_line.tags)[t]])))",
            }),
        },
        ghost_at={
            "after:out_node.append(": "U[len(out_node) - 1] = Tout\nrun_of[i + 1] = len(out_node) - 1\nTout = Tout + seglen(n2)",
            "after:out_node[-1] =": "run_of[i + 1] = len(out_node) - 1\nTout = Tout + seglen(n2)",
            "before:if len(out_node) == 1": "U[len(out_node)] = Tout",
        },
        ensures={
            "fields": "len(result) == 12 + len(keys(gaf_line.tags))",
            "cols-1-4": "result[0] == old(gaf_line).query_name and result[1] == str(old(gaf_line).query_length) and "
                        "result[2] == str(old(gaf_line).query_start) and result[3] == str(old(gaf_line).query_end)",
            "cols-10-12": "result[9] == str(old(gaf_line).residue_matches) and result[10] == str(old(gaf_line).alignment_block_length) "
                          "and result[11] == str(old(gaf_line).mapping_quality)",
            "aligned-length": "int(result[8]) - int(result[7]) == old(gaf_line).path_end - old(gaf_line).path_start",
            "strand-plus-or-minus": "result[4] == '+' or result[4] == '-'",
            "nonempty-path": "len(P()) >= 1",
            # split form
            "split-total-start": "implies(is_seg(P()[0]), int(result[6]) == old(gaf_line).path_length and int(result[7]) == old(gaf_line).path_start and result[4] == '+')",
            "split-all-seg": "implies(is_seg(P()[0]), forall(lambda t: implies(0 <= t < len(P()), is_seg(P()[t]) and 0 <= seg_s(P()[t]) < seg_e(P()[t]))))",
            "split-U-prefix": "implies(is_seg(P()[0]), U[0] == 0 and U[len(P())] == int(result[6]) and "
                              "forall(lambda t: implies(0 <= t < len(P()), U[t + 1] == U[t] + (seg_e(P()[t]) - seg_s(P()[t])))))",
            "split-ident": "implies(is_seg(P()[0]), forall(lambda j: implies(0 <= j and 2 * j + 1 < len(old(gaf_line).path), "
                           "0 <= run_of[j] < len(P()) and seg_c(P()[run_of[j]]) == nd(j).contig_id and seg_o(P()[run_of[j]]) == ori(j) and "
                           "U[run_of[j]] <= S[j] and S[j + 1] <= U[run_of[j] + 1] and "
                           "ite(ori(j) == '>', seg_s(P()[run_of[j]]) + (S[j] - U[run_of[j]]) == nd(j).start, "
                           "seg_e(P()[run_of[j]]) - (S[j] - U[run_of[j]]) == nd(j).end))))",
            # bare reference contig
            "bare-shape": "implies(not is_seg(P()[0]), len(P()) == 1 and P()[0] in ref_contig and int(result[6]) == contig_len[P()[0]])",
            "bare-strand": "implies(not is_seg(P()[0]), (result[4] == '+') == (ori(0) == '>'))",
            "bare-ident": "implies(not is_seg(P()[0]), forall(lambda j: implies(0 <= j and 2 * j + 1 < len(old(gaf_line).path), "
                          "nd(j).contig_id == P()[0] and ori(j) == ori(0) and "
                          "ite(ori(0) == '>', int(result[7]) - old(gaf_line).path_start + S[j] == nd(j).start, "
                          "int(result[8]) + old(gaf_line).path_start - S[j] == nd(j).end))))",
            # CIGAR and tags
            "cigar-reversed-iff-flip": "implies('cg:Z:' in old(gaf_line).tags, gaf_line.tags['cg:Z:'] == ite(result[4] == '-', reverse_cigar_of(old(gaf_line).cigar), old(gaf_line).tags['cg:Z:']))",
            "no-tag-invented": "keys(gaf_line.tags) == keys(old(gaf_line).tags)",
            "other-tags-unchanged": "forall(STR, lambda k: implies(k != 'cg:Z:', gaf_line.tags[k] == old(gaf_line).tags[k]))",
            "tags-in-order": "forall(lambda t: implies(0 <= t < len(keys(gaf_line.tags)), result[12 + t] == cat(keys(gaf_line.tags)[t], gaf_line.tags[keys(gaf_line.tags)[t]])))",
        },
    ))


# ---- C02: the two streaming generators -------------------------------------------------------------------------------------------
from .phase_c import PathAlignment, GAFObjP  # noqa
GAFIn = ObjT("GAF", records=ListT(Alignment))
GAFIn.name = "Obj<GAFIn>"


def _gaf_ctor(eng, args):
    return {"records": eng_state_ghost(eng, "records0")}


def eng_state_ghost(eng, name):
    return eng.cur_state_env[name]


def register_streaming(reg):
    reg.add(Contract(file="(assumed)/gafin.py", func="GAF.read_file", params=dict(self=GAFIn), returns=ListT(Alignment), trusted=True,
                     ensures={"records": "same(result, self.records)"}, variant="#conv"))
    reg.add(Contract(file="(assumed)/gafin.py", func="GAF.close", params=dict(self=GAFIn), trusted=True, variant="#conv"))
    reg.add(Contract(file=CONV, func="to_stable", variant="#caller", params=dict(gaf_line=Alignment, nodes=DictT(STR, StableNode), ref_contig=SetT(STR), contig_len=DictT(STR, INT)),
                     returns=LINE, pure=True, trusted=True, notes="caller view: a deterministic function of its arguments (body verified as to_stable)"))
    reg.add(Contract(file=CONV, func="to_unstable", variant="#caller", params=dict(gaf_line=Alignment, reference=DictT(STR, ListT(GNode))),
                     returns=LINE, pure=True, trusted=True, notes="caller view: a deterministic function of its arguments"))
    for fn, callee, extra in (("unstable_to_stable", "to_stable", dict(nodes=DictT(STR, StableNode), ref_contig=SetT(STR), contig_len=DictT(STR, INT))),
                              ("stable_to_unstable", "to_unstable", dict(reference=DictT(STR, ListT(GNode))))):
        args = ", ".join(extra)
        reg.add(Contract(
            file=CONV, func=fn, fragment=("for gaf_line in gaf_input.read_file()", 1),
            params=dict(gaf_input=GAFIn, yielded=ListT(LINE), **extra),
            call_overrides={callee: (CONV, callee + "#caller")},
            requires=["len(yielded) == 0"],
            loops={1: Loop(index="it1", fingerprint="for gaf_line in gaf_input.read_file()", invariant={
                "one-output-per-record-so-far": "len(yielded) == it1",
                "in-input-order": "forall(lambda j: implies(0 <= j < it1, yielded[j] == %s(gaf_input.records[j], %s)))" % (callee, args),
            })},
            ensures={
                "exactly-one-output-record-per-input-record": "len(yielded) == len(gaf_input.records)",
                "in-input-order-each-the-conversion-of-its-record": "forall(lambda j: implies(0 <= j < len(gaf_input.records), yielded[j] == %s(gaf_input.records[j], %s)))" % (callee, args),
            },
        ))


# ---------------------------------------------------------------------------------------------------------
# to_unstable: whole function, verified once per input shape (the two shapes gaftools itself emits):
#   #bare       the path is a single bare reference-contig name (strand + or -), offsets are contig coordinates
#   #intervals  the path alternates orientation / CONTIG:START-END tokens (strand +), offsets are path offsets
# ghost lo[t] / hi[t] = first / last segment of the token's contig overlapping the token's interval (they exist for a valid record);
# OUT[t] = number of (orientation, id) pairs emitted before token t;  PS[(t, i)] = total length of segments lo[t] .. i-1.
I2c = TupleT(INT, INT)


def tu_macros(shape):
    m = {
        "tok": "lambda t: gaf_line.path[t]",
        "isori": "lambda t: gaf_line.path[t] == '>' or gaf_line.path[t] == '<'",
        "R": "lambda t: reference[ctg(t)]",
        "so": "lambda t, i: int(reference[ctg(t)][i].tags['SO'][1])",
        "en": "lambda t, i: int(reference[ctg(t)][i].tags['SO'][1]) + int(reference[ctg(t)][i].tags['LN'][1])",
        "nout": "lambda t: hi[t] - lo[t] + 1",
    }
    if shape == "bare":
        m.update({"ctg": "lambda t: gaf_line.path[t]", "qs": "lambda t: gaf_line.path_start", "qe": "lambda t: gaf_line.path_end",
                  "ori": "lambda t: ite(gaf_line.strand == '+', '>', '<')", "body": "lambda t: t == 0"})
    else:
        # the decoded parts of token t are named by ghost maps (definitional requires below): quantified hypotheses then mention
        # CT[t] / QS[t] / ... instead of the nested split/int terms, and t % 2 only occurs in the defining clause of BODY
        m.update({"ctg": "lambda t: CT[t]", "qs": "lambda t: QS[t]", "qe": "lambda t: QE[t]", "ori": "lambda t: ORI[t]", "body": "lambda t: BODY[t]",
                  "so": "lambda t, i: SO[(t, i)]", "en": "lambda t, i: EN[(t, i)]"})
    return m


def tu_requires(shape):
    r = []
    if shape == "bare":
        r += ["len(gaf_line.path) == 1", "not isori(0) and tok(0) != '' and not (str_contains(tok(0), ':') and str_contains(tok(0), '-'))",
              "gaf_line.strand == '+' or gaf_line.strand == '-'",
              # a rank-0 contig is fully tiled: the aligned interval starts inside its first overlapping segment
              "so(0, lo[0]) <= qs(0)"]
    else:
        r += ["len(gaf_line.path) >= 2 and len(gaf_line.path) % 2 == 0", "gaf_line.strand == '+'",
              "forall(lambda t: implies(0 <= t < len(gaf_line.path) and t % 2 == 0, isori(t)))",
              "forall(lambda t: implies(0 <= t < len(gaf_line.path) and t % 2 == 1, not isori(t) and tok(t) != '' and str_contains(tok(t), ':') and str_contains(tok(t), '-') and "
              "len(rsplit_colon_1(rstrip(tok(t)))) == 2 and len(split_dash(rstrip(rsplit_colon_1(rstrip(tok(t)))[1]))) == 2))",
              # definitions of the ghost names
              "forall(lambda t: implies(0 <= t < len(gaf_line.path), BODY[t] == (t % 2 == 1)))",
              "forall(lambda t: implies(0 <= t < len(gaf_line.path) and t % 2 == 1, CT[t] == rsplit_colon_1(rstrip(gaf_line.path[t]))[0] and "
              "QS[t] == int(split_dash(rstrip(rsplit_colon_1(rstrip(gaf_line.path[t]))[1]))[0]) and "
              "QE[t] == int(split_dash(rstrip(rsplit_colon_1(rstrip(gaf_line.path[t]))[1]))[1]) and ORI[t] == gaf_line.path[t - 1]))",
              "forall(lambda t, i: implies(0 <= t < len(gaf_line.path) and t % 2 == 1 and 0 <= i < len(reference[CT[t]]), "
              "SO[(t, i)] == int(reference[CT[t]][i].tags['SO'][1]) and EN[(t, i)] == int(reference[CT[t]][i].tags['SO'][1]) + int(reference[CT[t]][i].tags['LN'][1])))"]
    r += [
        "0 <= gaf_line.path_start < gaf_line.path_end <= gaf_line.path_length",
        "forall(lambda t: implies(0 <= t < len(gaf_line.path) and body(t), ctg(t) in reference and 0 <= qs(t) < qe(t)))",
        "forall(lambda t, i: implies(0 <= t < len(gaf_line.path) and body(t) and 0 <= i < len(R(t)), 'SO' in R(t)[i].tags and 'LN' in R(t)[i].tags and 0 <= so(t, i) < en(t, i)))",
        "forall(lambda t, i, j: implies(0 <= t < len(gaf_line.path) and body(t) and 0 <= i < j < len(R(t)), en(t, i) <= so(t, j)))",
        "forall(lambda t: implies(0 <= t < len(gaf_line.path) and body(t), 0 <= lo[t] <= hi[t] < len(R(t))))",
        "forall(lambda t, i: implies(0 <= t < len(gaf_line.path) and body(t) and 0 <= i < len(R(t)), (lo[t] <= i <= hi[t]) == (so(t, i) < qe(t) and qs(t) < en(t, i))))",
        "OUT[0] == 0 and forall(lambda t: implies(0 <= t < len(gaf_line.path), OUT[t + 1] == OUT[t] + ite(body(t), nout(t), 0)))",
        # pairwise form of the same prefix sums (consequence of the step form by induction; both hold for the true prefix sums)
        "forall(lambda t, u: implies(0 <= t < u <= len(gaf_line.path), OUT[t] + ite(body(t), nout(t), 0) <= OUT[u])) and forall(lambda t: implies(0 <= t <= len(gaf_line.path), OUT[t] >= 0))",
        "forall(lambda t: implies(0 <= t < len(gaf_line.path) and body(t), PS[(t, lo[t])] == 0))",
        "forall(lambda t, i: implies(0 <= t < len(gaf_line.path) and body(t) and lo[t] <= i <= hi[t], PS[(t, i + 1)] == PS[(t, i)] + (en(t, i) - so(t, i))))",
        "TOT[0] == 0 and forall(lambda t: implies(0 <= t < len(gaf_line.path), TOT[t + 1] == TOT[t] + ite(body(t), PS[(t, hi[t] + 1)], 0)))",
        "forall(lambda t: implies(0 <= t < len(keys(gaf_line.tags)), keys(gaf_line.tags)[t] in gaf_line.tags))",
    ]
    return r


EMITTED = ("forall(lambda t, k: implies(0 <= t < {n} and body(t) and 0 <= k < nout(t), "
           "unstable_coord[2 * (OUT[t] + k)] == ori(t) and unstable_coord[2 * (OUT[t] + k) + 1] == "
           "R(t)[ite(ori(t) == '<', hi[t] - k, lo[t] + k)].id))")


def register_to_unstable(reg):
    for shape in ("bare", "intervals"):
        bare = shape == "bare"
        ens = {
            "always-plus-strand": "result[4] == '+'",
            "cols-1-4": "result[0] == old(gaf_line).query_name and result[1] == str(old(gaf_line).query_length) and "
                        "result[2] == str(old(gaf_line).query_start) and result[3] == str(old(gaf_line).query_end)",
            "cols-10-12": "result[9] == str(old(gaf_line).residue_matches) and result[10] == str(old(gaf_line).alignment_block_length) "
                          "and result[11] == str(old(gaf_line).mapping_quality)",
            "walk-length": "len(untok(result[5])) == 2 * OUT[len(old(gaf_line).path)]",
            "walk-is-the-covering-segments-in-travel-order":
                "forall(lambda t, k: implies(0 <= t < len(old(gaf_line).path) and body(t) and 0 <= k < nout(t), "
                "untok(result[5])[2 * (OUT[t] + k)] == ori(t) and untok(result[5])[2 * (OUT[t] + k) + 1] == R(t)[ite(ori(t) == '<', hi[t] - k, lo[t] + k)].id))",
            "aligned-length": "int(result[8]) - int(result[7]) == old(gaf_line).path_end - old(gaf_line).path_start",
            "cigar-reversed-iff-flip": "implies('cg:Z:' in old(gaf_line).tags, gaf_line.tags['cg:Z:'] == ite(old(gaf_line).strand == '-', reverse_cigar_of(old(gaf_line).cigar), old(gaf_line).tags['cg:Z:']))",
            "no-tag-invented": "same(keys(gaf_line.tags), keys(old(gaf_line).tags))",
            "other-tags-unchanged": "forall(STR, lambda k: implies(k != 'cg:Z:', gaf_line.tags[k] == old(gaf_line).tags[k]))",
            "tags-in-order": "len(result) == 12 + len(keys(gaf_line.tags)) and forall(lambda t: implies(0 <= t < len(keys(gaf_line.tags)), result[12 + t] == cat(keys(gaf_line.tags)[t], gaf_line.tags[keys(gaf_line.tags)[t]])))",
        }
        if bare:
            ens.update({
                "bare-total-is-the-length-of-the-covering-segments": "int(result[6]) == PS[(0, hi[0] + 1)]",
                "bare-forward-identity": "implies(old(gaf_line).strand == '+' and 0 <= r < old(gaf_line).path_end - old(gaf_line).path_start, "
                                         "so(0, lo[0]) + (int(result[7]) + r) == old(gaf_line).path_start + r)",
                "bare-reverse-identity": "implies(old(gaf_line).strand == '-' and 0 <= r < old(gaf_line).path_end - old(gaf_line).path_start, "
                                         "(so(0, lo[0]) + PS[(0, hi[0] + 1)]) - 1 - (int(result[7]) + r) == old(gaf_line).path_end - 1 - r)",
            })
        else:
            ens["split-offsets-copied"] = ("int(result[6]) == old(gaf_line).path_length and int(result[7]) == old(gaf_line).path_start and "
                                           "int(result[8]) == old(gaf_line).path_end")
        tpos = "0" if bare else "it1 - 1"
        reg.add(Contract(
            file=CONV, func="to_unstable", variant="#" + shape,
            params=dict(gaf_line=Alignment, reference=DictT(STR, ListT(GNode))), returns=LINE, modifies=["gaf_line"],
            ghost=dict(dict(lo=IMAP, hi=IMAP, OUT=IMAP, PS=MapT(I2c, INT), TOT=IMAP, L12=LINE, r=INT, B=INT, UC0=LINE),
                       **({} if bare else dict(CT=MapT(INT, STR), QS=IMAP, QE=IMAP, ORI=MapT(INT, STR), BODY=MapT(INT, BOOL), SO=MapT(I2c, INT), EN=MapT(I2c, INT)))),
            types=dict(STR=STR, INT=INT),
            ufuns=dict(SEG_UFUNS, rsplit_colon_1=([STR], LINE), split_dash=([STR], LINE), rstrip=([STR], STR), str_contains=([STR, STR], BOOL)),
            spec_funcs=tu_macros(shape),
            call_ghost={"search_intervals": {"w": "lo[it1 - 1]"}},
            locals=dict(unstable_coord=LINE, orient=Opt(STR), nodes_tmp=ListT(STR), new_line=LINE, split_contig=BOOL),
            requires=tu_requires(shape),
            loops={
                1: Loop(index="it1", fingerprint="for nd in gaf_contigs",
                        pres_from={"emitted": ["emitted-this-token", "emitted-earlier-kept", "token", "loop1:emitted", "!noqf"]}, invariant={
                    "orient": ("implies(it1 >= 1, (not is_none(orient)) and val(orient) == ori(0)) and implies(it1 == 0, is_none(orient))" if bare else
                               "implies(it1 >= 1 and it1 % 2 == 1, (not is_none(orient)) and val(orient) == tok(it1 - 1)) and implies(it1 == 0, is_none(orient))"),
                    "emitted-count": "len(unstable_coord) == 2 * OUT[it1]",
                    "emitted": EMITTED.format(n="it1"),
                    "total": "new_total == TOT[it1]",
                    "first-offset": ("implies(it1 >= 1, new_start == qs(0) - so(0, lo[0])) and implies(it1 == 0, new_start == -1)" if bare else "True"),
                    "split-flag": "implies(it1 >= 1 and body(it1 - 1), defined(split_contig) and split_contig == %s)" % ("False" if bare else "True"),
                }),
                2: Loop(index="it2", fingerprint="for i in reference[query_contig_name][start:end + 1]",
                        pres_from={"taken": ["filter-is-covering-membership", "loop2:taken", "loop2:window", "covering-ends-in-range"],
                                   "taken-ids": ["slice-element", "filter-is-covering-membership", "loop2:taken", "loop2:taken-ids", "loop2:window", "covering-ends-in-range"],
                                   "total": ["ps-step", "filter-is-covering-membership", "loop2:taken", "loop2:total", "loop2:window", "covering-ends-in-range"]},
                        invariant={
                    "window": "0 <= start <= lo[it1 - 1] and hi[it1 - 1] <= end",
                    "taken": "len(nodes_tmp) == ite(start + it2 <= lo[it1 - 1], 0, ite(start + it2 > hi[it1 - 1], nout(it1 - 1), start + it2 - lo[it1 - 1]))",
                    "taken-ids": "forall(lambda k: implies(0 <= k < len(nodes_tmp), nodes_tmp[k] == R(it1 - 1)[lo[it1 - 1] + k].id))",
                    "total": "new_total == TOT[it1 - 1] + PS[(it1 - 1, lo[it1 - 1] + len(nodes_tmp))]",
                    "first-offset": ("implies(len(nodes_tmp) >= 1, new_start == qs(0) - so(0, lo[0])) and implies(len(nodes_tmp) == 0, new_start == -1)" if bare else "True"),
                }),
                3: Loop(index="it3", fingerprint="for i in reversed(nodes_tmp)", invariant={
                    "emitted-count": "len(unstable_coord) == B + 2 * it3",
                    "prefix-kept": "forall(lambda j: implies(0 <= j < B, unstable_coord[j] == UC0[j]))",
                    "emitted-now-orientation": "forall(lambda k: implies(0 <= k < it3, unstable_coord[B + 2 * k] == '<'))",
                    "emitted-now-id": "forall(lambda k: implies(0 <= k < it3, unstable_coord[B + 2 * k + 1] == nodes_tmp[len(nodes_tmp) - 1 - k]))",
                }),
                4: Loop(index="it4", fingerprint="for i in nodes_tmp", invariant={
                    "emitted-count": "len(unstable_coord) == B + 2 * it4",
                    "prefix-kept": "forall(lambda j: implies(0 <= j < B, unstable_coord[j] == UC0[j]))",
                    "emitted-now-orientation": "forall(lambda k: implies(0 <= k < it4, unstable_coord[B + 2 * k] == val(orient)))",
                    "emitted-now-id": "forall(lambda k: implies(0 <= k < it4, unstable_coord[B + 2 * k + 1] == nodes_tmp[k]))",
                }),
                5: Loop(index="it5", fingerprint="for k in gaf_line.tags.keys()", ghost_before="L12 = new_line", invariant={
                    "len": "len(new_line) == 12 + it5", "prefix": "forall(lambda f: implies(0 <= f < 12, new_line[f] == L12[f]))",
                    "tags": "forall(lambda t: implies(0 <= t < it5, new_line[12 + t] == cat(keys(gaf_line.tags)[t], gaf_line.tags[keys(gaf_line.tags)[t]])))",
                }),
            },
            ghost_at={"before:if orient == ": "B = len(unstable_coord)\nUC0 = unstable_coord"},
            assert_at={
                "before:start, end = utils.search_intervals(": {
                    "token": "nd == tok(it1 - 1) and body(it1 - 1)",
                    "contig-decoded": "query_contig_name == ctg(it1 - 1)",
                    "interval-decoded": "int(query_start) == qs(it1 - 1) and int(query_end) == qe(it1 - 1)",
                    "split-flag": "split_contig == %s" % ("False" if bare else "True"),
                    "orient-is-the-token-orientation": "(not is_none(orient)) and val(orient) == ori(it1 - 1)",
                    "covering-ends-in-range": "0 <= lo[it1 - 1] <= hi[it1 - 1] < len(R(it1 - 1))",
                    "covering-ends-overlap": "so(it1 - 1, lo[it1 - 1]) < qe(it1 - 1) and qs(it1 - 1) < en(it1 - 1, lo[it1 - 1]) and "
                                             "so(it1 - 1, hi[it1 - 1]) < qe(it1 - 1) and qs(it1 - 1) < en(it1 - 1, hi[it1 - 1])",
                    "covering-ends-decoded": "so(it1 - 1, lo[it1 - 1]) == int(R(it1 - 1)[lo[it1 - 1]].tags['SO'][1]) and "
                                             "en(it1 - 1, lo[it1 - 1]) == int(R(it1 - 1)[lo[it1 - 1]].tags['SO'][1]) + int(R(it1 - 1)[lo[it1 - 1]].tags['LN'][1]) and "
                                             "so(it1 - 1, hi[it1 - 1]) == int(R(it1 - 1)[hi[it1 - 1]].tags['SO'][1]) and "
                                             "en(it1 - 1, hi[it1 - 1]) == int(R(it1 - 1)[hi[it1 - 1]].tags['SO'][1]) + int(R(it1 - 1)[hi[it1 - 1]].tags['LN'][1])"},
                "before:if orient == ": {
                    "all-overlapping-segments-taken": "len(nodes_tmp) == nout(it1 - 1)"},
                "before:s = int(i.tags['SO'][1])": {"slice-element": "start + it2 - 1 < len(R(it1 - 1)) and same(i, R(it1 - 1)[start + it2 - 1])"},
                "before:cases = -1": {"segment-decoded": "s == so(it1 - 1, start + it2 - 1) and e == en(it1 - 1, start + it2 - 1)"},
                "before:if cases != -1:": {
                    "filter-is-covering-membership": "(cases != -1) == (lo[it1 - 1] <= start + it2 - 1 <= hi[it1 - 1])",
                    "ps-step": "implies(lo[it1 - 1] <= start + it2 - 1 <= hi[it1 - 1], PS[(it1 - 1, start + it2)] == PS[(it1 - 1, start + it2 - 1)] + (e - s))"},
                "before:return new_line": {"path-field-is-the-emitted-walk": "same(untok(new_line[5]), unstable_coord)"},
                "after:if orient == ": {
                    "emitted-count-after-token": "len(unstable_coord) == 2 * (OUT[it1 - 1] + nout(it1 - 1))",
                    "emitted-this-token-by-position": {
                        "expr": "forall(lambda k: implies(0 <= k < nout(it1 - 1), unstable_coord[B + 2 * k] == ori(it1 - 1) and "
                                "unstable_coord[B + 2 * k + 1] == R(it1 - 1)[ite(ori(it1 - 1) == '<', hi[it1 - 1] - k, lo[it1 - 1] + k)].id))",
                        "from": ["loop3:emitted-count", "loop3:emitted-now-orientation", "loop3:emitted-now-id", "loop4:emitted-count", "loop4:emitted-now-orientation",
                                 "loop4:emitted-now-id", "loop2:taken-ids", "all-overlapping-segments-taken", "orient-is-the-token-orientation"]},
                    "emitted-this-token": {
                        # two-variable form (t pinned to this token): the same trigger shape as the loop invariant `emitted`
                        "expr": "forall(lambda t, k: implies(t == it1 - 1 and 0 <= k < nout(t), unstable_coord[2 * (OUT[t] + k)] == ori(t) and "
                                "unstable_coord[2 * (OUT[t] + k) + 1] == R(t)[ite(ori(t) == '<', hi[t] - k, lo[t] + k)].id))",
                        "from": ["emitted-this-token-by-position", "loop1:emitted-count"]},
                    "emitted-earlier-kept": EMITTED.format(n="it1 - 1")}},
            ensures=ens,
            notes="bare-*-identity: with the covering segments tiling [so(lo), so(lo)+PS) the base at read offset r sits at contig position so(lo)+start'+r (forward walk) "
                  "resp. so(lo)+PS-1-(start'+r) (reversed walk), which must be path_start+r resp. path_end-1-r of the input",
        ))


def register_reverse_cigar_tokens(reg):
    # reverse_cigar at token level: the CIGAR as its list of maximal digit / non-digit runs (length, op, length, op, ...)
    reg.add(Contract(
        file=UTILS, func="reverse_cigar", variant="#tokens", params=dict(cg=STR), returns=LINE,
        ufuns={"cigar_runs": ([STR], LINE)}, locals=dict(new_cigar=LINE, all_cigars=LINE),
        spec_funcs={"runs": "lambda: cigar_runs(cg)", "n": "lambda: len(cigar_runs(cg))"},
        requires=["len(cigar_runs(cg)) % 2 == 0"],
        loops={1: Loop(index="it1", fingerprint="for i in range(len(all_cigars)", invariant={
            "pairs-so-far": "len(new_cigar) == 2 * it1",
            "reversed-pairwise": "forall(lambda j: implies(0 <= j < it1, new_cigar[2 * j] == runs()[n() - 2 - 2 * j] and new_cigar[2 * j + 1] == runs()[n() - 1 - 2 * j]))",
        })},
        ensures={
            "same-number-of-runs": "len(result) == n()",
            "operations-in-reverse-order-each-with-its-own-length":
                "forall(lambda j: implies(0 <= j and 2 * j < n(), result[2 * j] == runs()[n() - 2 - 2 * j] and result[2 * j + 1] == runs()[n() - 1 - 2 * j]))",
        },
        notes="the result is read as the token list that the string concatenation builds (one token per appended run)",
    ))
