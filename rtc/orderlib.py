"""Shared harness for the order_gfa / GFA I/O properties (C06, C07, C18).

* an independent GFA model (own line parser, canonical link spelling),
* an independent oracle *by definition*: connected components, articulation points (a node whose removal disconnects
  its component), blocks (maximal sets of nodes that pairwise lie on a common edge or cannot be separated by removing
  one other node), the collapsed bubble graph, "is it a path", and the chain order by increasing reference offset,
* generators of chain-shaped rGFA chromosomes (reference backbone + ears = bubbles, insertions, deletions, nested and
  multi-segment alleles, inverted links, tips at the chain ends) and of components that are NOT chains,
* runners for the REAL `gaftools order_gfa` (in-process and as a subprocess with a chosen PYTHONHASHSEED).

Nothing in the oracle calls gaftools.
"""
import hashlib
import itertools
import logging
import os
import shutil
import subprocess
import sys

FLIP = {"+": "-", "-": "+"}


# ------------------------------------------------------------------------------------------------
# independent GFA model
# ------------------------------------------------------------------------------------------------
def canon(a, oa, b, ob):
    """the two spellings 'a oa b ob' and 'b ~ob a ~oa' denote the same link; pick the smaller one"""
    return min((a, oa, b, ob), (b, FLIP[ob], a, FLIP[oa]))


def parse_gfa(lines):
    """-> (segs: {id: (seq, [tag strings])} in file order, links: [(canonical key, overlap, (tags...))], kinds: str)
    a ValueError is raised for duplicated segment ids (outside every domain used here)"""
    segs, links, kinds = {}, [], []
    for line in lines:
        line = line.rstrip("\n")
        if not line:
            continue
        p = line.split("\t")
        kinds.append(p[0][:1])
        if p[0] == "S":
            if p[1] in segs:
                raise ValueError("duplicate segment " + p[1])
            segs[p[1]] = (p[2], p[3:])
        elif p[0] == "L":
            links.append((canon(p[1], p[2], p[3], p[4]), p[5], tuple(p[6:])))
    return segs, links, "".join(kinds)


def tagmap(tags):
    """['SN:Z:chr1', ...] -> {'SN': ('Z', 'chr1')}; values may contain ':'"""
    out = {}
    for t in tags:
        name, typ, val = t.split(":", 2)
        out[name] = (typ, val)
    return out


def digest(lines, *extra):
    h = hashlib.sha1(("\n".join(lines) + "|" + repr(extra)).encode()).hexdigest()
    return h[:16]


# ------------------------------------------------------------------------------------------------
# oracle: graph notions straight from their definitions (brute force, small graphs only)
# ------------------------------------------------------------------------------------------------
def adjacency(segs, links):
    adj = {v: set() for v in segs}
    for (a, _oa, b, _ob), _ov, _t in links:
        if a in adj and b in adj and a != b:
            adj[a].add(b)
            adj[b].add(a)
    return adj


def _labels(adj, nodes, removed=None):
    """connected-component label of every node of `nodes` minus `removed`"""
    lab = {}
    for s in nodes:
        if s == removed or s in lab:
            continue
        lab[s] = s
        todo = [s]
        while todo:
            x = todo.pop()
            for y in adj[x]:
                if y != removed and y in nodes and y not in lab:
                    lab[y] = s
                    todo.append(y)
    return lab


def components(adj):
    lab = _labels(adj, set(adj))
    comps = {}
    for v in adj:  # file order
        comps.setdefault(lab[v], []).append(v)
    return [frozenset(c) for c in comps.values()]


def articulation_points(adj, comp):
    out = set()
    for v in comp:
        if len(comp) > 2 and len(set(_labels(adj, comp, v).values())) > 1:
            out.add(v)
    return out


def blocks(adj, comp):
    """maximal 2-connected pieces: the block of an edge uv is {u, v} plus every w that shares a block with u and with v;
    two nodes share a block iff they are adjacent or no single other node separates them (Menger)"""
    comp = set(comp)
    lab = {z: _labels(adj, comp, z) for z in comp}

    memo = {}

    def rel(x, y):
        if y in adj[x]:
            return True
        k = (x, y) if x < y else (y, x)
        if k not in memo:
            memo[k] = all(lab[z][x] == lab[z][y] for z in comp if z != x and z != y)
        return memo[k]

    out = set()
    for u in comp:
        for v in adj[u]:
            if u < v:
                out.add(frozenset({u, v} | {w for w in comp if w != u and w != v and rel(w, u) and rel(w, v)}))
    return out


class Chain:
    """analysis of one connected component"""

    def __init__(self, segs, adj, comp):
        self.comp = frozenset(comp)
        self.tags = {v: tagmap(segs[v][1]) for v in comp}
        # name by plurality of SN (the documented way components get their chromosome name)
        cnt = {}
        for v in comp:
            if "SN" in self.tags[v]:
                cnt[self.tags[v]["SN"][1]] = cnt.get(self.tags[v]["SN"][1], 0) + 1
        best = sorted(cnt.items(), key=lambda kv: -kv[1])
        self.name = best[0][0] if best else None
        self.name_strict = bool(best) and (len(best) == 1 or best[0][1] > best[1][1])
        self.artic = articulation_points(adj, comp)
        self.blocks = blocks(adj, comp)
        self.inner = set(comp) - self.artic if len(comp) > 1 else set()
        self.linear = False
        self.elements = None  # [('s', node) | ('b', frozenset(inner nodes))] by increasing reference offset
        self.in_domain = False
        self.why = ""
        self._collapse(adj)

    def _collapse(self, adj):
        if len(self.comp) == 1:
            # a component that is a single segment: a chain of one scaffold node (BO = start of the chromosome's range, NO = 0)
            v = next(iter(self.comp))
            if "SN" not in self.tags[v] or "SO" not in self.tags[v]:
                self.why = "scaffold node without SN/SO"
                return
            if not self.name_strict or self.name != self.tags[v]["SN"][1]:
                self.why = "component is not named after its scaffold nodes by a strict plurality of SN"
                return
            self.linear = True
            self.elements = [("s", v)]
            self.in_domain = True
            return
        verts, edges = [("s", a) for a in self.artic], set()
        for b in self.blocks:
            inner = b - self.artic
            ends = b & self.artic
            if inner:
                verts.append(("b", frozenset(inner)))
                for a in ends:
                    edges.add(frozenset([("b", frozenset(inner)), ("s", a)]))
            elif len(b) == 2:
                x, y = tuple(b)
                edges.add(frozenset([("s", x), ("s", y)]))
            else:
                self.why = "block of >= 3 articulation points without inner node"
                return
        nb = {v: set() for v in verts}
        for e in edges:
            x, y = tuple(e)
            nb[x].add(y)
            nb[y].add(x)
        ends = [v for v in verts if len(nb[v]) == 1]
        if len(verts) < 2 or len(ends) != 2 or any(len(nb[v]) > 2 for v in verts):
            self.why = "collapsed graph is not a path (%d vertices, %d of degree 1, max degree %d)" % (
                len(verts), len(ends), max([len(nb[v]) for v in verts] or [0]))
            return
        walk, prev, cur = [], None, ends[0]
        while cur is not None:
            walk.append(cur)
            nxt = [x for x in nb[cur] if x != prev]
            prev, cur = cur, (nxt[0] if nxt else None)
        if len(walk) != len(verts):
            self.why = "collapsed graph is not connected as a path"
            return
        self.linear = True
        # orientation by increasing reference offset
        scaf = [v[1] for v in walk if v[0] == "s"]
        try:
            sn = {self.tags[v]["SN"] for v in scaf}
            so = [int(self.tags[v]["SO"][1]) for v in scaf]
        except KeyError:
            self.why = "scaffold node without SN/SO"
            return
        if len(sn) != 1:
            self.why = "scaffold nodes carry more than one SN"
            return
        if not self.name_strict or self.name != list(sn)[0][1]:
            self.why = "component is not named after its scaffold nodes by a strict plurality of SN"
            return
        if len(scaf) >= 2:
            inc = all(x < y for x, y in zip(so, so[1:]))
            dec = all(x > y for x, y in zip(so, so[1:]))
            if not inc and not dec:
                self.why = "scaffold SO not monotone along the chain"
                return
            if dec:
                walk.reverse()
        else:
            ref_sn, at = list(sn)[0], so[0]
            side = []
            for v in (walk[0], walk[-1]):
                offs = [int(self.tags[n]["SO"][1]) for n in v[1] if self.tags[n].get("SN") == ref_sn and "SO" in self.tags[n]]
                if not offs:
                    side.append(None)
                elif all(o < at for o in offs):
                    side.append("before")
                elif all(o > at for o in offs):
                    side.append("after")
                else:
                    self.why = "end bubble has reference nodes on both sides of the only scaffold node"
                    return
            if side[0] == side[1]:
                self.why = "reference offsets do not orient a chain with a single scaffold node"
                return
            if side[0] == "after" or side[1] == "before":
                walk.reverse()
        self.elements = walk
        self.in_domain = True


def analyse(lines):
    """-> (segs, links, {component name: Chain}, [Chain...]); chains whose name is not unique are kept in the list only"""
    segs, links, _k = parse_gfa(lines)
    adj = adjacency(segs, links)
    chains = [Chain(segs, adj, c) for c in components(adj)]
    names = {}
    for c in chains:
        names.setdefault(c.name, []).append(c)
    by_name = {n: cs[0] for n, cs in names.items() if len(cs) == 1 and n is not None}
    return segs, links, by_name, chains


def expected_violations(chains_in_order, bono):
    """C06 core: `bono` maps node -> (BO, NO) as observed; chains_in_order are in-domain Chains in --chromosome_order.
    Returns a list of human readable violations (empty = fine)."""
    bad = []
    prev_max, prev_name = None, None
    for ch in chains_in_order:
        missing = [v for v in sorted(ch.comp) if v not in bono or bono[v] is None]
        if missing:
            bad.append("%s: nodes without BO/NO: %s" % (ch.name, missing[:5]))
            continue
        last = None
        for kind, what in ch.elements:
            if kind == "s":
                bo, no = bono[what]
                if no != 0:
                    bad.append("%s: scaffold node %s has NO=%d, expected 0" % (ch.name, what, no))
            else:
                ids = sorted(what)
                bos = {bono[v][0] for v in ids}
                if len(bos) != 1:
                    bad.append("%s: bubble %s does not share one BO: %s" % (ch.name, ids, [bono[v] for v in ids]))
                nos = [bono[v][1] for v in ids]
                if nos != list(range(1, len(ids) + 1)):
                    bad.append("%s: bubble %s has NO %s, expected 1..%d in lexicographic id order" % (ch.name, ids, nos, len(ids)))
                bo = min(bos)
                if len(bos) != 1:
                    bo = max(bos)
            if last is not None and not (bo > last[0]):
                bad.append("%s: BO does not increase from %s (BO %d) to %s (BO %d) along increasing reference offset" % (
                    ch.name, _el(last[1]), last[0], _el((kind, what)), bo))
            last = (bo, (kind, what))
        allbo = [bono[v][0] for v in ch.comp]
        if prev_max is not None and not (min(allbo) > prev_max):
            bad.append("BO range of %s (min %d) is not above the range of the preceding chromosome %s (max %d)" % (
                ch.name, min(allbo), prev_name, prev_max))
        prev_max, prev_name = max(allbo), ch.name
    return bad


def _el(e):
    return "scaffold %s" % e[1] if e[0] == "s" else "bubble {%s}" % ",".join(sorted(e[1]))


# ------------------------------------------------------------------------------------------------
# running the REAL tool
# ------------------------------------------------------------------------------------------------
class _ListHandler(logging.Handler):
    def __init__(self):
        super().__init__(level=logging.WARNING)
        self.records = []

    def emit(self, record):
        try:
            self.records.append((record.levelname, record.getMessage()))
        except Exception:  # noqa
            self.records.append((record.levelname, str(record.msg)))


_HANDLER = None


def _handler():
    global _HANDLER
    if _HANDLER is None:
        _HANDLER = _ListHandler()
        logging.getLogger().addHandler(_HANDLER)  # also keeps logging.warning() from installing a stderr handler
    return _HANDLER


class Res:
    def __init__(self, exc, files, warnings, rc=None, stderr=""):
        self.exc, self.files, self.warnings, self.rc, self.stderr = exc, files, warnings, rc, stderr

    def ok(self):
        return self.exc is None and (self.rc in (None, 0))

    def describe(self):
        return self.exc or ("exit status %s: %s" % (self.rc, self.stderr.strip().splitlines()[-1:]))


def _collect(outdir):
    files = {}
    if os.path.isdir(outdir):
        for fn in sorted(os.listdir(outdir)):
            with open(os.path.join(outdir, fn)) as f:
                files[fn] = f.read()
    return files


_counter = itertools.count()


def write_input(d, lines, fname="g.gfa"):
    sub = os.path.join(d, "r%d" % next(_counter))
    os.makedirs(sub)
    path = os.path.join(sub, fname)
    with open(path, "w") as f:
        f.write("".join(l + "\n" for l in lines))
    return sub, path


def run_inproc(d, lines, order, by_chrom=True, with_seq=False, keep=False):
    """the REAL run_order_gfa in this process; output files are read back and the scratch directory removed"""
    from gaftools.cli.order_gfa import run_order_gfa
    sub, path = write_input(d, lines)
    outdir = os.path.join(sub, "out")
    h = _handler()
    h.records = []
    exc = None
    try:
        run_order_gfa(path, outdir, by_chrom, ",".join(order), with_seq)
    except SystemExit as e:
        exc = "SystemExit(%r)" % (e.code,)
    except Exception as e:  # noqa
        exc = "%s: %s" % (type(e).__name__, e)
    res = Res(exc, _collect(outdir), list(h.records))
    if not keep:
        shutil.rmtree(sub, ignore_errors=True)
    return res


def cli_command(path, outdir, order, by_chrom, with_seq):
    cmd = [sys.executable, "-m", "gaftools", "order_gfa", "--chromosome_order", ",".join(order), "--outdir", outdir]
    if by_chrom:
        cmd.append("--by-chrom")
    if with_seq:
        cmd.append("--with-sequence")
    return cmd + [path]


def run_cli(d, lines, order, by_chrom=True, with_seq=False, hashseed=0, timeout=120):
    """`python -m gaftools order_gfa` as a subprocess (PYTHONPATH inherited, PYTHONHASHSEED as given)"""
    sub, path = write_input(d, lines)
    outdir = os.path.join(sub, "out")
    env = dict(os.environ)
    env["PYTHONHASHSEED"] = str(hashseed)
    p = subprocess.run(cli_command(path, outdir, order, by_chrom, with_seq), capture_output=True, text=True, timeout=timeout, env=env)
    res = Res(None, _collect(outdir), [], rc=p.returncode, stderr=p.stderr)
    shutil.rmtree(sub, ignore_errors=True)
    return res


def run_cli_many(d, jobs, workers=4):
    """jobs: list of kwargs for run_cli; run a few subprocesses at a time"""
    from concurrent.futures import ThreadPoolExecutor
    with ThreadPoolExecutor(max_workers=workers) as ex:
        return list(ex.map(lambda kw: run_cli(d, **kw), jobs))


# ------------------------------------------------------------------------------------------------
# reading the tool's output (own parser)
# ------------------------------------------------------------------------------------------------
def read_out_gfa(text):
    """-> (S records [(id, seq, [tags])] in file order, L records [(canonical key, overlap, tags)], kinds string)"""
    s, l, kinds = [], [], []
    for line in text.split("\n"):
        if not line:
            continue
        p = line.split("\t")
        kinds.append(p[0][:1])
        if p[0] == "S":
            s.append((p[1], p[2], p[3:]))
        elif p[0] == "L":
            l.append((canon(p[1], p[2], p[3], p[4]), p[5], tuple(p[6:])))
    return s, l, "".join(kinds)


def bo_no_of(tags):
    """(BO, NO) of a tag list, None when either is missing, not integer typed, or repeated"""
    bo = [t for t in tags if t.startswith("BO:")]
    no = [t for t in tags if t.startswith("NO:")]
    if len(bo) != 1 or len(no) != 1:
        return None
    try:
        tb, vb = bo[0].split(":", 2)[1:]
        tn, vn = no[0].split(":", 2)[1:]
        if tb != "i" or tn != "i":
            return None
        return int(vb), int(vn)
    except ValueError:
        return None


def bono_from_files(res, order=None, by_chrom=True, stem="g"):
    """node -> (BO, NO) from the GFA files of a run (per chromosome files or the complete file)"""
    out = {}
    names = ["%s-%s.gfa" % (stem, c) for c in order] if by_chrom else ["%s-complete.gfa" % stem]
    for fn in names:
        if fn in res.files:
            for nid, _seq, tags in read_out_gfa(res.files[fn])[0]:
                out[nid] = bo_no_of(tags)
    return out


def read_csv(text):
    """[(name, color, sn, so, bo, no)] of a CSV written by order_gfa; header lines (one per chromosome) are skipped"""
    rows = []
    for line in text.split("\n"):
        if not line or line == "Name,Color,SN,SO,BO,NO":
            continue
        rows.append(tuple(line.split(",")))
    return rows


# ------------------------------------------------------------------------------------------------
# generators
# ------------------------------------------------------------------------------------------------
class Ids:
    """unique node ids in several styles (lexicographic order deliberately unrelated to creation order)"""
    STYLES = ("s", "alpha", "case", "num")

    def __init__(self, rng, style):
        self.rng, self.style, self.used = rng, style, set()

    def new(self):
        r = self.rng
        while True:
            if self.style == "s":
                v = "s%d" % r.randint(1, 150 + 3 * len(self.used))
            elif self.style == "alpha":
                v = "".join(r.choice("abcxyz019_.#") for _ in range(r.randint(1, 3)))
                if v[0] in "#" or v.isdigit():
                    continue
            elif self.style == "case":
                v = r.choice("nN") + r.choice(["", "0", "_"]) + str(r.randint(1, 30 + len(self.used)))
            else:
                v = str(r.randint(0, 25 + len(self.used)))
            if v not in self.used:
                self.used.add(v)
                return v


S_EXTRA = ["xx:Z:a:b", "cm:Z:x y,z;w", "ab:i:-7", "fl:f:1.5e-3", "hx:H:1AE301", "ar:B:i,1,-2,3", "ch:A:!", "em:Z:", "ur:Z:http://x/y?z=1&w=2",
           "zz:Z:*", "pq:Z:BO:i:3", "kc:i:+12"]
L_EXTRA = ["L1:i:3", "SR:i:1", "L2:i:0", "xy:Z:a:b c", "ec:i:12", "id:Z:e#1"]


RESERVED = {"SN", "SO", "SR", "LN", "BO", "NO"}
PRINTABLE = "".join(chr(c) for c in range(33, 127))


def rand_tag(rng, used=()):
    """a random well-formed optional field TAG:TYPE:VALUE (two-letter name, all SAM types; Z values with ':' and punctuation,
    inner blanks but no trailing blank)"""
    while True:
        name = rng.choice("abcxyzABQ") + rng.choice("abcxyzABQ")
        if name not in RESERVED and name not in used:
            break
    typ = rng.choice("ZZZiifAHB")
    if typ == "Z":
        n = rng.randint(0, 8)
        val = "".join(rng.choice(PRINTABLE + ":::  ,;") for _ in range(n)).rstrip(" ")
    elif typ == "i":
        val = rng.choice(["", "-", "+"]) + str(rng.randint(0, 10 ** rng.randint(1, 9)))
    elif typ == "f":
        val = rng.choice(["0.5", "-1e5", "3", ".25", "+2.5E-3", "12.0"])
    elif typ == "A":
        val = rng.choice(PRINTABLE)
    elif typ == "H":
        val = "".join(rng.choice("0123456789ABCDEF") for _ in range(2 * rng.randint(0, 3)))
    else:
        val = rng.choice("cCsSiIf") + "".join(",%d" % rng.randint(-5, 300) for _ in range(rng.randint(0, 3)))
    return "%s:%s:%s" % (name, typ, val)


OTHER_LINES = ["H\tVN:Z:1.0", "# a comment line", "P\tp1\tx+,y-\t*", "W\tsmp\t1\tctg\t0\t10\t>x<y", "C\tx\t+\ty\t-\t3\t2M",
               "H\tSx:Z:L", "J\tx\t+\ty\t+\t10"]


def sprinkle(rng, lines, n):
    """insert n non-S/L records at random positions"""
    out = list(lines)
    for _ in range(n):
        out.insert(rng.randint(0, len(out)), rng.choice(OTHER_LINES))
    return out


def rand_seq(rng, n):
    """mostly upper-case bases; one sequence in six carries soft-masked (lower-case) bases and N, which a GFA may hold and which must come back
    unchanged (added after seeded change C07-6)"""
    if rng.random() < 0.17:
        return "".join(rng.choice("ACGTacgtnN") for _ in range(n))
    return "".join(rng.choice("ACGT") for _ in range(n))


class Builder:
    """collects segments and links of one GFA; renders lines"""

    def __init__(self, rng, ids, extra_tags=0.0, link_tags=0.0, header=False):
        self.rng, self.ids = rng, ids
        self.segs, self.links, self.keys = [], [], set()
        self.flip = {}
        self.extra_tags, self.link_tags, self.header = extra_tags, link_tags, header

    def seg(self, sn, so, sr, ln=None, flip_p=0.15):
        v = self.ids.new()
        ln = ln or self.rng.randint(1, 3)
        tags = ["SN:Z:%s" % sn, "SO:i:%d" % so, "SR:i:%d" % sr]
        if self.rng.random() < 0.8:
            tags.append("LN:i:%d" % ln)
        for _ in range(3):
            if self.rng.random() < self.extra_tags:
                t = self.rng.choice(S_EXTRA) if self.rng.random() < 0.5 else rand_tag(self.rng)
                if t[:2] not in [x[:2] for x in tags]:
                    tags.append(t)
        if self.rng.random() < 0.5:
            self.rng.shuffle(tags)
        self.segs.append((v, rand_seq(self.rng, ln), tags))
        self.flip[v] = self.rng.random() < flip_p
        return v, ln

    def raw_link(self, a, oa, b, ob, ov=None, tags=None):
        """add a link unless the same link (either spelling) or a link between the same node sides exists"""
        k = canon(a, oa, b, ob)
        if k in self.keys:
            return False
        self.keys.add(k)
        if self.rng.random() < 0.5:
            a, oa, b, ob = b, FLIP[ob], a, FLIP[oa]
        if ov is None:
            ov = "0M" if self.rng.random() < 0.8 else "%dM" % self.rng.randint(1, 9)
        if tags is None:
            tags = []
            for _ in range(2):
                if self.rng.random() < self.link_tags:
                    t = self.rng.choice(L_EXTRA) if self.rng.random() < 0.5 else rand_tag(self.rng)
                    if t[:2] not in [x[:2] for x in tags]:
                        tags.append(t)
        self.links.append((a, oa, b, ob, ov, tuple(tags)))
        return True

    def link(self, a, b):
        """a -> b in walking direction, honouring the nodes' flip flags"""
        return self.raw_link(a, "-" if self.flip[a] else "+", b, "-" if self.flip[b] else "+")

    def lines(self, interleave=False):
        s = ["\t".join(["S", v, seq] + tags) for v, seq, tags in self.segs]
        l = ["\t".join(["L", a, oa, b, ob, ov] + list(t)) for a, oa, b, ob, ov, t in self.links]
        out = s + l
        if interleave:
            self.rng.shuffle(out)
        if self.header:
            out.insert(0, "H\tVN:Z:1.0")
        return out


def hap_namer(rng, chrom, cap):
    """names for non-reference contigs of one chromosome; no name is used more than `cap` times (keeps the plurality
    of SN strictly with the reference name)"""
    count = {}
    sep = rng.choice(["#", "_", "."])

    def name():
        cands = [n for n, c in count.items() if c < cap]
        if cands and rng.random() < 0.6:
            n = rng.choice(cands)
        else:
            n = "H%d%s%s%sc%d" % (len(count) + 1, sep, chrom, sep, rng.randint(1, 9))
            count[n] = 0
        count[n] += 1
        return n, 1 + list(count).index(n)
    return name


def add_chain(b, chrom, n_back, n_ears, tips=(False, False), p_inv=0.3, p_self=0.08, max_alt=3):
    """one chain-shaped chromosome: reference backbone r0..rn (n = n_back >= 1, SO tiled, rank 0) with `n_ears` alternative
    paths between backbone nodes (direct link = deletion, 1..3 non-reference nodes = SNP-like/insertion/multi-segment allele;
    ears may nest or overlap), optional non-reference tips on the first/last backbone node, extra links with '-' orientations
    between already linked nodes (inversions) and self links.  Returns the backbone node list."""
    rng = b.rng
    assert n_back >= 1
    hap = hap_namer(rng, chrom, n_back)
    so = rng.choice([0, 0, 5, 1000])
    back = []
    for _ in range(n_back + 1):
        v, ln = b.seg(chrom, so, 0)
        so += ln
        back.append(v)
    for x, y in zip(back, back[1:]):
        b.link(x, y)

    def alt():
        n, rank = hap()
        return b.seg(n, rng.randint(0, 50), rank)[0]

    for _ in range(n_ears):
        i = rng.randrange(0, n_back)
        j = rng.randint(i + 1, min(n_back, i + 3))
        k = rng.choice([0, 1, 1, 1, 2, 3][:3 + max_alt])
        if j == i + 1 and k == 0:
            k = 1
        path = [back[i]] + [alt() for _ in range(k)] + [back[j]]
        for x, y in zip(path, path[1:]):
            b.link(x, y)
        if k >= 1 and j > i + 1 and rng.random() < 0.3:  # cross link allele <-> inner reference node
            b.link(path[1], back[rng.randint(i + 1, j - 1)])
    for end, on in zip((back[0], back[-1]), tips):
        if on:
            t = alt()
            if end == back[0]:
                b.link(t, end)
            else:
                b.link(end, t)
    own = _component_of(b, back[0])
    mine = [(l[0], l[2]) for l in b.links if l[0] != l[2] and l[0] in own]
    for _ in range(2):
        if mine and rng.random() < p_inv:  # same node pair, another combination of sides
            x, y = rng.choice(mine)
            b.raw_link(x, rng.choice("+-"), y, rng.choice("+-"))
    if rng.random() < p_self:
        v = rng.choice(back)
        b.raw_link(v, rng.choice("+-"), v, rng.choice("+-"))
    return back


def _component_of(b, v):
    adj = {}
    for l in b.links:
        adj.setdefault(l[0], set()).add(l[2])
        adj.setdefault(l[2], set()).add(l[0])
    seen, todo = {v}, [v]
    while todo:
        x = todo.pop()
        for y in adj.get(x, ()):
            if y not in seen:
                seen.add(y)
                todo.append(y)
    return seen


CHROM_NAMES = [["chr1", "chr2", "chr3"], ["chr1", "chr10", "chrX"], ["A", "B", "C"], ["ctg.1", "ctg.2", "ctg.10"], ["chrM", "chr21", "chrY"]]


def make_chain_gfa(rng, n_chrom=None, style=None, size="small", extra_tags=0.2, link_tags=0.2, header=None):
    """-> (lines, chromosome names) of an rGFA whose components are all meant to be linear bubble chains"""
    n_chrom = n_chrom or rng.choice([1, 1, 2, 2, 3])
    style = style or rng.choice(["s", "s", "alpha", "case"])
    b = Builder(rng, Ids(rng, style), extra_tags, link_tags, header=rng.random() < 0.3 if header is None else header)
    names = list(rng.choice(CHROM_NAMES))
    rng.shuffle(names)
    names = names[:n_chrom]
    for c in names:
        if rng.random() < 0.12:
            # a chromosome that is ONE segment (chrM-like): it takes exactly one BO, and the next chromosome's range starts after it
            # (added after seeded change C06-6)
            b.seg(c, rng.choice([0, 0, 7]), 0)
            continue
        if size == "tiny":
            n_back, n_ears = rng.randint(1, 3), rng.randint(0, 1)
        elif size == "small":
            n_back, n_ears = rng.randint(1, 6), rng.randint(0, 4)
        elif size == "medium":
            n_back, n_ears = rng.randint(4, 14), rng.randint(2, 9)
        else:
            n_back, n_ears = rng.randint(15, 30), rng.randint(5, 20)
        add_chain(b, c, n_back, n_ears, tips=(rng.random() < 0.3, rng.random() < 0.3))
    return b.lines(interleave=rng.random() < 0.5), names


BAD_KINDS = ("branch_tip", "tri_artic", "single_block", "joined", "bubble_tip")


def add_bad(b, chrom, kind, other=None):
    """a component that is NOT a simple chain (the oracle re-checks that); `other` names a second reference for 'joined'"""
    rng = b.rng
    if kind == "single_block":
        n = rng.randint(1, 4)
        hap = hap_namer(rng, chrom, max(1, n))
        so, back = 0, []
        for _ in range(n + 1):
            v, ln = b.seg(chrom, so, 0)
            so += ln
            back.append(v)
        for x, y in zip(back, back[1:]):
            b.link(x, y)
        if n >= 2 and rng.random() < 0.5:
            b.link(back[-1], back[0])  # circular chromosome
        elif n >= 1 and rng.random() < 0.8 or n >= 2:
            nm, rank = hap()
            a = b.seg(nm, 3, rank)[0]
            b.link(back[0], a)
            b.link(a, back[-1])
        return back
    n_back = rng.randint(3, 6)
    back = add_chain(b, chrom, n_back, rng.randint(0, 2), tips=(False, False), p_inv=0.1, p_self=0.0, max_alt=1)
    mid = back[rng.randint(1, n_back - 1)]

    def tip(on, name=None):
        v = b.seg(name or "T%s%d" % (chrom, len(b.segs)), rng.randint(0, 9), 1)[0]
        b.link(on, v)
        return v

    if kind == "branch_tip":
        tip(mid)
        if rng.random() < 0.5:
            tip(rng.choice(back))
    elif kind == "bubble_tip":
        i = rng.randint(0, n_back - 1)
        a = b.seg("A%s" % chrom, 1, 1)[0]
        b.link(back[i], a)
        b.link(a, back[i + 1])
        tip(a)
    elif kind == "tri_artic":
        i = rng.randint(0, n_back - 2)
        b.link(back[i], back[i + 2])
        tip(back[i + 1])
        if i == 0:
            tip(back[0])
        if i + 2 == n_back:
            tip(back[-1])
    elif kind == "joined":
        # a second, shorter reference chain hangs on a middle node through one haplotype node
        back2 = add_chain(b, other, rng.randint(1, 2), 0, tips=(False, False), p_inv=0.0, p_self=0.0)
        h = b.seg("J%s" % chrom, 0, 2)[0]
        b.link(mid, h)
        b.link(h, rng.choice(back2))
    return back


def pretagged(lines, rng, mode):
    """S lines with BO/NO already present"""
    out = []
    for l in lines:
        if l.startswith("S\t") and (mode == "all" or rng.random() < 0.5):
            p = l.split("\t")
            extra = ["BO:i:%d" % rng.randint(0, 40), "NO:i:%d" % rng.randint(0, 5)]
            if mode == "some":
                extra = extra[:rng.randint(1, 2)]
            for t in extra:
                p.insert(rng.randint(3, len(p)), t)
            l = "\t".join(p)
        out.append(l)
    return out


def perm_lines(lines, rng, limit):
    """all permutations of the lines when <= 7 lines (and within limit), else `limit` seeded shuffles (first = reversed)"""
    n = len(lines)
    if n <= 7:
        ps = list(itertools.permutations(range(n)))
        if len(ps) > limit:
            ps = [ps[0], ps[-1]] + rng.sample(ps[1:-1], limit - 2)
        return [[lines[i] for i in p] for p in ps]
    out = [list(reversed(lines))]
    s_first = [l for l in lines if l.startswith("S")]
    rest = [l for l in lines if not l.startswith("S")]
    out.append(rest + s_first)
    while len(out) < limit:
        p = list(lines)
        rng.shuffle(p)
        out.append(p)
    return out
