"""Engine B dispatcher: bounded stand-ins (runtime checks of the REAL code over an enumerated small scope)
and replay of recorded cases.  Runs under /venv/bin/python with PYTHONPATH=/repo:/verif.

    python -m rtc.run Cxx --tier quick --seed 0 --out res.json --replay-dir replays
    python -m rtc.run Cxx --replay replays/Cxx-....json      (exit 1 if the recorded case still fails)
"""
import argparse
import importlib
import json
import os
import random
import shutil
import sys
import tempfile
import time
import traceback


class Ctx:
    def __init__(self, pid, tier, seed, replay_dir):
        self.pid, self.tier, self.seed, self.replay_dir = pid, tier, seed, replay_dir
        self.rng = random.Random(seed)
        self.evaluations = 0
        self.distinct = set()
        self.samples = []
        self.failures = []
        self.sections = {}
        self.bounds = []
        self.exhaustive = False
        self.tmp = tempfile.mkdtemp(prefix="gaftools-verif-%s-" % pid)
        self.t0 = time.time()
        self._fail_keys = set()

    @property
    def quick(self):
        return self.tier == "quick"

    def case(self, section, key, nontrivial=True, sample=None):
        """count one evaluated case; `key` identifies it for the distinct count"""
        self.evaluations += 1
        self.sections[section] = self.sections.get(section, 0) + 1
        if nontrivial:
            self.distinct.add((section, key))
        if sample is not None and len(self.samples) < 8 and self.sections[section] <= 2:
            self.samples.append({"section": section, "case": sample})

    def fail(self, section, what, case, known_finding=None):
        """record a failing concrete case (deduplicated per section+what prefix); writes a replay file"""
        k = (section, what[:80], known_finding)
        if k in self._fail_keys or len(self.failures) >= 12 or sum(1 for f in self.failures if f["what"].startswith("[%s]" % section)) >= 3:
            return
        self._fail_keys.add(k)
        path = os.path.join(self.replay_dir, "%s-bounded-%s-%d.json" % (self.pid, section.replace(" ", "_").replace("/", "_"), len(self.failures)))
        payload = {"property": self.pid, "kind": "bounded_case", "section": section, "what": what, "case": case,
                   "replay_cmd": "python3-vt checks/check.py %s --replay %s" % (self.pid, path)}
        with open(path, "w") as f:
            json.dump(payload, f, indent=1, default=str)
        self.failures.append({"what": "[%s] %s" % (section, what), "replay": path, "known_finding": known_finding})

    def bound(self, text):
        self.bounds.append(text)

    def dir(self, name=None):
        d = tempfile.mkdtemp(prefix=(name or "d") + "-", dir=self.tmp)
        return d

    def out_of_time(self, budget_s):
        return time.time() - self.t0 > budget_s

    def finish(self, rule):
        shutil.rmtree(self.tmp, ignore_errors=True)
        return {"evaluations": self.evaluations, "distinct_nontrivial": len(self.distinct), "rule": rule, "samples": self.samples,
                "failures": self.failures, "sections": self.sections, "bounds": self.bounds, "exhaustive": self.exhaustive}


def main():
    ap = argparse.ArgumentParser()
    ap.add_argument("pid")
    ap.add_argument("--tier", default="quick")
    ap.add_argument("--seed", type=int, default=0)
    ap.add_argument("--out", default=None)
    ap.add_argument("--replay-dir", default="replays")
    ap.add_argument("--replay", default=None)
    a = ap.parse_args()
    mod = importlib.import_module("rtc.props." + a.pid.lower())
    if a.replay:
        rec = json.load(open(a.replay))
        if rec.get("kind") == "bounded_case":
            ctx = Ctx(a.pid, "quick", 0, tempfile.mkdtemp(prefix="replay-"))
            ok, detail = mod.replay(ctx, rec)
            print("replay of %s: %s  %s" % (a.replay, "property holds on this case now" if ok else "STILL FAILS", detail))
            shutil.rmtree(ctx.tmp, ignore_errors=True)
            sys.exit(0 if ok else 1)
        else:
            from rtc import native
            r = native.replay(rec.get("function"), rec.get("decoded_inputs"))
            print("obligation %s (%s)\nsolver: %s\nnative replay: %s" % (rec.get("obligation"), rec.get("baseline"), rec.get("solver_result"), r))
            sys.exit(1 if r.get("status") == "fails" else 0)
    ctx = Ctx(a.pid, a.tier, a.seed, a.replay_dir)
    try:
        rule = mod.run(ctx)
        res = ctx.finish(rule)
    except BaseException:  # noqa
        shutil.rmtree(ctx.tmp, ignore_errors=True)
        traceback.print_exc()
        sys.exit(3)
    if a.out:
        json.dump(res, open(a.out, "w"), default=str)
    else:
        print(json.dumps({k: v for k, v in res.items() if k != "samples"}, indent=1, default=str))
    sys.exit(1 if res["failures"] else 0)


if __name__ == "__main__":
    main()
