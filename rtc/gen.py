"""Small-scope generators shared by the bounded stand-ins (Engine B) and the replay harness.

Everything here is independent of gaftools: tiny rGFA graphs, walks over them, GAF records, an
independent speller and an independent GFA reader.  Nothing in this module imports gaftools.
"""

import itertools
import random

COMP = {"A": "T", "C": "G", "G": "C", "T": "A", "N": "N"}


def revcomp(s):
    return "".join(COMP[c] for c in reversed(s))


class Seg:
    __slots__ = ("id", "seq", "sn", "so", "sr", "extra", "bo", "no")

    def __init__(self, id, seq, sn, so, sr, extra=()):
        self.id, self.seq, self.sn, self.so, self.sr, self.extra = id, seq, sn, so, sr, tuple(extra)

    @property
    def ln(self):
        return len(self.seq)

    @property
    def end(self):
        return self.so + len(self.seq)


class Graph:
    """segments: list[Seg]; links: list of (id1, o1, id2, o2, overlap, tags) with o in '+-'"""

    def __init__(self, segs, links, header=False):
        self.segs = list(segs)
        self.links = [tuple(l) + ((),) * (6 - len(l)) if len(l) < 6 else tuple(l) for l in links]
        self.header = header
        self.by_id = {s.id: s for s in self.segs}

    # --- oriented step relation, straight from the GFA definition -------------------------------
    def steps(self):
        """set of ((a, oa), (b, ob)) with oa/ob in '><': walking a in oa then b in ob is allowed"""
        flip = {"+": "-", "-": "+"}
        sym = {"+": ">", "-": "<"}
        out = set()
        for a, oa, b, ob, _ov, _t in self.links:
            if a not in self.by_id or b not in self.by_id:
                continue
            out.add(((a, sym[oa]), (b, sym[ob])))
            out.add(((b, sym[flip[ob]]), (a, sym[flip[oa]])))
        return out

    def is_walk(self, steps_list):
        st = self.steps()
        return all((steps_list[i], steps_list[i + 1]) in st for i in range(len(steps_list) - 1))

    def spell(self, steps_list):
        return "".join(
            self.by_id[n].seq if o == ">" else revcomp(self.by_id[n].seq) for n, o in steps_list
        )

    def walks(self, max_steps, min_steps=1):
        st = self.steps()
        succ = {}
        for a, b in st:
            succ.setdefault(a, []).append(b)
        for k in succ:
            succ[k].sort()
        starts = sorted((s.id, o) for s in self.segs for o in "><")
        out = []

        def rec(w):
            if len(w) >= min_steps:
                out.append(list(w))
            if len(w) == max_steps:
                return
            for nx in succ.get(w[-1], []):
                w.append(nx)
                rec(w)
                w.pop()

        for s in starts:
            rec([s])
        return out

    # --- serialisation --------------------------------------------------------------------------
    def s_line(self, s, with_seq=True):
        f = ["S", s.id, s.seq if with_seq else "*", "LN:i:%d" % s.ln]
        if s.sn is not None:
            f += ["SN:Z:%s" % s.sn, "SO:i:%d" % s.so, "SR:i:%d" % s.sr]
        f += list(s.extra)
        return "\t".join(f)

    def l_line(self, l):
        a, oa, b, ob, ov, tags = l
        return "\t".join(["L", a, oa, b, ob, "%dM" % ov] + list(tags))

    def lines(self, with_seq=True):
        out = []
        if self.header:
            out.append("H\tVN:Z:1.0")
        out += [self.s_line(s, with_seq) for s in self.segs]
        out += [self.l_line(l) for l in self.links]
        return out

    def write(self, path, with_seq=True, order=None):
        ls = self.lines(with_seq)
        if order is not None:
            ls = [ls[i] for i in order]
        with open(path, "w") as f:
            f.write("\n".join(ls) + "\n")

    def contigs(self):
        d = {}
        for s in self.segs:
            d.setdefault(s.sn, []).append(s)
        for k in d:
            d[k].sort(key=lambda s: s.so)
        return d

    def ref_contigs(self):
        return sorted({s.sn for s in self.segs if s.sr == 0})


def rand_seq(rng, n):
    return "".join(rng.choice("ACGT") for _ in range(n))


def make_rgfa(rng, n_ref=4, max_len=3, n_bubbles=2, hap_mode="mixed", inversion=False,
              self_link=False, n_chrom=1, declare_from_either=True, link_tags=True, tips=False):
    """A random valid rGFA: rank-0 contigs fully tiled, bubbles whose alternate alleles come from
    haplotype contigs with adjacent and/or separated segments."""
    segs, links = [], []
    nid = [0]

    def new_id():
        nid[0] += 1
        return "s%d" % nid[0]

    for c in range(n_chrom):
        chrom = "chr%d" % (c + 1)
        so = 0
        ref = []
        for _ in range(n_ref):
            ln = rng.randint(1, max_len)
            s = Seg(new_id(), rand_seq(rng, ln), chrom, so, 0)
            so += ln
            ref.append(s)
            segs.append(s)
        for i in range(len(ref) - 1):
            links.append((ref[i].id, "+", ref[i + 1].id, "+", 0, ("SR:i:0",) if link_tags else ()))
        # bubbles: alt allele between ref[i] and ref[j], i<j
        hap_so = {}
        for b in range(n_bubbles):
            if len(ref) < 3:
                break
            i = rng.randint(0, len(ref) - 3)
            j = rng.randint(i + 2, min(len(ref) - 1, i + 3))
            nalt = rng.randint(0, 2)  # 0 = deletion link
            hap = "hap%d#%s" % (rng.randint(1, 2), chrom)
            prev = ref[i].id
            for a in range(nalt):
                ln = rng.randint(1, max_len)
                base = hap_so.get(hap, rng.randint(0, 5))
                gap = 0 if hap_mode == "adjacent" else (rng.randint(1, 4) if hap_mode == "separated" else rng.choice([0, 0, 2]))
                if a == 0 and hap in hap_so:
                    gap = max(gap, rng.randint(1, 3))  # a new allele of the same haplotype lies elsewhere
                s = Seg(new_id(), rand_seq(rng, ln), hap, base + gap, 1 + int(hap[3]))
                hap_so[hap] = s.end
                segs.append(s)
                links.append((prev, "+", s.id, "+", 0, ("SR:i:%d" % s.sr,) if link_tags else ()))
                prev = s.id
            lk = (prev, "+", ref[j].id, "+", 0, ("SR:i:1",) if link_tags else ())
            if declare_from_either and rng.random() < 0.5:
                lk = (ref[j].id, "-", prev, "-", 0, lk[5])
            if (lk[0], lk[2]) not in {(l[0], l[2]) for l in links} and (lk[2], lk[0]) not in {(l[0], l[2]) for l in links}:
                links.append(lk)
        if inversion and len(ref) >= 3:
            i = rng.randint(0, len(ref) - 3)
            links.append((ref[i].id, "+", ref[i + 2].id, "-", 0, ()))
            links.append((ref[i + 1 if i + 1 < len(ref) else i].id, "-", ref[i + 2].id, "+", 0, ()))
        if self_link:
            r = rng.choice(ref)
            links.append((r.id, "+", r.id, "+", 0, ()))
        if tips:
            ln = rng.randint(1, max_len)
            s = Seg(new_id(), rand_seq(rng, ln), "tip#%s" % chrom, 0, 5)
            segs.append(s)
            links.append((ref[rng.randint(0, len(ref) - 1)].id, "+", s.id, "+", 0, ()))
    # de-duplicate links (same unordered end pair) to keep each link once
    seen, out = set(), []
    flip = {"+": "-", "-": "+"}
    for l in links:
        k1 = (l[0], l[1], l[2], l[3])
        k2 = (l[2], flip[l[3]], l[0], flip[l[1]])
        if k1 in seen or k2 in seen:
            continue
        seen.add(k1)
        out.append(l)
    return Graph(segs, out)


def colon_contigs(g):
    """same graph with contig names that contain ':' (chr1 -> chr:1, hap1#chr1 -> hap1:chr:1, injective): an SN:Z value may hold
    any printable character, and stable coordinates `>contig:start-end` are then split at the LAST ':' (defect F18)"""
    for s in g.segs:
        if s.sn is not None:
            s.sn = s.sn.replace("#", ":").replace("chr", "chr:")
    return g


def rename_ids(g, style):
    """same graph with segment names that contain punctuation (GFA names are [!-)+-<>-~][!-~]*; assemblers write utig4-17, ptg000003l.2):
    s12 -> utig4-12 | ptg012l.2 | n#12.  Attributes set on the segments (BO/NO) are kept."""
    fn = {"dash": lambda i: "utig4-" + i[1:], "dot": lambda i: "ptg%03dl.2" % int(i[1:]), "hash": lambda i: "n#" + i[1:]}[style]
    m = {s.id: (fn(s.id) if s.id[0] == "s" and s.id[1:].isdigit() else s.id) for s in g.segs}
    for s in g.segs:
        s.id = m[s.id]
    return Graph(g.segs, [(m[a], oa, m[b], ob, ov, t) for a, oa, b, ob, ov, t in g.links], header=g.header)


def gaf_record(g, walk, start, end, name="r", qlen=None, strand="+", mapq=60, cigar=None, tags=(),
               matches=None, block=None):
    """A GAF line (list of fields) for `walk` = [(id, '>'|'<')...] aligned on [start, end)."""
    path = "".join(o + n for n, o in walk)
    pl = sum(g.by_id[n].ln for n, _ in walk)
    alen = end - start
    if qlen is None:
        qlen = alen
    if cigar is None:
        cigar = "%d=" % alen
    f = [name, str(qlen), "0", str(alen), strand, path, str(pl), str(start), str(end),
         str(alen if matches is None else matches), str(alen if block is None else block), str(mapq)]
    f += list(tags)
    if cigar != "":
        f.append("cg:Z:" + cigar)
    return f


def canonical_ranges(g, walk):
    """(start,end) pairs such that the alignment touches first and last node"""
    lens = [g.by_id[n].ln for n, _ in walk]
    pl = sum(lens)
    out = []
    for s in range(0, lens[0]):
        lo = max(s + 1, pl - lens[-1] + 1)
        for e in range(lo, pl + 1):
            out.append((s, e))
    return out


def all_ranges(g, walk):
    pl = sum(g.by_id[n].ln for n, _ in walk)
    return [(s, e) for s in range(pl) for e in range(s + 1, pl + 1)]


def write_lines(path, recs, bgzf=False, eol="\n"):
    txt = "".join("\t".join(r) + eol if not isinstance(r, str) else r + eol for r in recs)
    if bgzf:
        from pysam import libcbgzf

        w = libcbgzf.BGZFile(path, "wb")
        w.write(txt.encode())
        w.close()
    else:
        with open(path, "wb") as f:  # bytes: no newline translation, UTF-8 whatever the locale
            f.write(txt.encode("utf-8"))


# ---- independent readers -----------------------------------------------------------------------
def read_gfa_independent(path):
    """minimal GFA reader: returns (segments: dict id -> (seq, [tags]), links: multiset list of canonical tuples)"""
    import gzip

    op = gzip.open if path.endswith(".gz") else open
    segs, links, order = {}, [], []
    flip = {"+": "-", "-": "+"}
    with op(path, "rt") as f:
        for line in f:
            line = line.rstrip("\n")
            if not line:
                continue
            p = line.split("\t")
            if p[0] == "S":
                segs[p[1]] = (p[2], p[3:])
                order.append(("S", p[1]))
            elif p[0] == "L":
                a, oa, b, ob, ov = p[1:6]
                k1 = (a, oa, b, ob)
                k2 = (b, flip[ob], a, flip[oa])
                links.append((min(k1, k2), ov, tuple(p[6:])))
                order.append(("L", min(k1, k2)))
    return segs, sorted(links), order


def parse_path(path):
    """independent tokeniser for '>a<b' and '>c:1-5' paths or a bare contig name"""
    if not path or path[0] not in "<>":
        return None
    out, cur = [], None
    for ch in path:
        if ch in "<>":
            if cur is not None:
                out.append(tuple(cur))
            cur = [ch, ""]
        else:
            cur[1] += ch
    out.append(tuple(cur))
    return [(n, o) for o, n in out]


def spell_stable(g, path, strand="+"):
    """Spell a stable path: '>chr1:3-7<hap:0-2' or a bare contig name (whole contig; '-' = revcomp)."""
    cont = g.contigs()

    def contig_seq(c, a, b):
        s = ""
        for sg in cont[c]:
            lo, hi = max(a, sg.so), min(b, sg.end)
            if lo < hi:
                s += sg.seq[lo - sg.so:hi - sg.so]
        if len(s) != b - a:
            raise ValueError("interval %s:%d-%d not covered by segments" % (c, a, b))
        return s

    toks = parse_path(path)
    if toks is None:
        segs = cont[path]
        full = contig_seq(path, segs[0].so, segs[-1].end)
        # coordinates on a bare contig are contig coordinates starting at 0
        full = "?" * segs[0].so + full
        return full if strand == "+" else None, full
    s = ""
    for name, o in toks:
        c, iv = name.rsplit(":", 1)
        a, b = iv.split("-")
        piece = contig_seq(c, int(a), int(b))
        s += piece if o == ">" else revcomp(piece)
    return s, None


def perms(seq, limit, rng):
    seq = list(seq)
    if len(seq) <= 5:
        ps = list(itertools.permutations(range(len(seq))))
        if len(ps) > limit:
            ps = [ps[0]] + rng.sample(ps[1:], limit - 1)
        return ps
    out = [tuple(range(len(seq)))]
    for _ in range(limit - 1):
        p = list(range(len(seq)))
        rng.shuffle(p)
        out.append(tuple(p))
    return out
