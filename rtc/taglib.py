"""Shared harness for the record re-emission properties (C16, C20, C17, C02).

Independent of gaftools: a generator of optional fields over the whole SAM/GAF tag grammar, an own parser of GAF lines
(split on TAB, TAG:TYPE:VALUE by definition), the re-emission oracle (identity up to the documented exceptions) and a
reader that rebuilds an rtc.gen.Graph from GFA lines (for replays).  The `real_*` functions at the end are thin,
quiet wrappers that call the REAL gaftools sub-commands in-process; nothing above them imports gaftools.
"""
import contextlib
import gzip
import io
import os
import re
import string

from rtc.gen import Seg, Graph

LET = string.ascii_letters
ALNUM = string.ascii_letters + string.digits
PRINTABLE = "".join(chr(c) for c in range(33, 127))  # '!'..'~'
PUNCT = "_#.-:*/ "

RE_FIELD = re.compile(r"^([A-Za-z][A-Za-z0-9]):([AifZHB]):(.*)$", re.S)
NUM = r"[-+]?[0-9]*\.?[0-9]+([eE][-+]?[0-9]+)?"
VALUE_RE = {
    "A": re.compile(r"^[!-~]$"),
    "i": re.compile(r"^[-+]?[0-9]+$"),
    "f": re.compile(r"^" + NUM + r"$"),
    "Z": re.compile(r"^[ !-~]*$"),
    "H": re.compile(r"^([0-9A-F][0-9A-F])*$"),
    "B": re.compile(r"^[cCsSiIf](," + NUM + r")*$"),
}

# hand-picked fields that exercise every corner of the grammar (each is used alone and in combinations)
EDGE_FIELDS = [
    "NM:i:0", "NM:i:-1", "AS:i:+37", "xi:i:-2147483648", "xj:i:007",
    "dv:f:0.0123", "de:f:-1.5e-3", "df:f:.5", "dg:f:+2E+10", "dh:f:-.25e-7", "dk:f:3",
    "zz:Z:a_b#c", "A0:Z:.", "z1:Z:-:*/", "ze:Z:", "zs:Z:has space and : colon", "zt:Z:trailing ", "zl:Z: leading", "zb:Z:  ",
    "zq:Z:x.y.z", "zc:Z:cg:Z:5=", "zd:Z:ds:Z:acgt", "zu:Z:~!@$%^&()[]{}<>=+,;'\"\\|`?", "SA:Z:>s1<s2,12,+,5=,60;",
    "xa:A:*", "xb:A::", "xc:A:a", "xd:A:7", "tp:A:P", "tp:A:S",
    "hh:H:1AE301", "he:H:", "h0:H:00",
    "bb:B:i,1,-2", "bf:B:f,1.5e3,-.5", "bc:B:c", "bC:B:C,255,0,+7", "bs:B:S,65535",
    "ds:i:3", "cg:i:5", "ds:A:x", "Xy:Z:mixedCase", "a9:i:9",
]


def split_field(f):
    """(tag, type, value) of a well-formed optional field, else None"""
    m = RE_FIELD.match(f)
    if not m or not VALUE_RE[m.group(2)].match(m.group(3)):
        return None
    return m.group(1), m.group(2), m.group(3)


def wellformed(f):
    return split_field(f) is not None


def rand_tag_name(rng, digit=None):
    if digit is None:
        digit = rng.random() < 0.25
    return rng.choice(LET) + (rng.choice(string.digits) if digit else rng.choice(LET))


def _rand_num(rng, floaty):
    sign = rng.choice(["", "", "-", "+"])
    if not floaty:
        return sign + rng.choice(["0", "1", "7", "42", "255", "65535", "2147483647", "00", str(rng.randint(0, 10 ** rng.randint(1, 12)))])
    form = rng.randint(0, 3)
    ip, fp = str(rng.randint(0, 999)), "".join(rng.choice(string.digits) for _ in range(rng.randint(1, 6)))
    body = [ip + "." + fp, "." + fp, ip, ip + "." + fp][form]
    if rng.random() < 0.4:
        body += rng.choice("eE") + rng.choice(["", "-", "+"]) + str(rng.randint(0, 38))
    return sign + body


def rand_value(rng, ty):
    if ty == "i":
        return _rand_num(rng, False)
    if ty == "f":
        return _rand_num(rng, True)
    if ty == "A":
        return rng.choice(PRINTABLE)
    if ty == "H":
        return "".join(rng.choice("0123456789ABCDEF") for _ in range(2 * rng.randint(0, 4)))
    if ty == "B":
        sub = rng.choice("cCsSiIf")
        return sub + "".join("," + _rand_num(rng, sub == "f") for _ in range(rng.randint(0, 4)))
    # Z: biased towards punctuation and blanks; may be empty, may start/end with a blank
    n = rng.choice([0, 1, 1, 2, 3, 5, 8, 13])
    alpha = rng.choice([ALNUM + PUNCT * 3, PUNCT, PRINTABLE + " " * 8, ALNUM])
    return "".join(rng.choice(alpha) for _ in range(n))


def rand_optional(rng, n, cigar=None, cigar_pos=None, ds=False, forbid=("cg", "ds"), long_z=0):
    """n optional fields with pairwise distinct TAGs (so no repeated TAG:TYPE), none of them cg:Z / ds:Z unless asked:
    cigar = a CIGAR string inserted as cg:Z at cigar_pos (random if None); ds=True inserts a ds:Z difference string."""
    used = set(forbid)
    out = []
    for _ in range(n):
        if rng.random() < 0.3:
            f = rng.choice(EDGE_FIELDS)
            if f[:2] in used:
                continue
            used.add(f[:2])
            out.append(f)
            continue
        for _try in range(20):
            t = rand_tag_name(rng)
            if t not in used:
                break
        else:
            continue
        used.add(t)
        ty = rng.choice("iifZZZAHB")
        out.append("%s:%s:%s" % (t, ty, rand_value(rng, ty)))
    if long_z:
        out.append("zL:Z:" + "".join(rng.choice(ALNUM + "_#.-:*/ ") for _ in range(long_z)) + "x")
    if ds:
        out.insert(rng.randint(0, len(out)), "ds:Z:" + rng.choice([":3*at:2+g", "", ":10", "=ACGT*ag-t"]))
    if cigar is not None:
        pos = rng.randint(0, len(out)) if cigar_pos is None else min(cigar_pos, len(out))
        out.insert(pos, "cg:Z:" + cigar)
    return out


def rand_cigar(rng, span):
    """a CIGAR whose =/X/D operations consume `span` path bases (plus a few I); usually not a palindrome"""
    ops, left = [], span
    while left > 0:
        k = rng.randint(1, left)
        ops.append("%d%s" % (k, rng.choice("==XD")))
        left -= k
        if rng.random() < 0.2:
            ops.append("%dI" % rng.randint(1, 3))
    return "".join(ops)


def parse_line(line):
    return line.split("\t")


def cut_name(name):
    i = name.find(" ")
    return name if i < 0 else name[:i]


def expect_reemit(fields):
    """what a faithful re-emission of a parsed record looks like: identity, except that the read name is cut at its
    first blank and a ds:Z field is dropped"""
    return [cut_name(fields[0])] + list(fields[1:12]) + [f for f in fields[12:] if not f.startswith("ds:Z:")]


def mask_cg(opt):
    return ["cg:Z:<cigar>" if f.startswith("cg:Z:") else f for f in opt]


def has_cg(fields):
    return any(f.startswith("cg:Z:") for f in fields[12:])


def repeated_pairs(fields):
    """TAG:TYPE keys that occur more than once among the optional fields"""
    seen, rep = set(), set()
    for f in fields[12:]:
        k = f[:5]
        (rep if k in seen else seen).add(k)
    return rep


def describe_diff(exp, got):
    if len(got) < 12:
        return "output has %d columns: %r" % (len(got), got)
    for i in range(12):
        if exp[i] != got[i]:
            return "column %d is %r, input has %r" % (i + 1, got[i], exp[i])
    eo, go = exp[12:], got[12:]
    if eo == go:
        return None
    missing = [f for f in eo if f not in go]
    extra = [f for f in go if f not in eo]
    if missing or extra:
        return "optional fields differ: missing %r, unexpected %r (input %r -> output %r)" % (missing, extra, eo, go)
    return "optional fields re-ordered or duplicated: input %r -> output %r" % (eo, go)


# ---- graphs ------------------------------------------------------------------------------------
def graph_from_lines(lines):
    segs, links = [], []
    for l in lines:
        p = l.split("\t")
        if p[0] == "S":
            t = {}
            for x in p[3:]:
                a = x.split(":", 2)
                t[a[0]] = a[2]
            extra = tuple(x for x in p[3:] if x[:2] not in ("LN", "SN", "SO", "SR"))
            s = Seg(p[1], p[2], t.get("SN"), int(t.get("SO", 0)), int(t.get("SR", 0)), extra)
            if "BO" in t:
                s.bo, s.no = int(t["BO"]), int(t["NO"])
            segs.append(s)
        elif p[0] == "L":
            links.append((p[1], p[2], p[3], p[4], int(p[5][:-1]), tuple(p[6:])))
    return Graph(segs, links)


def unstable_nodes(path):
    return [x for x in re.split("[<>]", path) if x]


def stable_per_node(g, walk):
    """an (unmerged) stable path: one >contig:start-end interval per node of the walk"""
    return "".join("%s%s:%d-%d" % (o, g.by_id[n].sn, g.by_id[n].so, g.by_id[n].end) for n, o in walk)


def gzip_copy(src, dst, members=1):
    """gzip-compressed copy; members > 1 writes the text as several gzip members (what `bgzip` or `cat a.gz b.gz` produce: still one
    valid gzip file whose decompressed content is the concatenation)"""
    data = open(src, "rb").read()
    if members <= 1 or len(data) < 2 * members:
        with gzip.open(dst, "wb") as o:
            o.write(data)
        return
    lines = data.splitlines(keepends=True)
    cut = [len(lines) * i // members for i in range(members + 1)]
    open(dst, "wb").close()
    for i in range(members):
        with gzip.open(dst, "ab") as o:
            o.write(b"".join(lines[cut[i]:cut[i + 1]]))


def read_text(path):
    with open(path, "rb") as f:
        head = f.read(2)
    if head == b"\x1f\x8b":
        with gzip.open(path, "rt") as f:  # BGZF is a valid multi-member gzip stream
            return f.read()
    with open(path) as f:
        return f.read()


def lines_of(text):
    """records of an output file whose lines are '\\n'-separated; a final newline is optional"""
    if text == "":
        return []
    if text.endswith("\n"):
        text = text[:-1]
    return text.split("\n")


# ---- the REAL gaftools, in-process and quiet ------------------------------------------------------
@contextlib.contextmanager
def quiet():
    import gc
    import logging
    lvl = logging.root.manager.disable
    logging.disable(logging.CRITICAL)
    try:
        with contextlib.redirect_stdout(io.StringIO()):
            yield
    finally:
        logging.disable(lvl)
        gc.collect()  # several sub-commands never close their writer


def real_str_all(path):
    """unit level: parse every record of a GAF with gaftools.gaf.GAF and print it back with str()"""
    from gaftools.gaf import GAF
    g = GAF(path)
    try:
        return [str(a) for a in g.read_file()]
    finally:
        g.close()


def real_read_line(path, offsets):
    from gaftools.gaf import GAF
    g = GAF(path)
    try:
        return [str(g.read_line(o)) for o in offsets]
    finally:
        g.close()


def real_view(gaf, out, gfa=None, fmt=None, nodes=(), regions=(), index=None):
    from gaftools.cli.view import run
    if os.path.exists(out):
        os.unlink(out)
    with quiet():
        run(gaf, gfa=gfa, output=out, index=index, nodes=list(nodes), regions=list(regions), format=fmt)
    return lines_of(open(out).read())


def real_index(gaf, gfa, out=None):
    import pickle
    from gaftools.cli.index import run
    with quiet():
        run(gaf, gfa, output=out)
    with open(out or gaf + ".gvi", "rb") as f:
        return pickle.load(f)


def real_phase(gaf, tsv, out):
    from gaftools.cli.phase import run
    if os.path.exists(out):
        os.unlink(out)
    with quiet():
        run(gaf, tsv, output=out)
    return open(out).read()


def real_realign(gaf, gfa, fasta, out):
    from gaftools.cli.realign import run_realign
    if os.path.exists(out):
        os.unlink(out)
    with quiet():
        run_realign(gaf, gfa, fasta, output=out, cores=1)
    return lines_of(open(out).read())


def real_stat(gaf, out, cigar=False):
    from gaftools.cli.stat import run_stat
    with quiet():
        run_stat(gaf, cigar_stat=cigar, output=out)
    return open(out).read()


def real_find_path(gfa, inp, out, fasta=False):
    from gaftools.cli.find_path import run
    with quiet():
        run(gfa, inp, output=out, fasta=fasta)
    return open(out).read()


def real_order_gfa(gfa, outdir, chrom_order, by_chrom=True, with_sequence=False):
    from gaftools.cli.order_gfa import run_order_gfa
    with quiet():
        run_order_gfa(gfa, outdir, by_chrom, chromosome_order=chrom_order, with_sequence=with_sequence)
    return {f: open(os.path.join(outdir, f)).read() for f in sorted(os.listdir(outdir))}


def write_fasta(path, reads):
    with open(path, "w") as f:
        for n, s in reads:
            f.write(">%s\n%s\n" % (n, s))
    for ext in (".fai",):
        if os.path.exists(path + ext):
            os.unlink(path + ext)


# ---- records over a graph -------------------------------------------------------------------------
def rand_records(rng, g, n, walks=None, canonical=False, name_space=0.25, ds=0.15, no_cg=0.3, max_tags=5,
                 minus=0.0, prefix="q", max_steps=4, long_z=0, forbid=("cg", "ds")):
    """n GAF records (walk, start, end, fields) over random walks of g with optional fields over the whole grammar.
    Read names are unique up to their first blank."""
    from rtc.gen import gaf_record, canonical_ranges, all_ranges
    if walks is None:
        walks = g.walks(max_steps)
    out = []
    for i in range(n):
        w = rng.choice(walks)
        s, e = rng.choice(canonical_ranges(g, w) if canonical else all_ranges(g, w))
        cg = None if rng.random() < no_cg else rand_cigar(rng, e - s)
        tags = rand_optional(rng, rng.randint(0, max_tags), cigar=cg, ds=rng.random() < ds, long_z=long_z, forbid=forbid)
        name = "%s%d" % (prefix, i)
        if rng.random() < name_space:
            name += rng.choice([" extra", " 1 2", "  ", " x:Z:y"])
        elif rng.random() < 0.2:
            name = rng.choice(["m64/%d/ccs", "r:%d", "ab:Z:%d", "r_%d#1"]) % i
        f = gaf_record(g, w, s, e, name=name, qlen=e - s + rng.randint(0, 3), strand="-" if rng.random() < minus else "+",
                       mapq=rng.choice([0, 1, 60, 60, 255]), cigar="", tags=tags, matches=rng.randint(1, e - s), block=e - s + rng.randint(0, 2))
        out.append((w, s, e, f))
    return out


def reads_for(g, recs, rng):
    """FASTA reads for realign: the spelled path interval of every record, sometimes with a mismatch or a deletion"""
    reads = []
    for w, s, e, f in recs:
        seq = g.spell(w)[s:e]
        if len(seq) > 3 and rng.random() < 0.4:
            k = rng.randint(1, len(seq) - 2)
            seq = seq[:k] + ("" if rng.random() < 0.5 else {"A": "C", "C": "G", "G": "T", "T": "A"}[seq[k]]) + seq[k + 1:]
        seq += "ACGT"[: max(0, int(f[1]) - len(seq))] + "A" * 4
        reads.append([cut_name(f[0]), seq])
    return reads


def bgzf_blocks(path):
    """number of non-empty BGZF blocks of a file (walks the BSIZE fields of the gzip members)"""
    import struct
    n = 0
    with open(path, "rb") as f:
        data = f.read()
    pos = 0
    while pos < len(data):
        assert data[pos:pos + 4] == b"\x1f\x8b\x08\x04", "not a BGZF block at %d" % pos
        xlen = struct.unpack("<H", data[pos + 10:pos + 12])[0]
        extra = data[pos + 12:pos + 12 + xlen]
        bsize, q = None, 0
        while q < len(extra):
            si, slen = extra[q:q + 2], struct.unpack("<H", extra[q + 2:q + 4])[0]
            if si == b"BC":
                bsize = struct.unpack("<H", extra[q + 4:q + 6])[0]
            q += 4 + slen
        isize = struct.unpack("<I", data[pos + bsize - 3:pos + bsize + 1])[0]
        if isize:
            n += 1
        pos += bsize + 1
    return n


def real_resolve(path, index):
    """{index key: [str(record) for every stored offset]} using the real GAF(...).read_line on `path`"""
    from gaftools.gaf import GAF
    g = GAF(path)
    out = {}
    try:
        for k, offs in index.items():
            if isinstance(k, tuple) or not isinstance(offs, list) or (offs and not isinstance(offs[0], str)):
                out[repr(k)] = [str(g.read_line(o)) for o in offs]
            else:
                out[repr(k)] = list(offs)  # the "ref_contig" entry: a list of contig names
    finally:
        g.close()
    return out
