"""Concrete replays of the genuine defects found on the pinned tree (DESIGN.md section 5).

Each function builds a tiny input, runs the REAL gaftools code from /repo's working tree and returns
(ok, detail).  On the pinned (unrepaired) tree every one of them returned ok=False; after the `fix:`
commits they all return ok=True, and they are run by the bounded tier of the owning property as
regression inputs (a returning defect is reported as a VIOLATION, nothing here is suppressed).

Run:  PYTHONPATH=/repo /venv/bin/python -m rtc.defects [name ...]
"""

import io
import os
import pickle
import subprocess
import sys
import tempfile
import contextlib

from rtc.gen import Seg, Graph, gaf_record, write_lines

PY = sys.executable


def _tmp():
    return tempfile.mkdtemp(prefix="gaftools-verif-")


def _cli(args, timeout=60, env=None):
    e = dict(os.environ)
    import gaftools
    e["PYTHONPATH"] = os.path.dirname(os.path.dirname(os.path.abspath(gaftools.__file__)))  # the tree under test
    if env:
        e.update(env)
    p = subprocess.run([PY, "-m", "gaftools"] + args, capture_output=True, text=True, timeout=timeout, env=e)
    return p.returncode, p.stdout, p.stderr


def graph_sep_hap():
    """chr1 tiled by r1..r4; haplotype hapA contributes two SEPARATED segments a1 (SO 5) and a2 (SO 20)"""
    segs = [
        Seg("r1", "ACG", "chr1", 0, 0), Seg("r2", "TT", "chr1", 3, 0), Seg("r3", "GCA", "chr1", 5, 0),
        Seg("r4", "CC", "chr1", 8, 0), Seg("a1", "GG", "hapA", 5, 1), Seg("a2", "TAT", "hapA", 20, 1),
    ]
    links = [("r1", "+", "r2", "+", 0), ("r2", "+", "r3", "+", 0), ("r3", "+", "r4", "+", 0),
             ("r1", "+", "a1", "+", 0), ("a1", "+", "r3", "+", 0), ("r2", "+", "a2", "+", 0), ("a2", "+", "r4", "+", 0)]
    return Graph(segs, links)


def F1_index_stable_separated_haplotype():
    d = _tmp()
    g = graph_sep_hap()
    g.write(d + "/g.gfa")
    rec = ["q", "4", "0", "4", "+", ">chr1:0-3>hapA:5-7", "5", "0", "4", "4", "4", "60", "cg:Z:4="]
    write_lines(d + "/s.gaf", [rec])
    rc, out, err = _cli(["index", d + "/s.gaf", d + "/g.gfa"])
    if rc != 0:
        return False, "gaftools index failed on a stable GAF over a haplotype with separated segments: " + err.strip().splitlines()[-1]
    ind = pickle.load(open(d + "/s.gaf.gvi", "rb"))
    keys = {k[0] for k in ind if isinstance(k, tuple)}
    return keys == {"r1", "a1"}, "indexed nodes %s (expected r1,a1)" % sorted(keys)


def _index_fixture(revisit=False):
    d = _tmp()
    g = graph_sep_hap()
    g.write(d + "/g.gfa")
    recs = [gaf_record(g, [("r1", ">"), ("r2", ">")], 1, 4, name="q1"),
            gaf_record(g, [("r3", ">"), ("r4", ">")], 0, 4, name="q2")]
    if revisit:
        g2 = Graph(g.segs, [l[:5] for l in g.links] + [("r2", "+", "r1", "+", 0)])
        g2.write(d + "/g.gfa")
        recs.append(gaf_record(g2, [("r1", ">"), ("r2", ">"), ("r1", ">")], 0, 7, name="q3"))
    write_lines(d + "/u.gaf", recs)
    rc, out, err = _cli(["index", d + "/u.gaf", d + "/g.gfa"])
    assert rc == 0, err
    return d


def F2a_view_node_unaligned():
    d = _index_fixture()
    rc, out, err = _cli(["view", d + "/u.gaf", "-n", "a2", "-n", "r1"])
    names = [l.split("\t")[0] for l in out.splitlines()]
    return rc == 0 and names == ["q1"], "rc=%d names=%s err=%s" % (rc, names, err.strip().splitlines()[-1:] )


def F2b_view_single_node_revisit():
    d = _index_fixture(revisit=True)
    rc, out, err = _cli(["view", d + "/u.gaf", "-n", "r1"])
    names = [l.split("\t")[0] for l in out.splitlines()]
    return rc == 0 and names == ["q1", "q3"], "rc=%d names=%s" % (rc, names)


def F3a_view_region_multi_node():
    d = _index_fixture()
    rc, out, err = _cli(["view", d + "/u.gaf", "-r", "chr1:1-5"])  # r1 [0,3), r2 [3,5), r3 [5,8)
    names = [l.split("\t")[0] for l in out.splitlines()]
    return rc == 0 and names == ["q1", "q2"], "rc=%d names=%s err=%s" % (rc, names, err.strip().splitlines()[-1:])


def F3b_view_region_left_of_first_indexed():
    d = _tmp()
    g = graph_sep_hap()
    g.write(d + "/g.gfa")
    recs = [gaf_record(g, [("r3", ">"), ("r4", ">")], 0, 4, name="q2")]
    write_lines(d + "/u.gaf", recs)
    rc, out, err = _cli(["index", d + "/u.gaf", d + "/g.gfa"])
    assert rc == 0
    try:
        rc, out, err = _cli(["view", d + "/u.gaf", "-r", "chr1:1-2"], timeout=20)
    except subprocess.TimeoutExpired:
        return False, "view --region chr1:1-2 (left of the first indexed node) did not terminate within 20 s"
    ok = rc == 1 and "CommandLineError: No alignments found" in err
    return ok, "rc=%d err=%s" % (rc, err.strip().splitlines()[-1:])


def F3c_view_region_past_last_indexed():
    d = _tmp()
    g = graph_sep_hap()
    g.write(d + "/g.gfa")
    recs = [gaf_record(g, [("r1", ">"), ("r2", ">")], 0, 4, name="q1")]
    write_lines(d + "/u.gaf", recs)
    rc, out, err = _cli(["index", d + "/u.gaf", d + "/g.gfa"])
    assert rc == 0
    rc, out, err = _cli(["view", d + "/u.gaf", "-r", "chr1:4-9"], timeout=20)
    names = [l.split("\t")[0] for l in out.splitlines()]
    return rc == 0 and names == ["q1"], "rc=%d names=%s err=%s" % (rc, names, err.strip().splitlines()[-1:])


def F5_gfa_tag_with_colon():
    d = _tmp()
    g = Graph([Seg("n1", "ACG", "chr1", 0, 0, extra=("zz:Z:a:b",)), Seg("n2", "T", "chr1", 3, 0)],
              [("n1", "+", "n2", "+", 0)])
    g.write(d + "/g.gfa")
    from gaftools.gfa import GFA
    try:
        gr = GFA(d + "/g.gfa")
    except Exception as e:  # noqa
        return False, "loading an S line with tag zz:Z:a:b raised %s: %s" % (type(e).__name__, e)
    gr.write_gfa(output_file=d + "/o.gfa")
    line = [l for l in open(d + "/o.gfa") if l.startswith("S\tn1")][0].rstrip("\n").split("\t")
    return "zz:Z:a:b" in line, "written S line %s" % line


def _cmp_records():
    import collections
    A = collections.namedtuple("Alignment", ["offset", "BO", "NO", "start", "inv", "sn"])
    return A


def F6_compare_gaf():
    from gaftools.cli.sort import compare_gaf
    A = _cmp_records()
    bad = []
    t, u = A(0, 3, 0, 5, 0, "c"), A(10, -1, -1, 5, 0, "c")
    if not (compare_gaf(t, u) < 0 and compare_gaf(u, t) > 0):
        bad.append("tagged vs untagged: cmp(t,u)=%r cmp(u,t)=%r" % (compare_gaf(t, u), compare_gaf(u, t)))
    a, b = A(20, 2, 1, 0, 0, "c"), A(10, 2, 2, 0, 0, "c")
    if not (compare_gaf(a, b) < 0 and compare_gaf(b, a) > 0):
        bad.append("equal BO, NO 1 vs 2, later offset first: cmp(a,b)=%r cmp(b,a)=%r" % (compare_gaf(a, b), compare_gaf(b, a)))
    u1, u2 = A(0, -1, -1, 9, 0, "c"), A(10, -1, -1, 2, 0, "c")
    if not (compare_gaf(u2, u1) < 0 and compare_gaf(u1, u2) > 0):
        bad.append("both untagged ordered by offset only: cmp(start2,start9)=%r" % compare_gaf(u2, u1))
    if compare_gaf(a, a) is None:
        bad.append("compare_gaf(x,x) returns None")
    return not bad, "; ".join(bad) or "antisymmetric on the listed pairs"


def graph_tagged():
    segs = [Seg("r1", "ACG", "chr1", 0, 0, extra=("BO:i:0", "NO:i:0")), Seg("r2", "TT", "chr1", 3, 0, extra=("BO:i:1", "NO:i:1")),
            Seg("a1", "G", "hapA", 7, 1, extra=("BO:i:1", "NO:i:2")), Seg("r3", "GCA", "chr1", 5, 0, extra=("BO:i:2", "NO:i:0"))]
    links = [("r1", "+", "r2", "+", 0), ("r2", "+", "r3", "+", 0), ("r1", "+", "a1", "+", 0), ("a1", "+", "r3", "+", 0)]
    return Graph(segs, links)


def F7_sort_all_reference():
    d = _tmp()
    g = graph_tagged()
    g.write(d + "/g.gfa")
    recs = [gaf_record(g, [("r2", ">"), ("r3", ">")], 0, 4, name="q2"), gaf_record(g, [("r1", ">"), ("r2", ">")], 1, 4, name="q1")]
    write_lines(d + "/u.gaf", recs)
    rc, out, err = _cli(["sort", d + "/u.gaf", d + "/g.gfa", "--outgaf", d + "/o.gaf"])
    ok = rc == 0 and os.path.exists(d + "/o.gaf.gsi")
    if ok:
        idx = pickle.load(open(d + "/o.gaf.gsi", "rb"))
        ok = set(idx) == {"chr1"}
    return ok, "rc=%d index=%s err=%s" % (rc, os.path.exists(d + "/o.gaf.gsi"), err.strip().splitlines()[-1:])


class _FakeProc:
    def __init__(self, target, args, script):
        self.target, self.args, self.script = target, args, script
        self.exitcode = None

    def start(self):
        self.target(*self.args)
        self.exitcode = 0

    def is_alive(self):
        return False

    def join(self):
        pass


def F8_realign_stale_item(script=("d", "e", "d", "d")):
    """scripted schedule: 'd' = get() delivers the next item, 'e' = get() times out (queue.Empty)"""
    import queue as pyqueue
    import gaftools.cli.realign as R

    items = []

    class FakeQueue:
        def __init__(self):
            self.q = []

        def put(self, x):
            self.q.append(x)

        def get(self, timeout=None):
            step = sched.pop(0) if sched else "d"
            if step == "e" or not self.q:
                raise pyqueue.Empty
            return self.q.pop(0)

    class FakeMP:
        Queue = FakeQueue

        @staticmethod
        def Process(target, args):
            return _FakeProc(target, args, None)

        @staticmethod
        def cpu_count():
            return 16

    sched = list(script)
    real = R.mp
    R.mp = FakeMP
    out = io.StringIO()
    try:
        try:
            R.realign_gaf("/repo/tests/data/alignments-graphaligner.gaf", "/repo/tests/data/smallgraph.gfa",
                          "/repo/tests/data/reads.fa", out, 1)
        except BaseException as e:  # noqa
            return False, "schedule %s: realign_gaf raised %s: %s" % ("".join(script), type(e).__name__, e)
    finally:
        R.mp = real
    names = [l.split("\t")[0] for l in out.getvalue().splitlines()]
    want = [l.split("\t")[0].split(" ")[0] for l in open("/repo/tests/data/alignments-graphaligner.gaf")]
    return names == want, "schedule %s: wrote %s, expected %s" % ("".join(script), names, want)


def F8b_realign_timeout_first():
    return F8_realign_stale_item(script=("e", "d", "d", "d"))


def _parse(line):
    from gaftools.gaf import GAF
    d = _tmp()
    open(d + "/x.gaf", "w").write(line + "\n")
    g = GAF(d + "/x.gaf")
    r = list(g.read_file())
    g.close()
    return r[0]


BASE12 = "q\t10\t0\t10\t+\t>r1>r2\t5\t0\t5\t5\t5\t60"
BASE12_MAPQ0 = "q\t10\t0\t10\t+\t>r1>r2\t5\t0\t5\t5\t5\t0"


def F9a_tags_verbatim():
    tags = ["NM:i:-1", "zz:Z:a_b#c", "A0:Z:.", "dv:f:-1.5e-3", "xa:A:*", "bb:B:i,1,-2", "yy:Z:has space and : colon", "cg:Z:5="]
    al = _parse(BASE12 + "\t" + "\t".join(tags))
    out = str(al).split("\t")[12:]
    return out == tags, "input %s -> output %s" % (tags, out)


def F9b_no_cigar_not_invented():
    al = _parse(BASE12 + "\tNM:i:0")
    out = str(al).split("\t")[12:]
    return out == ["NM:i:0"], "CIGAR-less record printed with fields %s" % out


def F9c_is_primary():
    s = _parse(BASE12 + "\ttp:A:S\tcg:Z:5=")
    p = _parse(BASE12 + "\ttp:A:P\tcg:Z:5=")
    n = _parse(BASE12 + "\tcg:Z:5=")
    return (s.is_primary, p.is_primary, n.is_primary) == (False, True, True), \
        "is_primary for tp:A:S / tp:A:P / absent = %s" % ((s.is_primary, p.is_primary, n.is_primary),)


def F17_stat_without_primary_records():
    """stat on a GAF whose records are all secondary / MAPQ 0, and on an empty GAF: the report is printed with total = secondary, 0 reads"""
    d = _tmp()
    out = []
    for name, text, total in (("allsec.gaf", BASE12_MAPQ0 + "\ttp:A:P\n" + BASE12 + "\ttp:A:S\tcg:Z:5=\n", 2), ("empty.gaf", "", 0)):
        p = os.path.join(d, name)
        open(p, "w").write(text)
        rc, so, se = _cli(["stat", p])
        ok = rc == 0 and ("Total alignments: %d" % total) in so and ("Secondary: %d" % total) in so and "Primary: 0" in so \
            and "Reads with at least one alignment: 0" in so and "Traceback" not in se
        out.append((name, ok, rc, (se.strip().splitlines() or [""])[-1][:120]))
    return all(o[1] for o in out), "stat without primary records: %s" % (out,)


def F18_contig_names_with_colon():
    """contig names containing ':' (SN:Z:hap:1): unstable -> stable -> unstable round trip, index of the stable GAF, view -r hap:1:0-2"""
    d = _tmp()
    segs = [Seg("r1", "ACG", "ctg:A", 0, 0), Seg("r2", "TT", "ctg:A", 3, 0), Seg("r3", "GCA", "ctg:A", 5, 0), Seg("a1", "GG", "hap:1", 0, 1)]
    links = [("r1", "+", "r2", "+", 0), ("r2", "+", "r3", "+", 0), ("r1", "+", "a1", "+", 0), ("a1", "+", "r3", "+", 0)]
    g = Graph(segs, links)
    g.write(d + "/g.gfa")
    rec = gaf_record(g, [("r1", ">"), ("a1", ">"), ("r3", ">")], 1, 7, name="q1", cigar="6=", tags=("NM:i:0",))
    write_lines(d + "/u.gaf", [rec])
    rc, so, se = _cli(["view", d + "/u.gaf", "-g", d + "/g.gfa", "-f", "stable"])
    if rc != 0 or so.split("\t")[5:9] != [">ctg:A:0-3>hap:1:0-2>ctg:A:5-8", "8", "1", "7"]:
        return False, "to stable: rc=%d path columns %s %s" % (rc, so.split("\t")[5:9], (se.strip().splitlines() or [""])[-1][:120])
    open(d + "/s.gaf", "w").write(so)
    rc, so2, se = _cli(["view", d + "/s.gaf", "-g", d + "/g.gfa", "-f", "unstable"])
    if rc != 0 or so2.rstrip("\n").split("\t") != rec:
        return False, "back to unstable: rc=%d %s %s" % (rc, so2.split("\t")[5:9], (se.strip().splitlines() or [""])[-1][:120])
    rc, _o, se = _cli(["index", d + "/s.gaf", d + "/g.gfa"])
    if rc != 0:
        return False, "index of the stable GAF: " + (se.strip().splitlines() or [""])[-1][:160]
    keys = {k[0] for k in pickle.load(open(d + "/s.gaf.gvi", "rb")) if isinstance(k, tuple)}
    if keys != {"r1", "a1", "r3"}:
        return False, "indexed nodes %s (expected r1, a1, r3)" % sorted(keys)
    rc, _o, se = _cli(["index", d + "/u.gaf", d + "/g.gfa"])
    rc, so3, se = _cli(["view", d + "/u.gaf", "-g", d + "/g.gfa", "-r", "hap:1:0-2"])
    return rc == 0 and so3.split("\t")[:1] == ["q1"], "view -r hap:1:0-2: rc=%d out=%r %s" % (rc, so3[:60], (se.strip().splitlines() or [""])[-1][:120])


def F9d_mandatory_column_not_scanned():
    # read name that looks like a tag must not become an optional field
    al = _parse("ab:Z:x\t10\t0\t10\t+\t>r1>r2\t5\t0\t5\t5\t5\t60\tcg:Z:5=")
    out = str(al).split("\t")
    return out[0] == "ab:Z:x" and out[12:] == ["cg:Z:5="], "printed %s" % out


def F9e_convert_no_cigar():
    d = _tmp()
    g = graph_sep_hap()
    g.write(d + "/g.gfa")
    rec = gaf_record(g, [("r2", "<"), ("r1", "<")], 1, 4, name="q1", cigar="", tags=("NM:i:0",))
    write_lines(d + "/u.gaf", [rec])
    rc, out, err = _cli(["view", d + "/u.gaf", "-g", d + "/g.gfa", "-f", "stable"])
    f = out.strip().split("\t")
    return rc == 0 and f[4] == "-" and f[12:] == ["NM:i:0"], "rc=%d fields=%s" % (rc, f[4:])


def graph_two_chrom(bad_first=True):
    """chrA: branching (not a chain); chrB: simple bubble chain"""
    segs = [Seg("a1", "A", "chrA", 0, 0), Seg("a2", "C", "chrA", 1, 0), Seg("a3", "G", "chrA", 2, 0),
            Seg("ax", "T", "hx", 0, 1), Seg("ay", "T", "hy", 0, 2), Seg("az", "T", "hz", 0, 3),
            Seg("b0", "T", "chrB", 0, 0), Seg("b1", "A", "chrB", 1, 0), Seg("b2", "C", "chrB", 2, 0), Seg("b3", "G", "chrB", 3, 0),
            Seg("b4", "G", "chrB", 4, 0), Seg("bx", "T", "hb", 0, 1)]
    links = [("a1", "+", "a2", "+", 0), ("a2", "+", "a3", "+", 0),
             ("a2", "+", "ax", "+", 0), ("a2", "+", "ay", "+", 0), ("a2", "-", "az", "+", 0),  # three tips on a2: branching
             ("b0", "+", "b1", "+", 0), ("b1", "+", "b2", "+", 0), ("b2", "+", "b3", "+", 0), ("b3", "+", "b4", "+", 0),
             ("b1", "+", "bx", "+", 0), ("bx", "+", "b3", "+", 0)]
    return Graph(segs, links)


def F10a_order_gfa_skip_not_last():
    d = _tmp()
    g = graph_two_chrom()
    g.write(d + "/g.gfa")
    rc, out, err = _cli(["order_gfa", "--chromosome_order", "chrA,chrB", "--outdir", d + "/o", "--by-chrom", d + "/g.gfa"])
    ok = rc == 0 and os.path.exists(d + "/o/g-chrB.gfa") and not os.path.exists(d + "/o/g-chrA.gfa")
    return ok, "rc=%d files=%s err=%s" % (rc, sorted(os.listdir(d + "/o")) if os.path.isdir(d + "/o") else None, err.strip().splitlines()[-1:])


def F10b_order_gfa_three_artic_cycle():
    # triangle c1-c2-c3 whose three corners are all articulation points (each carries a tip)
    segs = [Seg("c1", "A", "chrC", 0, 0), Seg("c2", "C", "chrC", 1, 0), Seg("c3", "G", "chrC", 2, 0),
            Seg("t1", "T", "h1", 0, 1), Seg("t2", "T", "h2", 0, 2), Seg("t3", "T", "h3", 0, 3),
            Seg("b0", "T", "chrB", 0, 0), Seg("b1", "A", "chrB", 1, 0), Seg("b2", "C", "chrB", 2, 0), Seg("b3", "G", "chrB", 3, 0),
            Seg("b4", "G", "chrB", 4, 0), Seg("bx", "T", "hb", 0, 1)]
    links = [("c1", "+", "c2", "+", 0), ("c2", "+", "c3", "+", 0), ("c1", "+", "c3", "+", 0),
             ("c1", "-", "t1", "+", 0), ("c2", "+", "t2", "+", 0), ("c3", "+", "t3", "+", 0),
             ("b0", "+", "b1", "+", 0), ("b1", "+", "b2", "+", 0), ("b2", "+", "b3", "+", 0), ("b3", "+", "b4", "+", 0),
             ("b1", "+", "bx", "+", 0), ("bx", "+", "b3", "+", 0)]
    d = _tmp()
    Graph(segs, links).write(d + "/g.gfa")
    rc, out, err = _cli(["order_gfa", "--chromosome_order", "chrB,chrC", "--outdir", d + "/o", "--by-chrom", d + "/g.gfa"])
    ok = rc == 0 and os.path.exists(d + "/o/g-chrB.gfa") and not os.path.exists(d + "/o/g-chrC.gfa")
    return ok, "rc=%d err=%s" % (rc, err.strip().splitlines()[-1:])


def F11_phase():
    d = _tmp()
    lines = ["q1\t10\t0\t5\t-\t<r2<r1\t5\t0\t5\t5\t5\t60\ttp:A:P\tNM:i:0\tcg:Z:5=",
             "q2\t10\t0\t5\t+\t>r1>r2\t5\t0\t5\t5\t5\t60\ttp:A:P\tcg:Z:5=",
             "q3\t10\t0\t5\t+\t>r1>r2\t5\t0\t5\t5\t5\t60\ttp:A:P\tcg:Z:5="]
    open(d + "/x.gaf", "w").write("\n".join(lines) + "\n")
    open(d + "/h.tsv", "w").write("q1\tH1\t100\tchr1\nq2\tnone\tnone\tchr1\nq1\tH2\t7\tchr9\n")
    rc, out, err = _cli(["phase", d + "/x.gaf", d + "/h.tsv", "-o", d + "/o.gaf"])
    if rc != 0:
        return False, "rc=%d %s" % (rc, err.strip().splitlines()[-1:])
    got = [l.rstrip("\n").split("\t") for l in open(d + "/o.gaf")]
    want = [lines[0].split("\t")[:12] + ["ps:Z:chr1-100", "ht:Z:H1"] + lines[0].split("\t")[12:],
            lines[1].split("\t")[:12] + ["ps:Z:none", "ht:Z:none"] + lines[1].split("\t")[12:],
            lines[2].split("\t")[:12] + ["ps:Z:none", "ht:Z:none"] + lines[2].split("\t")[12:]]
    return got == want, "got %s" % got


def F4_order_gfa_orientation_single_scaffold():
    """chain {t0} - r1 - {r2, a1, ...}: one scaffold node; BO must increase with reference offset for
    every PYTHONHASHSEED"""
    segs = [Seg("t0", "A", "chr1", 0, 0), Seg("t1", "C", "chr1", 1, 0), Seg("t2", "G", "chr1", 2, 0),
            Seg("k1", "T", "hk", 0, 1), Seg("t3", "A", "chr1", 3, 0)]
    links = [("t0", "+", "t1", "+", 0), ("t1", "+", "t2", "+", 0), ("t2", "+", "t3", "+", 0),
             ("t1", "+", "k1", "+", 0), ("k1", "+", "t3", "+", 0)]
    d = _tmp()
    Graph(segs, links).write(d + "/g.gfa")
    bad = []
    for seed in range(8):
        rc, out, err = _cli(["order_gfa", "--chromosome_order", "chr1", "--outdir", d + "/o%d" % seed, "--by-chrom", d + "/g.gfa"],
                            env={"PYTHONHASHSEED": str(seed)})
        if rc != 0:
            bad.append("seed %d rc=%d" % (seed, rc))
            continue
        bo = {}
        for l in open(d + "/o%d/g-chr1.gfa" % seed):
            p = l.rstrip("\n").split("\t")
            if p[0] == "S":
                bo[p[1]] = int([t for t in p[3:] if t.startswith("BO:")][0].split(":")[2])
        if not (bo["t0"] < bo["t1"] < bo["t2"] and bo["t2"] == bo["t3"] == bo["k1"]):
            bad.append("seed %d BO=%s" % (seed, bo))
    return not bad, "; ".join(bad) or "BO increases with reference offset for hash seeds 0..7"


def _safe(fn):
    """a regression replay that raises (e.g. because the tool under test did not write its output) is a FAILED replay, never a crash of the check"""
    def w():
        try:
            return fn()
        except KeyboardInterrupt:
            raise
        except BaseException as e:  # noqa
            return False, "raised %s: %s" % (type(e).__name__, str(e)[:300])
    w.__name__, w.__doc__ = fn.__name__, fn.__doc__
    return w


ALL = {k: _safe(v) for k, v in list(globals().items()) if k[0] == "F" and k[1].isdigit() and callable(v)}

OWNER = {"F1": ["C03"], "F2a": ["C04"], "F2b": ["C04"], "F3a": ["C05"], "F3b": ["C05"], "F3c": ["C05"], "F4": ["C06"],
         "F5": ["C07"], "F6": ["C08"], "F7": ["C10"], "F8": ["C11", "C13"], "F8b": ["C11", "C13"], "F9a": ["C16"], "F9b": ["C16"],
         "F9c": ["C19"], "F17": ["C19"], "F18": ["C02", "C03", "C05"], "F9d": ["C16"], "F9e": ["C02", "C16"], "F10a": ["C18"], "F10b": ["C18"], "F11": ["C20"]}


def for_property(pid):
    return {n: f for n, f in ALL.items() if pid in OWNER.get(n.split("_")[0], [])}


if __name__ == "__main__":
    names = sys.argv[1:] or sorted(ALL)
    rc = 0
    for n in names:
        try:
            with contextlib.redirect_stdout(io.StringIO()):
                ok, detail = ALL[n]()
        except BaseException as e:  # noqa
            ok, detail = False, "raised %s: %s" % (type(e).__name__, e)
        print("%-45s %s  %s" % (n, "ok  " if ok else "FAIL", detail[:300]))
        rc |= (not ok)
    sys.exit(rc)
