"""Shared harness for the sort properties (C08, C09, C10): tagged tiny graphs, records, independent oracle."""
import itertools
import os
import pickle

from rtc.gen import Seg, Graph, make_rgfa, gaf_record, write_lines, rename_ids


def tag_graph(rng, g, untagged_frac=0.25, max_bo=3):
    """attach arbitrary BO/NO tags (sort only reads them): scaffold NO=0, bubble NO>0, untagged = -1/-1"""
    for s in g.segs:
        if rng.random() < untagged_frac:
            bo, no = -1, -1
        else:
            bo = rng.randint(0, max_bo)
            no = 0 if rng.random() < 0.5 else rng.randint(1, 2)
        s.extra = tuple(s.extra) + ("BO:i:%d" % bo, "NO:i:%d" % no)
        s.bo, s.no = bo, no
    return g


def oracle(g, walk, ps, pe):
    pl = sum(g.by_id[n].ln for n, _ in walk)
    ol = [o for n, o in walk if g.by_id[n].bo != -1 and g.by_id[n].no != -1 and g.by_id[n].no == 0]
    if ol.count(">") < ol.count("<"):
        start, anchor = pl - pe, walk[-1][0]
    else:
        start, anchor = ps, walk[0][0]
    sn = None
    for n, _ in walk:
        if g.by_id[n].sr == 0:
            sn = g.by_id[n].sn
            break
    inv = 1 if (">" in ol and "<" in ol) else 0
    return dict(bo=g.by_id[anchor].bo, no=g.by_id[anchor].no, start=start, sn=sn or "unknown", inv=inv)


def sort_key(o, idx):
    return (o["bo"] == -1, o["bo"], o["no"], o["start"], idx)


def make_case(rng, n_records, n_chrom=1, untagged_frac=0.25, all_reference=False, max_len=3):
    g = make_rgfa(rng, n_ref=rng.randint(3, 5), max_len=max_len, n_bubbles=rng.randint(0, 2), inversion=rng.random() < 0.5,
                  n_chrom=n_chrom, link_tags=False)
    if rng.random() < 0.25:
        g = rename_ids(g, rng.choice(["dash", "dot", "hash"]))  # segment names with punctuation (added after seeded change C10-6)
    tag_graph(rng, g, untagged_frac)
    walks = g.walks(3)
    # a walk must not touch rank-0 nodes of two chromosomes (the tool asserts on that): components are separate anyway
    if all_reference:
        walks = [w for w in walks if any(g.by_id[n].sr == 0 for n, _ in w)]
    recs = []
    for i in range(n_records):
        w = rng.choice(walks)
        pl = sum(g.by_id[n].ln for n, _ in w)
        ps = rng.randint(0, pl - 1)
        pe = rng.randint(ps + 1, pl)
        tags = ("tp:A:P", "NM:i:%d" % rng.randint(0, 3)) if rng.random() < 0.5 else ()
        recs.append((w, ps, pe, gaf_record(g, w, ps, pe, name="q%d" % i, tags=tags)))
    return g, recs


def run_sort(d, g, recs, order, bgzf_in=False, bgzip_out=False, outind=None, tag=""):
    """runs the REAL gaftools sort in-process; returns (output lines, index dict or None, outgaf path)"""
    from gaftools.cli.sort import run_sort as real_run_sort
    gfa = os.path.join(d, "g%s.gfa" % tag)
    if not os.path.exists(gfa):
        g.write(gfa)
    gaf = os.path.join(d, "in%s.gaf" % tag) + (".gz" if bgzf_in else "")
    write_lines(gaf, [recs[i][3] for i in order], bgzf=bgzf_in)
    out = os.path.join(d, "out%s.gaf" % tag) + (".gz" if bgzip_out else "")
    for p in (out, out + ".gsi"):
        if os.path.exists(p):
            os.unlink(p)
    real_run_sort(gfa, gaf, outgaf=out, outind=outind, bgzip=bgzip_out)
    if bgzip_out:
        from pysam import libcbgzf
        r = libcbgzf.BGZFile(out, "rb")
        txt = r.read().decode()
        r.close()
    else:
        txt = open(out).read()
    ipath = outind or out + ".gsi"
    idx = pickle.load(open(ipath, "rb")) if os.path.exists(ipath) else None
    return txt.splitlines(), idx, out


def expected_output(g, recs, order):
    keyed = []
    for pos, i in enumerate(order):
        w, ps, pe, fields = recs[i]
        o = oracle(g, w, ps, pe)
        keyed.append((sort_key(o, pos), "\t".join(fields) + "\tbo:i:%d\tsn:Z:%s\tiv:i:%d" % (o["bo"], o["sn"], o["inv"]), o))
    keyed.sort(key=lambda x: x[0])
    return keyed


# ---- additions for C09 / C10 (new functions only) ----------------------------------------------------------------
Z_ALPHABET = "ACGTacgt0123456789 :;,._-+*/#=<>|!?()[]{}~^%$&@'\"\\"


def rich_tags(rng, mode, alen, pad=0):
    """optional fields of one record and its CIGAR ('' = no cg:Z: field).  mode: none | cg | std | rich | mixed.
    No value ends in white space (sort strips the end of the line; such lines are outside the domain)."""
    if mode == "mixed":
        mode = rng.choice(["none", "cg", "std", "rich", "rich"])
    if mode == "none":
        tags, cigar = [], ""
    elif mode == "cg":
        tags, cigar = [], None
    elif mode == "std":
        tags, cigar = ["tp:A:%s" % rng.choice("PSI"), "NM:i:%d" % rng.randint(0, 3)], None
    else:
        pool = ["tp:A:%s" % rng.choice("PSI"), "NM:i:%d" % rng.randint(-2, 30), "AS:i:%d" % rng.randint(-50, 500), "dv:f:%s" % rng.choice(["0.0123", "1e-3", "-1.5", ".5"]),
                "id:f:0.%d" % rng.randint(0, 999), "zz:Z:%s" % _zval(rng, rng.randint(1, 12)), "bo:i:%d" % rng.randint(0, 9), "sn:Z:%s" % rng.choice(["chrX", "unknown", "a b"]),
                "iv:i:%d" % rng.randint(0, 1), "bb:B:i,1,-2,3", "hx:H:1AE301", "ds:Z:=ACG*at+c", "e1:Z:"]
        tags = rng.sample(pool, rng.randint(1, 5))
        cigar = rng.choice([None, None, ""])
        if cigar is None and alen > 2 and rng.random() < 0.5:
            a = rng.randint(1, alen - 1)
            cigar = "%d=%dX" % (a, alen - a)
        if cigar == "" and tags[-1] == "e1:Z:":
            pass  # an empty Z value at the end of the line is fine (no trailing blank)
    if pad:
        tags.insert(rng.randint(0, len(tags)), "pd:Z:" + _zval(rng, pad))
    return tuple(tags), cigar


def _zval(rng, n):
    s = "".join(rng.choice(Z_ALPHABET) for _ in range(n))
    return s.rstrip() + "x" if s != s.rstrip() or not s else s


def make_case2(rng, n_records, n_chrom=1, untagged_frac=0.25, ref_mode="any", tag_mode="mixed", pad=0, dup_frac=0.0, max_steps=3, max_len=3,
               half_tagged_frac=0.0):
    """like make_case with more control: ref_mode any | all (every alignment touches a rank-0 node) | some_unknown (at least one touches none);
    tag_mode see rich_tags; pad = length of a padding Z field (bulk for multi-block BGZF); dup_frac = share of byte-identical repeated lines"""
    for _try in range(200):
        g = make_rgfa(rng, n_ref=rng.randint(3, 5), max_len=max_len, n_bubbles=rng.randint(0, 2) if ref_mode != "some_unknown" else rng.randint(1, 3),
                      inversion=rng.random() < 0.5, n_chrom=n_chrom, link_tags=False)
        if rng.random() < 0.25:
            g = rename_ids(g, rng.choice(["dash", "dot", "hash"]))  # segment names with punctuation (added after seeded change C10-6)
        walks = g.walks(max_steps)
        noref = [w for w in walks if not any(g.by_id[n].sr == 0 for n, _ in w)]
        if ref_mode != "some_unknown" or noref:
            break
    else:
        raise RuntimeError("no graph with a walk off the reference")
    tag_graph(rng, g, untagged_frac)
    if half_tagged_frac:
        # nodes with only one of the two tags set to -1 (order_gfa does not produce them; "scaffold = BO != -1 and NO == 0" is applied literally)
        for s in g.segs:
            if rng.random() < half_tagged_frac:
                s.bo, s.no = rng.choice([(-1, 0), (-1, 0), (rng.randint(0, 3), -1), (-1, 1)])
                s.extra = tuple(s.extra[:-2]) + ("BO:i:%d" % s.bo, "NO:i:%d" % s.no)
    withref = [w for w in walks if any(g.by_id[n].sr == 0 for n, _ in w)]
    recs = []
    for i in range(n_records):
        if recs and rng.random() < dup_frac:
            recs.append(recs[rng.randrange(len(recs))])
            continue
        if ref_mode == "all":
            w = rng.choice(withref)
        elif ref_mode == "some_unknown" and (i == 0 or rng.random() < 0.3):
            w = rng.choice(noref)
        else:
            w = rng.choice(walks)
        pl = sum(g.by_id[n].ln for n, _ in w)
        ps = rng.randint(0, pl - 1)
        pe = rng.randint(ps + 1, pl)
        tags, cigar = rich_tags(rng, tag_mode, pe - ps, pad)
        f = gaf_record(g, w, ps, pe, name="q%d" % i, tags=tags, cigar=cigar, strand=rng.choice("+-"), mapq=rng.choice([0, 1, 60, 255]))
        assert f[-1] == f[-1].rstrip()
        recs.append((w, ps, pe, f))
    if ref_mode == "some_unknown":
        rng.shuffle(recs)
    return g, recs


def expected_tagged(g, recs, order):
    """the multiset (as sorted list) of lines the output must consist of, in no particular order"""
    out = []
    for i in order:
        w, ps, pe, fields = recs[i]
        o = oracle(g, w, ps, pe)
        out.append("\t".join(fields) + "\tbo:i:%d\tsn:Z:%s\tiv:i:%d" % (o["bo"], o["sn"], o["inv"]))
    return out


def bgzf_blocks(path):
    """independent BGZF reader (RFC 1952 members with the BC extra field): list of (compressed offset, uncompressed start, data)"""
    import struct
    import zlib
    raw = open(path, "rb").read()
    out, p, upos = [], 0, 0
    while p < len(raw):
        if raw[p:p + 4] != b"\x1f\x8b\x08\x04":
            raise ValueError("not a BGZF block at %d" % p)
        xlen = struct.unpack("<H", raw[p + 10:p + 12])[0]
        extra, q, bsize = raw[p + 12:p + 12 + xlen], 0, None
        while q < len(extra):
            si1, si2, slen = extra[q], extra[q + 1], struct.unpack("<H", extra[q + 2:q + 4])[0]
            if si1 == 66 and si2 == 67:
                bsize = struct.unpack("<H", extra[q + 4:q + 6])[0] + 1
            q += 4 + slen
        if bsize is None:
            raise ValueError("gzip member without BGZF BC field at %d" % p)
        data = zlib.decompress(raw[p + 12 + xlen:p + bsize - 8], -15)
        isize = struct.unpack("<I", raw[p + bsize - 4:p + bsize])[0]
        if isize != len(data):
            raise ValueError("BGZF block at %d: ISIZE %d but %d bytes" % (p, isize, len(data)))
        out.append((p, upos, data))
        upos += len(data)
        p += bsize
    return out


def read_text_independent(path):
    """file content as str; BGZF/gzip decoded with the python gzip module (not pysam)"""
    import gzip
    with open(path, "rb") as f:
        magic = f.read(2)
    if magic == b"\x1f\x8b":
        return gzip.open(path, "rb").read().decode()
    return open(path, "rb").read().decode()


def split_records(txt):
    """records of a GAF text: split on newline only; the text must end with a newline (returns None otherwise)"""
    if txt == "":
        return []
    if not txt.endswith("\n"):
        return None
    return txt[:-1].split("\n")


def case_dict(g, recs, order, **cfg):
    d = {"gfa": g.lines(), "records": [r[3] for r in recs], "walks": [[list(x) for x in r[0]] for r in recs],
         "ranges": [[r[1], r[2]] for r in recs], "order": list(order)}
    d.update(cfg)
    return d


def case_from_dict(c):
    """rebuild (graph view sufficient for the oracle, recs) from case_dict output"""
    segs = []
    for l in c["gfa"]:
        p = l.split("\t")
        if p[0] == "S":
            t = {x.split(":")[0]: x.split(":", 2)[2] for x in p[3:]}
            s = Seg(p[1], p[2], t.get("SN"), int(t.get("SO", 0)), int(t.get("SR", 0)), extra=[x for x in p[3:] if x[:2] in ("BO", "NO")])
            s.bo, s.no = int(t["BO"]), int(t["NO"])
            segs.append(s)
    links = []
    for l in c["gfa"]:
        p = l.split("\t")
        if p[0] == "L":
            links.append((p[1], p[2], p[3], p[4], int(p[5][:-1]), tuple(p[6:])))
    g = Graph(segs, links)
    recs = [([tuple(x) for x in w], r[0], r[1], list(f)) for w, r, f in zip(c["walks"], c["ranges"], c["records"])]
    return g, recs


def fixed_graph(rename=None):
    """a hand-built two-chromosome tagged graph (no randomness): chr1 with a bubble (alt allele b1,b2 off the reference), an inversion link
    and an untagged node; chr2 a plain chain with a deletion link.  Used for the exhaustive sections."""
    S = []

    def seg(i, seq, sn, so, sr, bo, no):
        sn = (rename or {}).get(sn, sn)  # e.g. a contig name that contains ':' (a valid Z value)
        s = Seg(i, seq, sn, so, sr, extra=("BO:i:%d" % bo, "NO:i:%d" % no))
        s.bo, s.no = bo, no
        S.append(s)

    seg("a1", "AC", "chr1", 0, 0, 0, 0)
    seg("a2", "G", "chr1", 2, 0, 1, 1)
    seg("a3", "TTA", "chr1", 3, 0, 2, 0)
    seg("a4", "C", "chr1", 6, 0, -1, -1)
    seg("b1", "GG", "hapA", 10, 1, 1, 2)
    seg("b2", "A", "hapA", 12, 1, 1, 3)
    seg("c1", "T", "chr2", 0, 0, 3, 0)
    seg("c2", "CA", "chr2", 1, 0, 4, 1)
    seg("c3", "G", "chr2", 3, 0, 5, 0)
    L = [("a1", "+", "a2", "+", 0), ("a2", "+", "a3", "+", 0), ("a3", "+", "a4", "+", 0), ("a1", "+", "b1", "+", 0), ("b1", "+", "b2", "+", 0),
         ("b2", "+", "a3", "+", 0), ("a1", "+", "a3", "-", 0), ("a2", "-", "a3", "+", 0), ("c1", "+", "c2", "+", 0), ("c2", "+", "c3", "+", 0),
         ("c1", "+", "c3", "+", 0)]
    return Graph(S, L)
