"""Shared harness for the sort properties (C08, C09, C10): tagged tiny graphs, records, independent oracle."""
import itertools
import os
import pickle

from rtc.gen import Seg, Graph, make_rgfa, gaf_record, write_lines


def tag_graph(rng, g, untagged_frac=0.25, max_bo=3):
    """attach arbitrary BO/NO tags (sort only reads them): scaffold NO=0, bubble NO>0, untagged = -1/-1"""
    for s in g.segs:
        if rng.random() < untagged_frac:
            bo, no = -1, -1
        else:
            bo = rng.randint(0, max_bo)
            no = 0 if rng.random() < 0.5 else rng.randint(1, 2)
        s.extra = tuple(s.extra) + ("BO:i:%d" % bo, "NO:i:%d" % no)
        s.bo, s.no = bo, no
    return g


def oracle(g, walk, ps, pe):
    pl = sum(g.by_id[n].ln for n, _ in walk)
    ol = [o for n, o in walk if g.by_id[n].bo != -1 and g.by_id[n].no != -1 and g.by_id[n].no == 0]
    if ol.count(">") < ol.count("<"):
        start, anchor = pl - pe, walk[-1][0]
    else:
        start, anchor = ps, walk[0][0]
    sn = None
    for n, _ in walk:
        if g.by_id[n].sr == 0:
            sn = g.by_id[n].sn
            break
    inv = 1 if (">" in ol and "<" in ol) else 0
    return dict(bo=g.by_id[anchor].bo, no=g.by_id[anchor].no, start=start, sn=sn or "unknown", inv=inv)


def sort_key(o, idx):
    return (o["bo"] == -1, o["bo"], o["no"], o["start"], idx)


def make_case(rng, n_records, n_chrom=1, untagged_frac=0.25, all_reference=False, max_len=3):
    g = make_rgfa(rng, n_ref=rng.randint(3, 5), max_len=max_len, n_bubbles=rng.randint(0, 2), inversion=rng.random() < 0.5,
                  n_chrom=n_chrom, link_tags=False)
    tag_graph(rng, g, untagged_frac)
    walks = g.walks(3)
    # a walk must not touch rank-0 nodes of two chromosomes (the tool asserts on that): components are separate anyway
    if all_reference:
        walks = [w for w in walks if any(g.by_id[n].sr == 0 for n, _ in w)]
    recs = []
    for i in range(n_records):
        w = rng.choice(walks)
        pl = sum(g.by_id[n].ln for n, _ in w)
        ps = rng.randint(0, pl - 1)
        pe = rng.randint(ps + 1, pl)
        tags = ("tp:A:P", "NM:i:%d" % rng.randint(0, 3)) if rng.random() < 0.5 else ()
        recs.append((w, ps, pe, gaf_record(g, w, ps, pe, name="q%d" % i, tags=tags)))
    return g, recs


def run_sort(d, g, recs, order, bgzf_in=False, bgzip_out=False, outind=None, tag=""):
    """runs the REAL gaftools sort in-process; returns (output lines, index dict or None, outgaf path)"""
    from gaftools.cli.sort import run_sort as real_run_sort
    gfa = os.path.join(d, "g%s.gfa" % tag)
    if not os.path.exists(gfa):
        g.write(gfa)
    gaf = os.path.join(d, "in%s.gaf" % tag) + (".gz" if bgzf_in else "")
    write_lines(gaf, [recs[i][3] for i in order], bgzf=bgzf_in)
    out = os.path.join(d, "out%s.gaf" % tag) + (".gz" if bgzip_out else "")
    for p in (out, out + ".gsi"):
        if os.path.exists(p):
            os.unlink(p)
    real_run_sort(gfa, gaf, outgaf=out, outind=outind, bgzip=bgzip_out)
    if bgzip_out:
        from pysam import libcbgzf
        r = libcbgzf.BGZFile(out, "rb")
        txt = r.read().decode()
        r.close()
    else:
        txt = open(out).read()
    ipath = outind or out + ".gsi"
    idx = pickle.load(open(ipath, "rb")) if os.path.exists(ipath) else None
    return txt.splitlines(), idx, out


def expected_output(g, recs, order):
    keyed = []
    for pos, i in enumerate(order):
        w, ps, pe, fields = recs[i]
        o = oracle(g, w, ps, pe)
        keyed.append((sort_key(o, pos), "\t".join(fields) + "\tbo:i:%d\tsn:Z:%s\tiv:i:%d" % (o["bo"], o["sn"], o["inv"]), o))
    keyed.sort(key=lambda x: x[0])
    return keyed
