"""Shared harness of the C14 / C15 bounded stand-ins: an independent model of GFA links (which SIDE of which node a
link touches), enumeration of small (multi)graphs and orientation labellings, and definitional oracles for connected
components, biconnected components and articulation points.

Nothing in this module calls gaftools to compute an expected answer.  The two `build_*` helpers only drive the public
API of the class under test (the GFA class is passed in)."""
import itertools

FLIP = {"+": "-", "-": "+"}
ORI4 = [("+", "+"), ("+", "-"), ("-", "+"), ("-", "-")]


# ---- link model (GFA spec: `L a oa b ob`: a in orientation oa is followed by b in orientation ob) ---------------------
def link_sides(oa, ob):
    """sides touched by a link, 0 = start of the segment, 1 = end of the segment.
    a read forwards (+) is left through its END, read backwards (-) through its START;
    b read forwards (+) is entered through its START, read backwards (-) through its END."""
    return (1 if oa == "+" else 0), (0 if ob == "+" else 1)


def canon(a, oa, b, ob, ov=0):
    """canonical form of a link: unordered pair of (node, side) + overlap; the two declarations of one link coincide"""
    sa, sb = link_sides(oa, ob)
    e1, e2 = (a, sa), (b, sb)
    return (e1, e2, ov) if e1 <= e2 else (e2, e1, ov)


def declare(e1, e2, flipped=False):
    """an L-line declaration (a, oa, b, ob) of the link joining node-sides e1 and e2; flipped = declared from the other end"""
    if flipped:
        e1, e2 = e2, e1
    (a, sa), (b, sb) = e1, e2
    return (a, "+" if sa == 1 else "-", b, "+" if sb == 0 else "-")


def flip_decl(l):
    return (l[2], FLIP[l[3]], l[0], FLIP[l[1]]) + tuple(l[4:])


def all_side_links(ids):
    """every distinct link possible over the node ids: unordered pairs (with repetition) of node sides"""
    sides = [(n, s) for n in ids for s in (0, 1)]
    return [(sides[i], sides[j]) for i in range(len(sides)) for j in range(i, len(sides))]


def expected_adjacency(node_ids, canon_links):
    """node -> (start set, end set) of (neighbour id, neighbour side, overlap), straight from the link model"""
    adj = {n: (set(), set()) for n in node_ids}
    for (a, sa), (b, sb), ov in canon_links:
        adj[a][sa].add((b, sb, ov))
        adj[b][sb].add((a, sa, ov))
    return adj


# ---- definitional graph oracles ------------------------------------------------------------------------------------
def components(nodes, pairs):
    """connected components by union-find over the links"""
    parent = {n: n for n in nodes}

    def find(x):
        while parent[x] != x:
            parent[x] = parent[parent[x]]
            x = parent[x]
        return x

    for u, v in pairs:
        ru, rv = find(u), find(v)
        if ru != rv:
            parent[ru] = rv
    out = {}
    for n in nodes:
        out.setdefault(find(n), set()).add(n)
    return sorted((frozenset(c) for c in out.values()), key=sorted)


def is_connected(nodes, pairs):
    return len(components(nodes, pairs)) <= 1


def articulation_by_removal(nodes, pairs):
    """v is an articulation point iff deleting v (and its links) leaves MORE connected components among the other nodes
    than there were (for a connected graph: iff the rest is disconnected)"""
    nodes = list(nodes)
    base = len(components(nodes, pairs))
    out = set()
    for v in nodes:
        rest = [n for n in nodes if n != v]
        k = len(components(rest, [(a, b) for a, b in pairs if a != v and b != v]))
        alone = not any((a == v) != (b == v) for a, b in pairs)  # v isolated (self-links only): removing it removes a component
        if k > base - (1 if alone else 0):
            out.add(v)
    return out


def blocks_by_cycles(nodes, pairs):
    """biconnected components straight from the definition: equivalence classes of (non-self) links under 'lie on a
    common simple cycle' (two parallel links form a cycle of length 2); returned as a set of frozensets of nodes.
    Exponential: for graphs of <= ~7 nodes."""
    edges = [(u, v) for u, v in pairs if u != v]
    m = len(edges)
    parent = list(range(m))

    def find(x):
        while parent[x] != x:
            parent[x] = parent[parent[x]]
            x = parent[x]
        return x

    inc = {n: [] for n in nodes}
    for i, (u, v) in enumerate(edges):
        inc[u].append((i, v))
        inc[v].append((i, u))
    rank = {n: i for i, n in enumerate(sorted(nodes))}
    for s in nodes:
        on_path = {s}
        path_edges = []

        def rec(u):
            for i, v in inc[u]:
                if i in path_edges:
                    continue
                if v == s:
                    for j in path_edges:        # path_edges + [i] is a simple cycle through s
                        parent[find(j)] = find(i)
                elif rank[v] > rank[s] and v not in on_path:
                    on_path.add(v)
                    path_edges.append(i)
                    rec(v)
                    path_edges.pop()
                    on_path.discard(v)

        rec(s)
    cls = {}
    for i, (u, v) in enumerate(edges):
        cls.setdefault(find(i), set()).update((u, v))
    return {frozenset(c) for c in cls.values()}


def blocks_by_subsets(nodes, pairs):
    """second definition: maximal node sets S (|S| >= 2) whose induced subgraph is connected and has no cut vertex
    (a single link is a block).  Exponential in the number of nodes."""
    nodes = sorted(nodes)
    simple = {frozenset((u, v)) for u, v in pairs if u != v}
    good = []
    for k in range(2, len(nodes) + 1):
        for sub in itertools.combinations(nodes, k):
            s = set(sub)
            e = [tuple(x) for x in simple if x <= s]
            if not is_connected(sub, e):
                continue
            if k > 2 and articulation_by_removal(sub, e):
                continue
            good.append(frozenset(s))
    return {s for s in good if not any(s < t for t in good)}


def blocks_lowpoint(nodes, pairs):
    """own recursive lowpoint (Hopcroft-Tarjan) implementation on the underlying simple graph; (blocks, articulation points).
    Used for graphs too large for the brute-force definitions; cross-checked against them on every small graph."""
    import sys
    adj = {n: set() for n in nodes}
    for u, v in pairs:
        if u != v:
            adj[u].add(v)
            adj[v].add(u)
    if len(adj) + 100 > sys.getrecursionlimit():
        sys.setrecursionlimit(len(adj) + 1000)
    num, low = {}, {}
    estack, blocks, aps = [], set(), set()

    def visit(u, p):
        num[u] = low[u] = len(num)
        kids = 0
        for v in adj[u]:
            if v == p:
                continue
            if v in num:
                if num[v] < num[u]:
                    estack.append((u, v))
                    if num[v] < low[u]:
                        low[u] = num[v]
            else:
                kids += 1
                estack.append((u, v))
                visit(v, u)
                if low[v] < low[u]:
                    low[u] = low[v]
                if low[v] >= num[u]:
                    if p is not None:
                        aps.add(u)
                    comp = set()
                    while True:
                        e = estack.pop()
                        comp.update(e)
                        if e == (u, v):
                            break
                    blocks.add(frozenset(comp))
        if p is None and kids > 1:
            aps.add(u)

    for n in sorted(adj):
        if n not in num:
            visit(n, None)
    return blocks, aps


# ---- enumeration ---------------------------------------------------------------------------------------------------
def simple_graphs(n):
    """every labelled simple graph on nodes 0..n-1 as a list of (u, v), u < v"""
    pairs = list(itertools.combinations(range(n), 2))
    for mask in range(1 << len(pairs)):
        yield [pairs[i] for i in range(len(pairs)) if mask >> i & 1]


def multigraphs(n, max_links):
    """every labelled multigraph on nodes 0..n-1 with <= max_links links, self-links and parallel links allowed"""
    pairs = list(itertools.combinations_with_replacement(range(n), 2))
    for k in range(max_links + 1):
        for ms in itertools.combinations_with_replacement(pairs, k):
            yield list(ms)


def orient_random(rng, pairs, names, overlaps=(0,)):
    """a random orientation labelling: every (u, v) gets one of the four orientation pairs and is declared from either end"""
    out = []
    for u, v in pairs:
        oa, ob = rng.choice(ORI4)
        l = (names[u], oa, names[v], ob, rng.choice(overlaps))
        if rng.random() < 0.5:
            l = flip_decl(l)
        out.append(l)
    return out


def random_graph(rng, n, kind=None, loops=True):
    """seeded random graph shapes on nodes 0..n-1: sparse/dense G(n,p), tree + chords, chains of cycles and cliques
    glued at single nodes, optionally with parallel and self links; returns list of (u, v)"""
    kind = kind or rng.choice(["gnp", "gnp", "tree+", "cactus", "connected-gnp", "blocks"])
    pairs = []
    if kind in ("gnp", "connected-gnp"):
        p = rng.choice([0.8 / max(n, 1), 1.5 / max(n, 1), 2.5 / max(n, 1), 0.3, 0.6])
        pairs = [(u, v) for u in range(n) for v in range(u + 1, n) if rng.random() < p]
        if kind == "connected-gnp":
            perm = list(range(n))
            rng.shuffle(perm)
            pairs += [(perm[i], perm[rng.randrange(i)]) for i in range(1, n)]
    elif kind == "tree+":
        pairs = [(i, rng.randrange(i)) for i in range(1, n)]
        for _ in range(rng.randint(0, max(1, n // 3))):
            u, v = rng.randrange(n), rng.randrange(n)
            if u != v:
                pairs.append((u, v))
    elif kind in ("cactus", "blocks"):
        used = 1
        while used < n:
            k = min(n - used, rng.randint(1, 5))
            att = rng.randrange(used)
            new = list(range(used, used + k))
            ring = [att] + new
            if kind == "blocks" and rng.random() < 0.4:
                pairs += [(a, b) for i, a in enumerate(ring) for b in ring[i + 1:]]
            else:
                pairs += [(ring[i], ring[i + 1]) for i in range(len(ring) - 1)]
                if k >= 2 and rng.random() < 0.8:
                    pairs.append((ring[-1], att))
            used += k
    perm = list(range(n))
    rng.shuffle(perm)
    pairs = [(perm[u], perm[v]) for u, v in pairs]
    if loops and n and rng.random() < 0.5:
        for _ in range(rng.randint(1, 3)):
            if pairs and rng.random() < 0.6:
                pairs.append(rng.choice(pairs))       # parallel link
            else:
                u = rng.randrange(n)
                pairs.append((u, u))                  # self link
    rng.shuffle(pairs)
    return pairs


# ---- driving the class under test --------------------------------------------------------------------------------------
def build_api(GFA, nodes, links):
    """nodes: [(id, seq)], links: [(a, oa, b, ob, ov)] -> graph built with add_node / add_edge"""
    g = GFA()
    for nd in nodes:
        if len(nd) > 2 and nd[2]:
            g.add_node(nd[0], nd[1], list(nd[2]))
        else:
            g.add_node(nd[0], nd[1])
    for a, oa, b, ob, ov in links:
        g.add_edge(a, oa, b, ob, ov)
    return g


def gfa_lines(nodes, links, link_first=False):
    s = ["\t".join(["S", nd[0], nd[1] if nd[1] else "*"] + list(nd[2] if len(nd) > 2 else ())) for nd in nodes]
    l = ["L\t%s\t%s\t%s\t%s\t%dM" % (a, oa, b, ob, ov) for a, oa, b, ob, ov in links]
    return l + s if link_first else s + l


def build_file(GFA, path, nodes, links, link_first=False):
    with open(path, "w") as f:
        f.write("\n".join(gfa_lines(nodes, links, link_first)) + "\n")
    return GFA(path)


def read_links(path):
    """independent reader: ([(id, seq, [tags])], [(a, oa, b, ob, ov)]) of a .gfa / .gfa.gz file; links to unknown segments dropped"""
    import gzip
    op = gzip.open if path.endswith(".gz") else open
    nodes, links = [], []
    with op(path, "rt") as f:
        for line in f:
            p = line.rstrip("\n").split("\t")
            if p[0] == "S":
                nodes.append((p[1], p[2], p[3:]))
            elif p[0] == "L":
                links.append((p[1], p[2], p[3], p[4], int(p[5].rstrip("M") or 0)))
    known = {nd[0] for nd in nodes}
    return nodes, [l for l in links if l[0] in known and l[2] in known]
