"""C06 bounded stand-in: the REAL `gaftools order_gfa` on generated rGFAs whose components are linear bubble chains.

Oracle (rtc.orderlib, independent of gaftools): articulation points / blocks by definition, collapsed graph must be a path
with >= 2 vertices, chain elements ordered by increasing reference offset.  Checked per run: every node has BO and NO,
BO strictly increases from chain element to chain element, scaffold NO = 0, bubble nodes share the BO and are numbered
1..M in python-string-sorted id order, chromosomes get disjoint ascending BO ranges in --chromosome_order order.
Checked across runs: identical (BO, NO) for every permutation / shuffle of the S/L lines, for PYTHONHASHSEED 0..3 (0..7)
in a subprocess, and for inputs that already carry BO/NO tags (garbage values or the output of an earlier run).
Also: the documented default chromosome order (25 chromosomes, no --chromosome_order), and - under its own section
'numeric-ids', reported with known_finding 'order_gfa-numeric-node-ids' - chains whose node ids are decimal numbers.
"""
import itertools

from rtc import orderlib as ol

S = "S\t%s\t%s\tSN:Z:%s\tSO:i:%d\tSR:i:%d"
DEFAULT_ORDER = ["chr%d" % i for i in range(1, 23)] + ["chrX", "chrY", "chrM"]  # docs: "Default: chr1,...,chr22,chrX,chrY,chrM"


def tiny_graphs():
    """hand-made chains with <= 7 lines: (name, lines)"""
    out = []
    for ids in (("c", "a", "b"), ("a", "b", "c"), ("s2", "s10", "s1")):
        r0, r1, r2 = ids
        out.append(("P3-%s" % "".join(ids), [S % (r0, "A", "chr1", 0, 0), S % (r1, "CC", "chr1", 1, 0), S % (r2, "G", "chr1", 3, 0),
                                             "L\t%s\t+\t%s\t+\t0M" % (r0, r1), "L\t%s\t+\t%s\t+\t0M" % (r1, r2)]))
    out.append(("P3-inv", [S % ("x", "A", "chr1", 5, 0), S % ("m", "CC", "chr1", 6, 0), S % ("b", "G", "chr1", 8, 0),
                           "L\tx\t+\tm\t-\t0M", "L\tb\t-\tm\t+\t0M"]))
    out.append(("P2-tip-left", [S % ("r", "A", "chr1", 0, 0), S % ("q", "C", "chr1", 1, 0), S % ("t", "G", "hapT", 0, 1),
                                "L\tt\t+\tr\t+\t0M", "L\tr\t+\tq\t+\t0M"]))
    out.append(("P2-tip-right", [S % ("r", "A", "chr1", 0, 0), S % ("q", "C", "chr1", 1, 0), S % ("a", "G", "hapT", 7, 1),
                                 "L\tq\t+\ta\t+\t0M", "L\tq\t-\tr\t-\t0M"]))
    out.append(("P3-double", [S % ("k", "A", "chr1", 0, 0), S % ("j", "C", "chr1", 1, 0), S % ("i", "G", "chr1", 2, 0),
                              "L\tk\t+\tj\t+\t0M", "L\tj\t+\ti\t+\t0M", "L\tk\t+\tj\t-\t0M"]))
    for ids in (("d", "b", "c", "a"), ("n1", "N2", "n10", "n2")):
        r = ids
        out.append(("P4-%s" % "".join(ids), [S % (r[i], "A", "chrQ", i, 0) for i in range(4)] +
                    ["L\t%s\t+\t%s\t+\t0M" % (r[0], r[1]), "L\t%s\t-\t%s\t-\t0M" % (r[2], r[1]), "L\t%s\t+\t%s\t+\t0M" % (r[2], r[3])]))
    out.append(("P3-tip", [S % ("t", "T", "hT", 3, 1), S % ("e", "A", "chr1", 0, 0), S % ("f", "C", "chr1", 1, 0), S % ("g", "G", "chr1", 2, 0),
                           "L\tt\t+\te\t+\t0M", "L\te\t+\tf\t+\t0M", "L\tf\t+\tg\t+\t0M"]))
    return out


def check(d, case, base_bono=None):
    """run one case with the real tool; -> (problems, bono).  case: lines, order, by_chrom, hashseed (None = in-process),
    base_lines (optional: lines of the run the BO/NO assignment must equal)"""
    lines, order, by_chrom = case["lines"], case["order"], case.get("by_chrom", True)
    asked = [] if case.get("default") else order  # default: no --chromosome_order; `order` is then the documented default list
    _segs, _links, by_name, _chains = ol.analyse(lines)
    chains = [by_name.get(c) for c in order]
    if any(c is None or not c.in_domain for c in chains):
        return ["input outside the domain: %s" % [(c.name, c.why) if c else None for c in chains]], None
    if case.get("hashseed") is None:
        res = ol.run_inproc(d, lines, asked, by_chrom=by_chrom)
    else:
        res = ol.run_cli(d, lines, asked, by_chrom=by_chrom, hashseed=case["hashseed"])
    if not res.ok():
        return ["order_gfa failed: " + res.describe()], None
    bono = ol.bono_from_files(res, order, by_chrom=by_chrom)
    problems = ol.expected_violations(chains, bono)
    wanted = set().union(*[c.comp for c in chains])
    if base_bono is None and case.get("base_lines"):
        r0 = ol.run_inproc(d, case["base_lines"], order, by_chrom=by_chrom)
        base_bono = ol.bono_from_files(r0, order, by_chrom=by_chrom) if r0.ok() else None
    if base_bono is not None:
        diff = [(v, base_bono.get(v), bono.get(v)) for v in sorted(wanted) if base_bono.get(v) != bono.get(v)]
        if diff:
            problems.append("BO/NO differ from the reference run of the same graph: %s" % diff[:4])
    return problems, bono


def _report(ctx, section, problems, case, what, known=None):
    if problems:
        ctx.fail(section, "%s: %s" % (what, problems[0]), case, known_finding=known)


def orders_of(names, rng, limit):
    allo = [list(p) for k in range(len(names), 0, -1) for p in itertools.permutations(names, k)]  # full orders first
    if len(allo) <= limit:
        return allo
    return [allo[0]] + rng.sample(allo[1:], limit - 1)


def one_graph(ctx, d, lines, names, n_orders, n_shuffles, tag):
    """all checks on one generated graph; names = requested (in-domain) chromosomes"""
    rng = ctx.rng
    orders = orders_of(names, rng, n_orders)
    base = {}
    for oi, order in enumerate(orders):
        by_chrom = (oi % 2 == 0)
        case = {"lines": lines, "order": order, "by_chrom": by_chrom, "hashseed": None}
        problems, bono = check(d, case)
        ctx.case("chromosome-order", ol.digest(lines, order, by_chrom), sample={"order": order, "n_lines": len(lines)})
        _report(ctx, "chromosome-order", problems, case, "%s --chromosome_order %s" % (tag, ",".join(order)))
        base[tuple(order)] = bono
    order = orders[0]
    bono0 = base[tuple(order)]
    if bono0 is None:
        return
    for pl in ol.perm_lines(lines, rng, n_shuffles):
        if pl == lines:
            continue
        case = {"lines": pl, "order": order, "by_chrom": True, "hashseed": None, "base_lines": lines}
        problems, _b = check(d, case, base_bono=bono0)
        ctx.case("line-order", ol.digest(pl, order))
        _report(ctx, "line-order", problems, case, "%s with permuted S/L lines" % tag)
    # BO/NO tags left by an earlier run: garbage values, partial tags, and the real output of a run in another chromosome order
    variants = [("all", ol.pretagged(lines, rng, "all")), ("some", ol.pretagged(lines, rng, "some"))]
    other = list(reversed(order))
    r = ol.run_inproc(d, lines, other, by_chrom=False)
    if r.ok() and "g-complete.gfa" in r.files:
        variants.append(("earlier-run", [l for l in r.files["g-complete.gfa"].split("\n") if l]))
    for mode, tl in variants:
        case = {"lines": tl, "order": order, "by_chrom": True, "hashseed": None, "base_lines": lines}
        problems, _b = check(d, case, base_bono=bono0)
        ctx.case("pre-existing-tags", ol.digest(tl, order, mode))
        _report(ctx, "pre-existing-tags", problems, case, "%s with BO/NO tags already present (%s)" % (tag, mode))


def run(ctx):
    from rtc import defects
    d = ctx.dir("c06")
    rng = ctx.rng
    quick = ctx.quick
    for name, f in defects.for_property("C06").items():
        ok, detail = f()
        ctx.case("regression", name)
        if not ok:
            ctx.fail("regression", "repaired defect %s is back: %s" % (name, detail), {"type": "defect", "name": name})

    # 1. tiny chains, every permutation of the lines
    ctx.bound("tiny: %d hand-made chains of 3-4 nodes (5-7 lines); every permutation of the lines for <= 6 lines, for 7 lines %s"
              % (len(tiny_graphs()), "400 sampled permutations" if quick else "all 5040"))
    for name, lines in tiny_graphs():
        chrom = [c.name for c in ol.analyse(lines)[3] if c.in_domain]
        limit = 5040 if (not quick or len(lines) <= 6) else 400
        one_graph(ctx, d, lines, chrom, 1, limit, "tiny graph " + name)

    # 2. generated chains
    n_graphs = 300 if quick else 6000
    n_shuffles = 20 if quick else 50
    ctx.bound("generated: up to %d rGFAs of 1-3 chromosomes, each a reference backbone of 2-15 nodes with 0-9 ears (thorough: every 10th graph 16-31 nodes, 5-20 ears) (deletion links, "
              "1-3 node alleles, nested/overlapping, cross links), optional tips at the chain ends, inverted links, self links, 4 id "
              "styles; per graph <= %d --chromosome_order values (permutations of subsets), %d line shuffles, 3 pre-tagged variants"
              % (n_graphs, 4 if quick else 15, n_shuffles))
    seeds_graphs = []
    for gi in range(n_graphs):
        size = rng.choice(["tiny", "small", "small", "medium"] if quick or gi % 10 else ["large"])
        lines, names = ol.make_chain_gfa(rng, size=size)
        _s, _l, by_name, chains = ol.analyse(lines)
        good = [n for n in names if n in by_name and by_name[n].in_domain]
        if not good:
            continue
        one_graph(ctx, d, lines, good, 4 if quick else 15, n_shuffles, "generated graph #%d" % gi)
        single = any(sum(1 for e in by_name[n].elements if e[0] == "s") == 1 for n in good)
        if single or len(good) > 1:
            seeds_graphs.append((single, lines, good))
        if ctx.out_of_time(45 if quick else 600):
            break

    # 2b. no --chromosome_order: the documented default chr1..chr22,chrX,chrY,chrM
    n_def = 2 if quick else 12
    ctx.bound("default order: %d rGFAs with exactly the 25 default chromosomes (each a small chain), no --chromosome_order given" % n_def)
    for gi in range(n_def):
        b = ol.Builder(rng, ol.Ids(rng, "s" if gi % 2 else "case"), 0.1, 0.1)
        names = list(DEFAULT_ORDER)
        rng.shuffle(names)
        for c in names:
            ears = rng.randint(0, 2)
            n_back = rng.randint(1, 3)
            ol.add_chain(b, c, n_back, ears, tips=(ears > 0 or n_back == 1 or rng.random() < 0.2, rng.random() < 0.2))
        lines = b.lines(interleave=True)
        by_name = ol.analyse(lines)[2]
        if not all(c in by_name and by_name[c].in_domain for c in DEFAULT_ORDER):
            continue
        case = {"lines": lines, "order": list(DEFAULT_ORDER), "by_chrom": gi % 2 == 0, "hashseed": None, "default": True}
        problems, _b = check(d, case)
        ctx.case("default-order", ol.digest(lines, "default"))
        _report(ctx, "default-order", problems, case, "25 default chromosomes, no --chromosome_order")

    # 3. hash seed independence (subprocess)
    seeds = range(4) if quick else range(8)
    seeds_graphs.sort(key=lambda x: not x[0])
    chosen = seeds_graphs[:4 if quick else 14]
    ctx.bound("hash seeds: %d generated graphs (single-scaffold chains first) x PYTHONHASHSEED %s in a subprocess, compared with "
              "the in-process run" % (len(chosen), list(seeds)))
    for single, lines, good in chosen:
        case0 = {"lines": lines, "order": good, "by_chrom": True, "hashseed": None}
        _p, bono0 = check(d, case0)
        jobs = [dict(lines=lines, order=good, by_chrom=True, hashseed=s) for s in seeds]
        for s, res in zip(seeds, ol.run_cli_many(d, jobs)):
            case = {"lines": lines, "order": good, "by_chrom": True, "hashseed": s, "base_lines": lines}
            ctx.case("hash-seed", ol.digest(lines, good, s))
            if not res.ok():
                ctx.fail("hash-seed", "order_gfa failed with PYTHONHASHSEED=%d: %s" % (s, res.describe()), case)
                continue
            bono = ol.bono_from_files(res, good)
            by_name = ol.analyse(lines)[2]
            problems = ol.expected_violations([by_name[c] for c in good], bono)
            if bono0 is not None and bono != bono0:
                problems.append("BO/NO differ from the in-process run: %s" % [(v, bono0.get(v), bono.get(v)) for v in sorted(bono0) if bono0.get(v) != bono.get(v)][:4])
            _report(ctx, "hash-seed", problems, case, "PYTHONHASHSEED=%d" % s)

    # 4. node ids that are decimal numbers (legal GFA names; they collide with order_gfa's internal bubble names)
    ctx.bound("numeric ids: the 3-node chain a-0-c and %d generated chains whose node ids are decimal numbers 0..25" % (10 if quick else 60))
    num = [("chain a-0-c", [S % ("a", "A", "chr1", 0, 0), S % ("0", "C", "chr1", 1, 0), S % ("c", "G", "chr1", 2, 0),
                            "L\ta\t+\t0\t+\t0M", "L\t0\t+\tc\t+\t0M"], ["chr1"])]
    for gi in range(10 if quick else 60):
        lines, names = ol.make_chain_gfa(rng, style="num", size="small", n_chrom=1)
        by_name = ol.analyse(lines)[2]
        if names[0] in by_name and by_name[names[0]].in_domain:
            num.append(("generated numeric-id graph #%d" % gi, lines, names))
    for tag, lines, names in num:
        case = {"lines": lines, "order": names, "by_chrom": True, "hashseed": None}
        problems, _b = check(d, case)
        ctx.case("numeric-ids", ol.digest(lines, names))
        _report(ctx, "numeric-ids", problems, case, tag, known="order_gfa-numeric-node-ids")
    return ("each case = one run of the real order_gfa on (graph lines in a given order, --chromosome_order, by-chrom or complete file, "
            "hash seed); distinct = distinct (line sequence, order, options); oracle = articulation points/blocks by definition, chain "
            "ordered by reference offset; invariance cases additionally compare (BO, NO) of every node with the reference run")


def replay(ctx, rec):
    c = rec["case"]
    if c.get("type") == "defect":
        from rtc import defects
        return defects.ALL[c["name"]]()
    problems, _b = check(ctx.dir("replay"), c)
    return not problems, "; ".join(problems[:3]) or "BO/NO encode the bubble chain and equal the reference run"
