"""C13 bounded stand-in: when a worker of `gaftools realign` dies before it has delivered its sentinel, the command
ends with a non-zero exit status - it never returns normally and never hangs.

Interpretation: a worker's batch ends when it has delivered its sentinel None; a death after that is outside the statement.

(a) fake multiprocessing (rtc.realignlib.World): for every worker k and every kill point j (the worker dies after having
    put j of its records, j = 0 .. all of them, never the sentinel; exit code -9 / 1 / 9 / -11) every schedule of the parent's
    observations within a timeout budget is enumerated (or sampled): the real realign_gaf must raise SystemExit with a
    non-zero code (any other exception also counts as a non-zero exit of the command).  Returning normally or reading the
    queue forever (> 200 reads in a row with every worker terminated and nothing queued, or > 2000 reads) is a violation.
(b) real processes: a driver script runs the real run_realign with --cores 2/3 and small batches; the worker whose batch
    contains record K kills itself (os._exit(9), SIGKILL, SIGSEGV, uncaught exception) before that record / before the
    sentinel; the driver must exit non-zero within 30 s.  A control run without a kill must exit 0 with the full output.

Not part of the default scope (env VERIF_C13_MIDWRITE=1 switches it on, reported with known_finding id 'worker-dies-mid-delivery'):
a worker killed WHILE it writes one result into the queue's pipe (a partial message stays in the pipe).  On the current tree the
parent then blocks for ever inside multiprocessing's recv (get(timeout) only bounds the wait for the FIRST byte)."""
import os
import signal
import subprocess
import sys
import time

from rtc import realignlib as L
from rtc import defects

CODES = [-9, 1, 9, -11]
MIDWRITE_PROBE = os.environ.get("VERIF_C13_MIDWRITE", "0") == "1"
fmt = L.fmt_script

DRIVER = r'''
import os, signal, struct, sys, time
import gaftools.cli.realign as R
gaf, gfa, fa, out, cores, K, point, mode = sys.argv[1:9]
cores, K = int(cores), int(K)
real = R.wfa_alignment

def die(qu):
    sys.stderr.write("VERIF-WORKER-DYING pid=%d\n" % os.getpid())
    sys.stderr.flush()
    time.sleep(0.05)            # let the queue's feeder thread flush what was put before
    if mode == "midwrite":      # killed while a result is being written: header announces 5000 bytes, 100 arrive
        os.write(qu._writer.fileno(), struct.pack("!i", 5000) + b"x" * 100)
        os._exit(9)
    if mode == "exit9":
        os._exit(9)
    if mode == "kill9":
        os.kill(os.getpid(), signal.SIGKILL)
    if mode == "segv":
        os.kill(os.getpid(), signal.SIGSEGV)
    raise RuntimeError("worker crashes")

def wrapped(seq_batch, qu):
    prios = [b[3] for b in seq_batch]
    if K not in prios:
        return real(seq_batch, qu)
    class Q:
        def put(self, x, *a, **kw):
            if (x is None and point == "sentinel") or (x is not None and point == "record" and x.priority == K):
                die(qu)
            qu.put(x, *a, **kw)
    return real(seq_batch, Q())

if K >= 0:
    R.wfa_alignment = wrapped
R.run_realign(gaf, gfa, fa, output=out, cores=cores)
'''


def nonzero_exit(outcome):
    if outcome.startswith("exit:"):
        code = outcome[5:]
        return code not in ("0", "None")
    return outcome.startswith("exc:")


def judge(outcome, detail, text, case):
    if nonzero_exit(outcome):
        return None
    n_out = len(text.splitlines())
    if outcome == "ok":
        return "realign returned normally (reports success) with %d of %d records written" % (n_out, len(case["gaf"]))
    if outcome == "hang":
        return "realign never ends: %s" % detail
    return "realign ended with exit status 0 (%s), %d of %d records written" % (detail, n_out, len(case["gaf"]))


def scripted(ctx, section, case, paths, cores, bs, kills, runs, budget, deadline=None):
    n = 0
    for outcome, text, detail, labels, w in runs:
        n += 1
        if deadline is not None and n % 128 == 0 and ctx.out_of_time(deadline):
            return -n
        ctx.case(section, (cores, bs, len(case["gaf"]), tuple(sorted(kills.items())), tuple(labels)),
                 sample={"cores": cores, "batch_size": bs, "records": len(case["gaf"]), "kills {worker: [records put before death, exit code]}": kills,
                         "script": " ".join(labels), "outcome": outcome})
        what = judge(outcome, detail, text, case)
        if what:
            ctx.fail(section, "cores=%d batch=%d records=%d, worker(s) %s die (worker: (records put, exit code)), schedule [%s]: %s"
                     % (cores, bs, len(case["gaf"]), kills, fmt(labels), what),
                     dict(case, kind="scripted", cores=cores, batch_size=bs, script=labels, budget=budget, kills=[[k, v[0], v[1]] for k, v in kills.items()]))
    return n


def sampled_runs(rng, paths, cores, bs, kills, n, budget):
    for _ in range(n):
        ch = L.RandomChooser(rng, p_empty=rng.choice([0.1, 0.3, 0.5]), p_alive=rng.choice([0.2, 0.5, 0.8]))
        outcome, text, detail, ch, w = L.run_schedule(paths, cores, bs, chooser=ch, kills=kills, **budget)
        yield outcome, text, detail, ch.labels(), w


def batches(n, bs):
    """sizes of the worker batches in creation order"""
    return [min(bs, n - s) for s in range(0, n, bs)]


def real_kill(ctx, section, case, paths, cores, bs, K, point, mode, limit=30, known_finding=None):
    d = os.path.dirname(paths[0])
    drv = os.path.join(d, "driver.py")
    if not os.path.exists(drv):
        with open(drv, "w") as f:
            f.write(DRIVER)
    out = os.path.join(d, "out-%d-%s-%s-%d.gaf" % (K, point, mode, cores))
    env = dict(os.environ, GAFTOOLS_VERIF="1", GAFTOOLS_VERIF_BATCH_SIZE=str(bs))
    t0 = time.time()
    p = subprocess.Popen([sys.executable, drv] + list(paths) + [out, str(cores), str(K), point, mode], stdout=subprocess.PIPE,
                         stderr=subprocess.PIPE, text=True, env=env, start_new_session=True)
    try:
        so, se = p.communicate(timeout=limit)
        rc = p.returncode
    except subprocess.TimeoutExpired:
        try:
            os.killpg(p.pid, signal.SIGKILL)
        except OSError:
            pass
        so, se = p.communicate()
        rc = "timeout"
    wall = time.time() - t0
    ctx.case(section, (cores, bs, K, point, mode, hash(tuple(case["gaf"]))),
             sample={"cores": cores, "batch_size": bs, "records": len(case["gaf"]), "dies in the batch of record": K, "before": point, "how": mode,
                     "exit status": rc, "wall_s": round(wall, 2)})
    n_out = len(open(out).read().splitlines()) if os.path.exists(out) else 0
    what = None
    if K < 0:
        text = open(out).read() if os.path.exists(out) else ""
        if rc != 0:
            what = "control run without a kill exits with %s: %s" % (rc, se.strip().splitlines()[-1:])
        elif L.check_exactly_once(case, text):
            what = "control run without a kill: " + L.check_exactly_once(case, text)
    elif rc == "timeout":
        what = "no exit within %d s after the worker died (hang); %d of %d records written" % (limit, n_out, len(case["gaf"]))
    elif "VERIF-WORKER-DYING" not in se:
        what = "harness: the kill point was never reached (exit status %s, stderr %s)" % (rc, se.strip().splitlines()[-2:])
    elif rc == 0:
        what = "exit status 0 (success) although a worker died; %d of %d records written" % (n_out, len(case["gaf"]))
    if what:
        ctx.fail(section, "real processes, cores=%d batch=%d records=%d, the worker of record %d dies before its %s (%s): %s"
                 % (cores, bs, len(case["gaf"]), K, point, mode, what),
                 dict(case, kind="real", cores=cores, batch_size=bs, K=K, point=point, mode=mode, limit=limit), known_finding=known_finding)
    return what


def run(ctx):
    rng = ctx.rng
    quick = ctx.quick
    t_budget = 60 if quick else 780
    for name, f in sorted(defects.for_property("C13").items()):
        ok, detail = f()
        ctx.case("regression", name)
        if not ok:
            ctx.fail("regression", "%s: %s" % (name, detail), {"kind": "defect", "name": name})
    confs = L.configs_single_group() + L.configs_two_groups()
    lim = 400 if quick else 6000
    n_samp = 40 if quick else 600
    n_two = 300 if quick else 6000
    ctx.bound("fake multiprocessing: (cores, batch, records) in %s; ONE dying worker: every worker x every kill point (0..all of its records put, "
              "sentinel never) with exit code in %s; per (worker, kill point) every script with <= 1 timeout-while-items-remain and <= 6 'still "
              "alive' answers, depth-first up to %d scripts, plus %d random scripts with <= 4 timeouts; plus two workers dying in %d sampled runs"
              % ([c[:3] for c in confs], CODES, lim, n_samp, n_two))
    complete = True
    ci = 0
    prepared = []
    for cores, bs, n, loop in confs:
        case = L.make_input(rng, n, cheap=True)
        paths = L.write_case(ctx.dir("c13"), case)
        sizes = batches(n, bs)
        for k, sz in enumerate(sizes):
            for j in range(sz + 1):
                ci += 1
                prepared.append((cores, bs, case, paths, {k: (j, CODES[ci % len(CODES)])}))
    for cores, bs, case, paths, kills in prepared:
        budget = {"max_empty": 1}
        cnt = scripted(ctx, "kill-exhaustive", case, paths, cores, bs, kills, L.explore(paths, cores, bs, kills=kills, limit=lim, **budget), budget,
                       deadline=t_budget * 0.6)
        if cnt < 0 or cnt >= lim:
            complete = False
    for cores, bs, case, paths, kills in prepared:
        budget = {"max_empty": 4, "max_alive": 8}
        scripted(ctx, "kill-sampled", case, paths, cores, bs, kills, sampled_runs(rng, paths, cores, bs, kills, n_samp, budget), budget,
                 deadline=t_budget * 0.75)
    ctx.exhaustive = complete
    # two dying workers
    multi = [c for c in confs if len(batches(c[2], c[1])) >= 2]
    for _ in range(n_two):
        if ctx.out_of_time(t_budget * 0.85):
            break
        cores, bs, n, loop = rng.choice(multi)
        case = L.make_input(rng, n, cheap=True)
        paths = L.write_case(ctx.dir("c13m"), case)
        sizes = batches(n, bs)
        ks = rng.sample(range(len(sizes)), 2)
        kills = {k: (rng.randint(0, sizes[k]), rng.choice(CODES)) for k in ks}
        budget = {"max_empty": 4, "max_alive": 8}
        scripted(ctx, "kill-two-workers", case, paths, cores, bs, kills, sampled_runs(rng, paths, cores, bs, kills, 1, budget), budget)
    # ---- (b) real processes ---------------------------------------------------------------------
    plan = [(2, 2, 7, 0, "record", "exit9"), (2, 2, 7, 3, "record", "kill9"), (2, 2, 7, 2, "sentinel", "kill9"), (2, 2, 7, 6, "record", "exit9"),
            (2, 2, 7, 5, "sentinel", "raise"), (3, 1, 5, 4, "sentinel", "segv"),
            # a Python-level crash INSIDE wfa_alignment while a result is handed over (added after seeded change C13/2: sentinel sent from a finally block)
            (2, 2, 7, 3, "record", "raise"), (2, 3, 7, 1, "record", "raise")]
    if not quick:
        plan += [(2, 2, 7, K, pt, md) for K in range(7) for pt in ("record", "sentinel") for md in ("kill9", "raise")]
        plan += [(3, 1, 5, K, pt, "exit9") for K in range(5) for pt in ("record", "sentinel")] + [(1, 3, 5, 1, "record", "kill9"), (1, 3, 5, 4, "sentinel", "segv"), (4, 1, 6, 2, "record", "segv")]
    ctx.bound("real processes: %d runs of run_realign in a subprocess (cores, batch, records, record K, kill point, way of dying) e.g. %s; the worker "
              "whose batch holds record K dies before putting that record / before its sentinel; exit status must be non-zero within 30 s; one control "
              "run per configuration without a kill must exit 0 with complete output" % (len(plan), plan[:6]))
    cases = {}
    for cores, bs, n, K, point, mode in plan:
        key = (cores, bs, n)
        if key not in cases:
            case = L.make_input(rng, n, cheap=True)
            paths = L.write_case(ctx.dir("c13r"), case)
            cases[key] = (case, paths)
            real_kill(ctx, "real-control", case, paths, cores, bs, -1, "none", "none")
        case, paths = cases[key]
        real_kill(ctx, "real-kill", case, paths, cores, bs, K, point, mode)
    if MIDWRITE_PROBE or not ctx.quick:  # thorough tier: reported as the recorded known finding (known_findings.json)
        # outside the stated kill points (before / between / after delivering results): the worker is killed WHILE one result is
        # being written to the queue's pipe (possible for messages > PIPE_BUF or a full pipe).  Off by default, see module docstring.
        ctx.bound("VERIF_C13_MIDWRITE=1: 2 real runs in which the dying worker leaves a partial message in the result pipe")
        for cores, bs, n, K in ((2, 2, 7, 1), (2, 2, 7, 6)):
            case, paths = cases[(cores, bs, n)]
            real_kill(ctx, "real-kill-midwrite", case, paths, cores, bs, K, "record", "midwrite", limit=15, known_finding="worker-dies-mid-delivery")
    return ("each case = one run of the real realign_gaf with one (or two) worker(s) dying at a stated point under one schedule of parent observations "
            "(fake multiprocessing; distinct = distinct (configuration, worker, kill point, exit code, script)), or one subprocess run with a real worker "
            "killing itself; oracle = the way the run ends: SystemExit/exit status != 0 required, normal return or unbounded queue reading is a violation")


def replay(ctx, rec):
    c = rec["case"]
    if c.get("kind") == "defect":
        return defects.ALL[c["name"]]()
    paths = L.write_case(ctx.dir("replay"), c)
    if c["kind"] == "scripted":
        kills = {int(k): (j, code) for k, j, code in c["kills"]}
        outcome, text, detail, ch, w = L.run_schedule(paths, c["cores"], c["batch_size"], script=c["script"], kills=kills, **c.get("budget", {}))
        what = judge(outcome, detail, text, c)
        return what is None, what or "realign ends with %s" % (detail or outcome)
    sub = type(ctx)(ctx.pid, "quick", 0, ctx.dir("r"))
    what = real_kill(sub, "replay", c, paths, c["cores"], c["batch_size"], c["K"], c["point"], c["mode"], limit=c.get("limit", 30))
    return what is None, what or "non-zero exit status after the worker died"
