"""C17 bounded stand-in: results do not depend on input compression.

One generated data set (tiny rGFA with sequences and BO/NO tags, an unstable GAF with optional fields over the whole tag
grammar, its stable image, reads FASTA, haplotag TSV, node paths) is written as  x.gaf / x.gaf.gz (BGZF, pysam.libcbgzf)
and  g.gfa / g.gfa.gz (gzip module).  Every sub-command that takes a GAF and/or a graph is run IN-PROCESS (the real code)
under every combination of {plain, BGZF} x {gfa, gfa.gz}; the plain/plain run is the reference and every other
configuration must give the same result:
   view (whole file, --format stable, --format unstable, -n, -r, -n --format), index (same keys; every stored offset is
   resolved with the real GAF(...).read_line in the file that was indexed and must give the same record), sort (same output
   lines; first/last offsets of the .gsi resolved in the respective output, plain and --bgzip output), stat (with and
   without --cigar), realign, phase, find_path (path string / file of paths / --fasta), order_gfa.
Data sets come in two sizes: small (1-40 records, one BGZF block) and large (> 64 KiB and > 128 KiB of GAF text, so that
the BGZF copy spans several blocks and virtual offsets differ from plain offsets)."""
import hashlib
import json
import os
import pickle

from rtc import taglib as T
from rtc import sortlib
from rtc.gen import make_rgfa, write_lines

GAF_CONF = ["plain", "bgzf"]
GFA_CONF = ["gfa", "gfa.gz"]


class Files:
    """writes one data set in all its compression variants"""

    def __init__(self, d, data):
        self.d, self.data = d, data
        self.gfa = {"gfa": os.path.join(d, "g.gfa"), "gfa.gz": os.path.join(d, "g.gfa.gz")}
        with open(self.gfa["gfa"], "w") as f:
            f.write("\n".join(data["gfa"]) + "\n")
        # every second data set gets a two-member gzip file (as bgzip / concatenation produce), added after seeded change C17/2
        T.gzip_copy(self.gfa["gfa"], self.gfa["gfa.gz"], members=2 if len(data["gfa"]) % 2 == 0 else 1)
        self.u = self._pair("u", data["gaf"])
        self._s = None
        self.fasta = os.path.join(d, "reads.fa")
        T.write_fasta(self.fasta, data.get("reads", []))
        self.tsv = os.path.join(d, "h.tsv")
        with open(self.tsv, "w") as f:
            f.write("".join(l + "\n" for l in data.get("tsv", [])))
        self.paths = os.path.join(d, "paths.txt")
        with open(self.paths, "w") as f:
            f.write("".join(l + "\n" for l in data.get("paths", [])))
        self.n = 0

    def _pair(self, stem, lines):
        # the tool recognises a compressed GAF by its CONTENT (magic bytes): every third data set names its BGZF copy x.bgzf.gaf, as
        # `gaftools sort --bgzip --outgaf sorted.gaf` would (added after seeded change C17-6)
        p = {"plain": os.path.join(self.d, stem + ".gaf"),
             "bgzf": os.path.join(self.d, stem + (".bgzf.gaf" if len(self.data["gaf"]) % 3 == 0 else ".gaf.gz"))}
        eol = self.data.get("eol", "\n")
        write_lines(p["plain"], lines, eol=eol)
        write_lines(p["bgzf"], lines, bgzf=True, eol=eol)
        return p

    @property
    def s(self):
        """the stable image of the GAF (made by gaftools itself from the plain files; it is an INPUT here)"""
        if self._s is None:
            lines = T.real_view(self.u["plain"], self.tmp("s-make.gaf"), gfa=self.gfa["gfa"], fmt="stable")
            self._s = self._pair("s", lines)
        return self._s

    def gaf(self, which):
        return self.u if which == "u" else self.s

    def tmp(self, name):
        self.n += 1
        return os.path.join(self.d, "t%d-%s" % (self.n, name))


def read_any(path):
    return T.lines_of(T.read_text(path))


# ---- the commands: each returns [(configuration label, result)] with the reference configuration first -------------------
def cmd_view(F, var):
    g = F.gaf(var["input"])
    return [(c, lambda c=c: T.real_view(g[c], F.tmp("view.gaf"))) for c in GAF_CONF]


def cmd_view_format(F, var):
    g = F.gaf("u" if var["format"] == "stable" else "s")
    return [(c + "," + k, lambda c=c, k=k: T.real_view(g[c], F.tmp("conv.gaf"), gfa=F.gfa[k], fmt=var["format"]))
            for c in GAF_CONF for k in GFA_CONF]


def _index(F, g, c, k):
    out = F.tmp("idx.gvi")
    idx = T.real_index(g[c], F.gfa[k], out)
    return out, idx


def cmd_index(F, var):
    g = F.gaf(var["input"])

    def one(c, k):
        _, idx = _index(F, g, c, k)
        res = T.real_resolve(g[c], idx)
        return {"keys": sorted(res), "resolved": res}
    return [(c + "," + k, lambda c=c, k=k: one(c, k)) for c in GAF_CONF for k in GFA_CONF]


def cmd_view_select(F, var):
    g = F.gaf(var["input"])

    def one(c, k):
        ipath, _ = _index(F, g, c, k)
        return T.real_view(g[c], F.tmp("sel.gaf"), gfa=F.gfa[k] if var.get("format") else None, fmt=var.get("format"),
                           nodes=var.get("nodes", ()), regions=var.get("regions", ()), index=ipath)
    return [(c + "," + k, lambda c=c, k=k: one(c, k)) for c in GAF_CONF for k in GFA_CONF]


def cmd_sort(F, var):
    from gaftools.cli.sort import run_sort

    def one(c, k):
        out = F.tmp("sorted.gaf") + (".gz" if var["bgzip"] else "")
        with T.quiet():
            run_sort(F.gfa[k], F.u[c], outgaf=out, outind=None, bgzip=var["bgzip"])
        with open(out + ".gsi", "rb") as f:
            idx = pickle.load(f)
        return {"lines": read_any(out), "index": T.real_resolve(out, {kk: list(v) for kk, v in idx.items()})}
    return [(c + "," + k, lambda c=c, k=k: one(c, k)) for c in GAF_CONF for k in GFA_CONF]


def cmd_stat(F, var):
    return [(c, lambda c=c: T.real_stat(F.u[c], F.tmp("stat.txt"), cigar=var["cigar"])) for c in GAF_CONF]


def cmd_realign(F, var):
    return [(c + "," + k, lambda c=c, k=k: T.real_realign(F.u[c], F.gfa[k], F.fasta, F.tmp("re.gaf"))) for c in GAF_CONF for k in GFA_CONF]


def cmd_phase(F, var):
    g = F.gaf(var["input"])
    return [(c, lambda c=c: T.real_phase(g[c], F.tsv, F.tmp("ph.gaf"))) for c in GAF_CONF]


def cmd_find_path(F, var):
    inp = F.data["paths"][0] if var["mode"] == "string" else F.paths
    return [(k, lambda k=k: T.real_find_path(F.gfa[k], inp, F.tmp("fp.txt"), fasta=var["fasta"])) for k in GFA_CONF]


def cmd_order_gfa(F, var):
    def one(k):
        files = T.real_order_gfa(F.gfa[k], F.tmp("ordered"), var["chromosomes"], by_chrom=var["by_chrom"], with_sequence=var["with_sequence"])
        # file names are derived from the input name; compare by (chromosome suffix, extension)
        return {n.split("-", 1)[1] if "-" in n else n: txt for n, txt in files.items()}
    return [(k, lambda k=k: one(k)) for k in GFA_CONF]


COMMANDS = {"view": cmd_view, "view-format": cmd_view_format, "index": cmd_index, "view-select": cmd_view_select, "sort": cmd_sort,
            "stat": cmd_stat, "realign": cmd_realign, "phase": cmd_phase, "find_path": cmd_find_path, "order_gfa": cmd_order_gfa}


def first_difference(a, b, where=""):
    if type(a) is not type(b):
        return "%s: %r vs %r" % (where, str(a)[:150], str(b)[:150])
    if isinstance(a, dict):
        if sorted(a) != sorted(b):
            return "%s: key sets differ: only in reference %r, only here %r" % (where, sorted(set(a) - set(b))[:5], sorted(set(b) - set(a))[:5])
        for k in sorted(a):
            d = first_difference(a[k], b[k], "%s[%s]" % (where, k))
            if d:
                return d
        return None
    if isinstance(a, list):
        if len(a) != len(b):
            return "%s: %d entries in the reference, %d here" % (where, len(a), len(b))
        for i, (x, y) in enumerate(zip(a, b)):
            d = first_difference(x, y, "%s[%d]" % (where, i))
            if d:
                return d
        return None
    return None if a == b else "%s: reference %r, here %r" % (where, str(a)[:200], str(b)[:200])


def compare_command(F, cmd, var):
    """-> (list of (config, status, problem or None), reference result). status: 'ok' | 'raised'"""
    runs = COMMANDS[cmd](F, var)
    results = []
    for label, fn in runs:
        try:
            results.append((label, "ok", fn()))
        except BaseException as e:  # noqa
            results.append((label, "raised", "%s: %s" % (type(e).__name__, str(e)[:200])))
    ref = results[0]
    out = []
    for label, status, res in results[1:]:
        if status != ref[1]:
            p = "reference (%s) %s, configuration %s %s: %s" % (ref[0], "succeeded" if ref[1] == "ok" else "raised " + str(ref[2]), label,
                                                               "succeeded" if status == "ok" else "raised", res if status != "ok" else "")
        elif status == "raised":
            p = None if res.split(":")[0] == ref[2].split(":")[0] else "different exceptions: reference %s, %s %s" % (ref[2], label, res)
        else:
            p = first_difference(ref[2], res, "result")
            if p:
                p = "configuration %s differs from %s: %s" % (label, ref[0], p)
        out.append((label, status, p))
    return out, ref


def evaluate(ctx, F, did, cmd, var):
    data = F.data
    out, ref = compare_command(F, cmd, var)
    vkey = json.dumps(var, sort_keys=True)
    size = ref[2] if ref[1] == "ok" else None
    nontrivial = ref[1] == "ok" and bool(size)
    for label, status, p in out:
        ctx.case(cmd, (did, vkey, label), nontrivial=nontrivial,
                 sample={"command": cmd, "variant": var, "configuration": label, "records": len(data["gaf"]), "reference": str(ref[2])[:200]})
        if p:
            ctx.fail(cmd, "%s %s on a GAF of %d records (%d bytes): %s" % (cmd, vkey, len(data["gaf"]), sum(len(l) + 1 for l in data["gaf"]), p),
                     {"data": data, "cmd": cmd, "var": var})
    if ref[1] != "ok":
        ctx.sections["(reference run raised) " + cmd] = ctx.sections.get("(reference run raised) " + cmd, 0) + 1
    return out, ref


# ---- data sets -----------------------------------------------------------------------------------------------------
def make_data(rng, n, long_z=0, n_chrom=1):
    g = make_rgfa(rng, n_ref=rng.randint(5, 6), max_len=6, n_bubbles=rng.randint(1, 2), hap_mode=rng.choice(["adjacent", "separated", "mixed"]),
                  inversion=rng.random() < 0.5, n_chrom=n_chrom, link_tags=False)
    sortlib.tag_graph(rng, g, untagged_frac=0.15)
    walks = g.walks(4)
    recs = T.rand_records(rng, g, n, walks=walks, long_z=long_z, forbid=("cg", "ds", "ps", "ht", "bo", "sn", "iv"))
    lines = ["\t".join(r[3]) for r in recs]
    names = [T.cut_name(r[3][0]) for r in recs]
    tsv = ["#readname\thaplotype\tphaseset\tchromosome"]
    for nm in names:
        k = rng.random()
        if k < 0.5:
            tsv.append("%s\t%s\t%d\tchr%d" % (nm, rng.choice(["H1", "H2"]), rng.randint(1, 99999), rng.randint(1, 2)))
        elif k < 0.7:
            tsv.append("%s\tnone\tnone\tchr1" % nm)
    paths = ["".join(o + nid for nid, o in w) for w in rng.sample(walks, min(len(walks), 12))]
    used = sorted({nid for r in recs for nid, _ in r[0]})
    nd = g.by_id[rng.choice(used)]
    return {"gfa": g.lines(), "gaf": lines, "reads": T.reads_for(g, recs, rng), "tsv": tsv, "paths": paths,
            "nodes": used, "region": "%s:%d-%d" % (nd.sn, nd.so, nd.end), "chromosomes": ",".join("chr%d" % (i + 1) for i in range(n_chrom))}


def variants(rng, data, large):
    used = data["nodes"]
    one = [rng.choice(used)]
    v = [("view", {"input": "u"}), ("view", {"input": "s"}),
         ("view-format", {"format": "stable"}), ("view-format", {"format": "unstable"}),
         ("index", {"input": "u"}), ("index", {"input": "s"}),
         ("view-select", {"input": "u", "nodes": used}), ("view-select", {"input": "u", "nodes": one}),
         ("view-select", {"input": "u", "regions": [data["region"]]}),
         ("view-select", {"input": "u", "nodes": used[:2], "format": "stable"}),
         ("view-select", {"input": "s", "nodes": used, "format": "unstable"}),
         ("view-select", {"input": "s", "nodes": used}),
         ("sort", {"bgzip": False}), ("sort", {"bgzip": True}),
         ("stat", {"cigar": False}), ("stat", {"cigar": True}),
         ("realign", {}), ("phase", {"input": "u"}), ("phase", {"input": "s"}),
         ("find_path", {"mode": "string", "fasta": False}), ("find_path", {"mode": "file", "fasta": True}), ("find_path", {"mode": "file", "fasta": False}),
         ("order_gfa", {"chromosomes": data["chromosomes"], "by_chrom": True, "with_sequence": False}),
         ("order_gfa", {"chromosomes": data["chromosomes"], "by_chrom": False, "with_sequence": True})]
    if not large:
        for nd in used:
            v.append(("view-select", {"input": "u", "nodes": [nd]}))
    return v


def data_id(data):
    return hashlib.sha1(json.dumps([data["gfa"], data["gaf"]]).encode()).hexdigest()[:12]


def run(ctx):
    rng, q = ctx.rng, ctx.quick
    plan = [(650, 160, 2), (1300, 60, 1)] if q else [(650, 160, 2), (1300, 60, 1), (2500, 200, 2), (900, 90, 1), (4000, 20, 2)]
    n_small = 14 if q else 220
    sizes = []
    for (n, lz, nc) in plan:
        data = make_data(rng, n, long_z=lz, n_chrom=nc)
        F = Files(ctx.dir("large"), data)
        sizes.append((n, os.path.getsize(F.u["plain"]), T.bgzf_blocks(F.u["bgzf"])))
        did = data_id(data)
        for cmd, var in variants(rng, data, True):
            evaluate(ctx, F, did, cmd, var)
            if ctx.out_of_time(75 if q else 800):
                break
    ctx.bound("large data sets: %s; each over a random rGFA (5-6 reference segments of length 1-6 per chromosome, 1-2 bubbles, optional "
              "inversion, 1-2 chromosomes, random BO/NO tags)" % "; ".join("%d records = %d bytes of GAF text = %d BGZF blocks" % s for s in sizes))
    ctx.bound("%d small data sets of 1-40 records (single BGZF block); every record has 0-5 random optional fields over the whole tag grammar "
              "(+ a long Z field in the large sets), walks of <= 4 steps, any (start,end); every fifth set with CR LF line ends, every fifth with a UTF-8 Z value" % n_small)
    ctx.bound("per data set 24 command variants (+ view -n for every single node in small sets): view x2, view -f x2, index x2, view -n/-r/-n -f x6, "
              "sort x2 (plain / --bgzip output), stat x2, realign, phase x2, find_path x3, order_gfa x2; each under all 2 (GAF) x 2 (graph) "
              "configurations that apply; reference = plain GAF + plain GFA")
    for i in range(n_small):
        data = make_data(rng, rng.choice([1, 2, 3, 5, 8, 13, 25, 40]), n_chrom=rng.choice([1, 2]))
        # text whose character count differs from its byte count, and CR LF line ends: the plain file is read in text mode, the BGZF file as
        # bytes (added after seeded change C17-3)
        if i % 5 == 1:
            data["eol"] = "\r\n"
        elif i % 5 == 3:
            data["gaf"] = [l + "\tco:Z:caf\u00e9 \u2713 %d" % k for k, l in enumerate(data["gaf"])]
        did = data_id(data)
        F = Files(ctx.dir("small"), data)
        for cmd, var in variants(rng, data, False):
            evaluate(ctx, F, did, cmd, var)
        if ctx.out_of_time(85 if q else 850):
            break
    return ("each case = one (data set, sub-command variant, compressed configuration) whose complete result (output records / report text / "
            "index keys with every offset resolved to its record by the real reader / output files) is compared with the result of the same "
            "real code on the plain GAF + plain GFA; non-trivial = the reference run succeeded with a non-empty result; distinct = distinct "
            "(data set hash, command variant, configuration)")


def replay(ctx, rec):
    c = rec["case"]
    out, ref = compare_command(Files(ctx.dir("replay"), c["data"]), c["cmd"], c["var"])
    bad = [p for _, _, p in out if p]
    return not bad, bad[0] if bad else "all %d compressed configurations agree with the plain one (reference %s)" % (len(out), ref[1])
