"""C02 bounded stand-in: `view --format` is lossless.

Files of 1-50 canonical '+'-strand unstable records (the alignment touches the first and the last node of its walk) over
tiny random rGFAs are converted by the REAL `gaftools view --format stable`, the result is converted back with
`--format unstable`, and that result once more to stable.  Checked, with an identity oracle on the TAB-separated fields:
  * every conversion emits exactly one record per input record, in input order (read names are unique);
  * columns 1-4 and 10-12 and every optional field other than the value of cg:Z are unchanged, a record without cg:Z
    does not get one;
  * unstable -> stable -> unstable reproduces the input file byte for byte;
  * stable (gaftools' own canonical form) -> unstable -> stable reproduces the stable file byte for byte."""
import os

from rtc import taglib as T
from rtc import defects
from rtc.gen import make_rgfa, gaf_record, write_lines, canonical_ranges, colon_contigs, rename_ids


def unchanged_problem(before, after):
    """columns 1-4, 10-12 and the optional fields other than the CIGAR value"""
    if len(after) < 12:
        return "output has %d columns" % len(after)
    for i in (0, 1, 2, 3, 9, 10, 11):
        if before[i] != after[i]:
            return "column %d changed from %r to %r" % (i + 1, before[i], after[i])
    if T.mask_cg(before[12:]) != T.mask_cg(after[12:]):
        return "optional fields changed from %r to %r" % (before[12:], after[12:])
    return None


def convert(d, gfa, lines, fmt, tag, bgzf=False):
    src = os.path.join(d, "in-%s.gaf" % tag) + (".gz" if bgzf else "")
    out = os.path.join(d, "out-%s.gaf" % tag)
    if os.path.exists(src):
        os.unlink(src)
    write_lines(src, lines, bgzf=bgzf)
    T.real_view(src, out, gfa=gfa, fmt=fmt)
    return open(out).read()


def step_problems(name, inp, out_text):
    """one conversion step: record count / order / untouched columns. -> (output lines or None, [(index, problem)])"""
    out = T.lines_of(out_text)
    if len(out) != len(inp):
        return None, [(-1, "%s: %d records in, %d records out" % (name, len(inp), len(out)))]
    probs = []
    for i, (a, b) in enumerate(zip(inp, out)):
        af, bf = a.split("\t"), b.split("\t")
        if af[0] != bf[0]:
            probs.append((i, "%s: output record %d is read %r, input record %d is read %r (order / identity lost)" % (name, i, bf[0], i, af[0])))
            continue
        p = unchanged_problem(af, bf)
        if p:
            probs.append((i, "%s: %r -> %r: %s" % (name, a, b, p)))
    return out, probs


def drive(d, case):
    """-> (list of (index, problem), stable lines or None)"""
    gfa = os.path.join(d, "g.gfa")
    with open(gfa, "w") as f:
        f.write("\n".join(case["gfa"]) + "\n")
    U = case["gaf"]
    bg = bool(case.get("bgzf"))
    probs = []
    s_text = convert(d, gfa, U, "stable", "u", bg)
    S, p = step_problems("unstable->stable", U, s_text)
    probs += p
    if S is None:
        return probs, None
    u2_text = convert(d, gfa, S, "unstable", "s", bg)
    U2, p = step_problems("stable->unstable", S, u2_text)
    probs += p
    if U2 is None:
        return probs, S
    for i, (a, b) in enumerate(zip(U, U2)):
        if a != b:
            probs.append((i, "unstable->stable->unstable does not reproduce the record: %r -> %r -> %r" % (a, S[i], b)))
    if U2 == U and u2_text != "".join(l + "\n" for l in U):
        probs.append((-1, "round trip output is not byte-identical to the input file (line ends / trailing bytes)"))
    s2_text = convert(d, gfa, U2, "stable", "u2", bg)
    S2 = T.lines_of(s2_text)
    if len(S2) != len(S):
        probs.append((-1, "stable->unstable->stable: %d records in, %d out" % (len(S), len(S2))))
    else:
        for i, (a, b) in enumerate(zip(S, S2)):
            if a != b:
                probs.append((i, "stable->unstable->stable does not reproduce gaftools' own stable record: %r -> %r -> %r" % (a, U2[i], b)))
    return probs, S


def evaluate(ctx, section, case, gkey, d):
    try:
        probs, S = drive(d, case)
    except BaseException as e:  # noqa
        probs, S = [(-1, "gaftools view --format raised %s: %s" % (type(e).__name__, e))], None
    lines = case["gaf"]
    bad = {}
    for i, p in probs:
        bad.setdefault(i, p)
    for i, l in enumerate(lines):
        f = l.split("\t")
        ctx.case(section, (gkey, f[5], f[7], f[8], T.has_cg(f)), sample={"unstable": f[:9], "stable": S[i].split("\t")[:9] if S else None})
        if S:
            sf = S[i].split("\t")
            ctx.case(section + "-from-stable", (gkey, sf[4], sf[5], sf[7], sf[8], T.has_cg(sf)))
    for i, p in sorted(bad.items())[:2]:
        small = case
        if i >= 0 and len(lines) > 1:
            one = dict(case, gaf=[lines[i]])
            try:
                r1 = drive(d, one)[0]
            except BaseException:  # noqa
                r1 = [(0, "raised")]
            if r1:
                small = one
        ctx.fail(section, p, small)


# ---- generation ---------------------------------------------------------------------------------------------
def make_graph(rng):
    g = _make_graph(rng)
    if rng.random() < 0.2:
        g = rename_ids(g, rng.choice(["dash", "dot", "hash"]))  # segment names with punctuation (after seeded change C01-5)
    return colon_contigs(g) if rng.random() < 0.2 else g  # contig names containing ':' (F18)


def _make_graph(rng):
    return make_rgfa(rng, n_ref=rng.randint(2, 5), max_len=3, n_bubbles=rng.randint(0, 3),
                     hap_mode=rng.choice(["adjacent", "separated", "mixed"]), inversion=rng.random() < 0.5,
                     self_link=rng.random() < 0.25, n_chrom=rng.choice([1, 1, 2]))


def record(rng, g, w, s, e, idx):
    cg = None if rng.random() < 0.3 else T.rand_cigar(rng, e - s)
    tags = T.rand_optional(rng, rng.choice([0, 0, 1, 2, 4]), cigar=cg)
    return "\t".join(gaf_record(g, w, s, e, name="q%d" % idx, qlen=e - s + rng.randint(0, 2), mapq=rng.choice([0, 60, 255]), cigar="",
                                tags=tags, matches=rng.randint(1, e - s), block=e - s + rng.randint(0, 1)))


def run(ctx):
    rng, q = ctx.rng, ctx.quick
    for name, fn in sorted(defects.for_property("C02").items()):
        try:
            ok, detail = fn()
        except BaseException as e:  # noqa
            ok, detail = False, "raised %s: %s" % (type(e).__name__, e)
        ctx.case("regressions", name)
        if not ok:
            ctx.fail("regressions", "%s: %s" % (name, detail), {"kind": "defect", "name": name})
    n_graphs = 40 if q else 500
    ctx.bound("%d random valid rGFAs (2-5 reference segments of length 1-3 per chromosome, 0-3 bubbles whose alleles come from haplotype "
              "contigs with adjacent / separated / mixed segments, optional inversion links and self link, 1-2 chromosomes; every second file with shuffled lines); per graph: ALL walks "
              "of <= 3 steps x ALL canonical (start,end) pairs (capped at 400 records, cut into files of 1-50 records) plus 2 files of walks "
              "of 4-5 steps; '+' strand; 0-4 random optional fields, cg:Z present (random CIGAR, any position) or absent; some inputs BGZF" % n_graphs)
    d = ctx.dir("c02")
    for gi in range(n_graphs):
        g = make_graph(rng)
        gfa = g.lines()
        if gi % 2 == 1:
            # an rGFA need not be sorted: every second graph is written with shuffled S / L lines, so a contig's segments are not in SO order in
            # the file (added after seeded change C02-4)
            gfa = list(gfa)
            rng.shuffle(gfa)
        gkey = tuple(l for l in gfa if l[0] == "S")
        cands = [(w, s, e) for w in g.walks(3) for (s, e) in canonical_ranges(g, w)]
        if len(cands) > 400:
            cands = rng.sample(cands, 400)
        else:
            rng.shuffle(cands)
        long_walks = [w for w in g.walks(5, min_steps=4)]
        files = []
        pos = 0
        while pos < len(cands):
            n = rng.choice([1, 2, 3, 5, 10, 25, 50])
            files.append(cands[pos:pos + n])
            pos += n
        for _ in range(2):
            if long_walks:
                ws = [rng.choice(long_walks) for _ in range(rng.randint(1, 50))]
                files.append([(w,) + rng.choice(canonical_ranges(g, w)) for w in ws])
        for fi, chunk in enumerate(files):
            lines = [record(rng, g, w, s, e, i) for i, (w, s, e) in enumerate(chunk)]
            evaluate(ctx, "round-trip", {"gfa": gfa, "gaf": lines, "bgzf": fi % 7 == 3}, gkey, d)
        if ctx.out_of_time(60 if q else 700):
            break
    # files of more than 1000 / 2000 records: anything that buffers, chunks or looks ahead over the record stream shows only at this size
    # (added after seeded change C02-6; C01-6 needed more than 10)
    for n_rec, bg in ((1001, False), (2503, True)) if q else ((1001, False), (2503, True), (1000, True), (5001, False)):
        g = make_graph(rng)
        gfa = g.lines()
        cands = [(w, s, e) for w in g.walks(3) for (s, e) in canonical_ranges(g, w)]
        chunk = [rng.choice(cands) for _ in range(n_rec)]
        lines = [record(rng, g, w, s, e, i) for i, (w, s, e) in enumerate(chunk)]
        evaluate(ctx, "large-file", {"gfa": gfa, "gaf": lines, "bgzf": bg}, tuple(l for l in gfa if l[0] == "S"), d)
    ctx.bound("large files: %s records (walks of <= 3 steps drawn with repetition), same round trips" % ("1001 and 2503" if q else "1000, 1001, 2503 and 5001"))
    return ("each case = one canonical '+' unstable record (graph, walk, start, end, with/without CIGAR) inside a file of 1-50 records, taken "
            "through unstable->stable->unstable->stable by the real CLI code; the stable image of every record is counted as a case of the "
            "stable->unstable->stable direction; identity oracle on fields / bytes; distinct = distinct (graph, path, start, end, cg presence)")


def replay(ctx, rec):
    c = rec["case"]
    if c.get("kind") == "defect":
        return defects.ALL[c["name"]]()
    try:
        probs, _ = drive(ctx.dir("replay"), c)
    except BaseException as e:  # noqa
        return False, "gaftools view --format raised %s: %s" % (type(e).__name__, e)
    return not probs, probs[0][1] if probs else "both round trips reproduce the %d record(s); untouched columns unchanged" % len(c["gaf"])
