"""C15 bounded stand-in: the REAL GFA.all_components / find_component / dfs / biccs and the REAL editing primitives
(add_node / add_edge / remove_node / remove_edge) against definitional oracles of rtc.graphlib:

  * connected components   = union-find over the links
  * biconnected components = classes of links under 'lie on a common simple cycle' (brute force, <= 7 nodes) or an own
                             recursive lowpoint implementation (larger graphs; cross-checked against the brute force here)
  * articulation points    = node whose removal disconnects the rest
  * histories              = a set model of nodes and (node side, node side, overlap) links, replayed in lock step

Graphs are built through the API and by writing a GFA file and loading it."""
import itertools
import logging
import os

from rtc import graphlib as gl

NAMES = ["a", "s2", "10", "n_4", "e", "06", "g7", "8"]
SEQS = ["ACG", "T", "GGA", "CN", "TTAC", "A", "GT", "CCC"]
CHECK_SIDE_TABLES = True   # also demand that GFA.edge_tags / GFA.contig_to_nodes never mention a deleted node


def _names(n):
    return NAMES[:n] if n <= len(NAMES) else ["v%d" % i for i in range(n)]


def _nodes(names):
    return [(nm, SEQS[i % len(SEQS)]) for i, nm in enumerate(names)]


def _pairs(links):
    return [(l[0], l[2]) for l in links]


def _reset(g):
    for nd in g.nodes.values():
        nd.visited = False


def _fs(sets):
    return sorted((sorted(s) for s in sets))


# ---- the checks (return a list of one-line problems; empty = property holds on this graph) ----------------------------
def decomposition_problems(g, node_ids, links, starts, oracle="cycles"):
    """g: the gaftools graph under test; node_ids/links: what it was built from; starts: start nodes / roots to try"""
    out = []
    pairs = _pairs(links)
    truth = gl.components(node_ids, pairs)
    comp_of = {n: c for c in truth for n in c}
    for attempt in (1, 2):
        try:
            got = g.all_components()
        except Exception as e:  # noqa
            out.append("all_components() call %d raised %s: %s" % (attempt, type(e).__name__, e))
            break
        if _fs(got) != _fs(truth) or len(got) != len(truth):
            out.append("all_components() call %d returned %s, the connected components are %s" % (attempt, _fs(got), _fs(truth)))
            break
    _reset(g)
    for s in starts:
        try:
            got = g.find_component(s)
        except Exception as e:  # noqa
            out.append("find_component(%r) raised %s: %s" % (s, type(e).__name__, e))
            got = None
        _reset(g)
        if got is not None and set(got) != comp_of[s]:
            out.append("find_component(%r) on a graph with clean visited flags returned %s, the component is %s" % (s, sorted(got), sorted(comp_of[s])))
        try:
            got = g.dfs(s)
        except Exception as e:  # noqa
            out.append("dfs(%r) raised %s: %s" % (s, type(e).__name__, e))
            continue
        if len(got) != len(set(got)) or set(got) != comp_of[s]:
            out.append("dfs(%r) returned %s; every node of the component %s must appear exactly once" % (s, list(got), sorted(comp_of[s])))
    if len(truth) == 1:
        if oracle == "cycles":
            blocks = gl.blocks_by_cycles(node_ids, pairs)
        else:
            blocks, aps_lp = gl.blocks_lowpoint(node_ids, pairs)
        # removal + connectivity is quadratic: beyond 150 nodes the (cross-checked) lowpoint code supplies the articulation points
        aps = gl.articulation_by_removal(node_ids, pairs) if len(node_ids) <= 150 else aps_lp
        for root in [None] + list(starts):
            try:
                comps, art = g.biccs() if root is None else g.biccs([root])
            except Exception as e:  # noqa
                out.append("biccs(%s) raised %s: %s" % ("" if root is None else [root], type(e).__name__, e))
                continue
            tag = "biccs()" if root is None else "biccs([%r]) (traversal rooted at %r)" % (root, root)
            if {frozenset(c) for c in comps} != blocks or len(comps) != len(blocks):
                out.append("%s returned components %s, the biconnected components are %s" % (tag, _fs(comps), _fs(blocks)))
            else:
                for a, b in pairs:
                    k = sum(1 for c in comps if a in c and b in c)
                    if a != b and k != 1:
                        out.append("%s: link %s-%s lies in %d reported components" % (tag, a, b, k))
                        break
            if set(art) != aps:
                out.append("%s returned articulation points %s, removal+connectivity says %s" % (tag, sorted(art), sorted(aps)))
    return out


def structure_problems(g, node_ids, canon_links):
    """adjacency of g against the set model: exact start/end sets, symmetry, no dangling reference, neighbors()"""
    out = []
    if set(g.nodes.keys()) != set(node_ids):
        out.append("node set is %s, expected %s" % (sorted(g.nodes.keys()), sorted(node_ids)))
        return out
    exp = gl.expected_adjacency(node_ids, canon_links)
    for n in node_ids:
        nd = g.nodes[n]
        if nd.id != n:
            out.append("nodes[%r].id is %r" % (n, nd.id))
        for side, name in ((0, "start"), (1, "end")):
            have = getattr(nd, name)
            for x in have:
                m, ms, ov = x
                if m not in g.nodes:
                    out.append("%s.%s refers to %r which is not a node of the graph" % (n, name, m))
                    continue
                if (n, side, ov) not in (g.nodes[m].start if ms == 0 else g.nodes[m].end):
                    out.append("asymmetric link: %s.%s has %r but %s.%s lacks %r" % (n, name, x, m, "start" if ms == 0 else "end", (n, side, ov)))
            if set(have) != exp[n][side]:
                out.append("%s.%s is %s, the surviving links give %s" % (n, name, sorted(have), sorted(exp[n][side])))
        want = sorted([x[0] for x in exp[n][0]] + [x[0] for x in exp[n][1]])
        try:
            nb = nd.neighbors()
        except Exception as e:  # noqa
            nb = "raised %s" % type(e).__name__
        if nb != want:
            out.append("%s.neighbors() is %s, expected %s" % (n, nb, want))
    return out


def side_table_problems(g, node_ids):
    """[(table, problem)]: side tables of the GFA object that still mention a node that is not in the graph"""
    out = []
    live = set(node_ids)
    for k in g.edge_tags:
        dead = [x for x in (k[0], k[2]) if x not in live]
        if dead:
            out.append(("edge_tags", "GFA.edge_tags still has key %r naming deleted node %s" % (k, dead[0])))
            break
    for c, ns in g.contig_to_nodes.items():
        dead = [x for x in ns if x not in live]
        if dead:
            out.append(("contig_to_nodes", "GFA.contig_to_nodes[%r] still lists deleted node %s" % (c, dead[0])))
            break
    return out


class Model:
    """set model of the editing primitives, independent of gaftools"""

    def __init__(self):
        self.nodes = {}     # id -> (seq, tags)
        self.links = set()  # canonical ((n, side), (m, side), overlap)

    def apply(self, op):
        k = op[0]
        if k == "load":
            for nd in op[1]:
                self.nodes.setdefault(nd[0], (nd[1], tuple(nd[2]) if len(nd) > 2 else ()))
            for a, oa, b, ob, ov in op[2]:
                self.links.add(gl.canon(a, oa, b, ob, ov))
        elif k == "add_node":
            self.nodes.setdefault(op[1], (op[2], ()))
        elif k == "add_edge":
            self.links.add(gl.canon(op[1], op[2], op[3], op[4], op[5]))
        elif k == "remove_node":
            del self.nodes[op[1]]
            self.links = {l for l in self.links if l[0][0] != op[1] and l[1][0] != op[1]}
        elif k == "remove_edge":
            e1, e2 = (op[1], op[2]), (op[3], op[4])
            self.links.discard((min(e1, e2), max(e1, e2), op[5]))
        else:
            raise ValueError(k)


def apply_real(GFA, g, op, d):
    k = op[0]
    if k == "load":
        if op[3] == "file":
            g = gl.build_file(GFA, os.path.join(d, "h.gfa"), op[1], op[2])
        else:
            g = gl.build_api(GFA, op[1], op[2])
    elif k == "add_node":
        g.add_node(op[1], op[2])
    elif k == "add_edge":
        g.add_edge(op[1], op[2], op[3], op[4], op[5], op[6] if len(op) > 6 else None)
    elif k == "remove_node":
        if len(op) > 2 and op[2] == "del":
            del g[op[1]]
        else:
            g.remove_node(op[1])
    elif k == "remove_edge":
        g.remove_edge((op[1], op[2], op[3], op[4], op[5]))
    return g


def history_problems(GFA, ops, d, every_step=True):
    """replay ops on the real class and on the model; returns (problems, side-table problems, final graph, model)"""
    m = Model()
    g = GFA()
    out, side = [], []
    for i, op in enumerate(ops):
        m.apply(op)
        try:
            g = apply_real(GFA, g, op, d)
        except Exception as e:  # noqa
            out.append("op %d %s raised %s: %s" % (i, op[:6] if op[0] != "load" else "load", type(e).__name__, e))
            return out, side, g, m
        # every_step: True = adjacency checked after every operation; False = only at the end; a list of operation indices = adjacency AND the
        # traversals (components, dfs, biccs) checked after those operations only, so that whatever a traversal or neighbors() leaves behind in the
        # nodes (flags, caches) meets several later edits before it is looked at again (added after seeded change C15-7)
        sparse = isinstance(every_step, list)
        if (every_step is True) or i == len(ops) - 1 or (sparse and i in every_step):
            p = structure_problems(g, list(m.nodes), m.links)
            if not p and sparse and i != len(ops) - 1 and m.nodes:
                names = sorted(m.nodes)
                lk = [gl.declare(e1, e2) + (ov,) for e1, e2, ov in sorted(m.links)]
                p = decomposition_problems(g, names, lk, names, "cycles" if len(names) <= 7 else "lowpoint")
            if p:
                out.append("after op %d %s: %s" % (i, list(op[:6]) if op[0] != "load" else "load", p[0]))
                return out, side, g, m
            if CHECK_SIDE_TABLES:
                for tab, x in side_table_problems(g, list(m.nodes)):
                    if tab not in [t for t, _ in side]:
                        side.append((tab, "after op %d %s: %s" % (i, list(op[:6]), x)))
    # the graph built directly from the survivors
    nodes = [(n, s, t) for n, (s, t) in m.nodes.items()]
    links = [gl.declare(e1, e2) + (ov,) for e1, e2, ov in sorted(m.links)]
    try:
        fresh = gl.build_api(GFA, nodes, links)
        if not (g.is_equal_to(fresh) and fresh.is_equal_to(g)):
            out.append("GFA.is_equal_to says the edited graph differs from the graph built from the surviving nodes %s and links %s" % (sorted(m.nodes), links))
        if not (g.is_equal_to(fresh, only_topo=True) and fresh.is_equal_to(g, only_topo=True)):
            out.append("GFA.is_equal_to(only_topo) says the edited graph differs from the graph built from the survivors")
    except Exception as e:  # noqa
        out.append("comparing with the directly built graph raised %s: %s" % (type(e).__name__, e))
    return out, side, g, m


# ---- generators ----------------------------------------------------------------------------------------------------------
def random_history(rng, max_len, pool, from_graph=None):
    m = Model()
    ops = []
    if from_graph is not None:
        ops.append(from_graph)
        m.apply(from_graph)
    n_ops = rng.randint(1, max_len)
    while len(ops) < n_ops + (1 if from_graph is not None else 0):
        r = rng.random()
        live = sorted(m.nodes)
        if r < 0.25 or not live:
            free = [x for x in pool if x not in m.nodes]
            if free and (rng.random() < 0.95 or not live):
                op = ["add_node", rng.choice(free), rng.choice(SEQS)]
            else:
                x = rng.choice(live)
                op = ["add_node", x, m.nodes[x][0]]        # re-adding a live id with the same sequence: a logged no-op
        elif r < 0.62:
            a = rng.choice(live)
            b = a if rng.random() < 0.2 else rng.choice(live)
            oa, ob = rng.choice(gl.ORI4)
            op = ["add_edge", a, oa, b, ob, rng.choice([0, 0, 0, 2])]
            if rng.random() < 0.3:
                op.append(["SR:i:%d" % rng.randint(0, 2)])
        elif r < 0.82:
            op = ["remove_node", rng.choice(live)] + (["del"] if rng.random() < 0.3 else [])
        else:
            if not m.links:
                continue
            (a, sa), (b, sb), ov = rng.choice(sorted(m.links))
            if rng.random() < 0.5:
                a, sa, b, sb = b, sb, a, sa
            op = ["remove_edge", a, sa, b, sb, ov]
        m.apply(op)
        ops.append(op)
    return ops


def exhaustive_histories(max_len):
    """every applicable sequence of <= max_len operations over two node ids: add/remove either node, add/remove any of
    the 10 distinct links (incl. the 6 self-links)"""
    ids = ["a", "s2"]
    side_links = gl.all_side_links(ids)
    alphabet = [["add_node", i, s] for i, s in zip(ids, ("ACG", "T"))] + [["remove_node", i] for i in ids]
    for k, (e1, e2) in enumerate(side_links):
        alphabet.append(["add_edge"] + list(gl.declare(e1, e2, flipped=bool(k % 2))) + [0])
        alphabet.append(["remove_edge", e1[0], e1[1], e2[0], e2[1], 0])

    def ok(m, op):
        k = op[0]
        if k == "add_node":
            return op[1] not in m.nodes
        if k == "remove_node":
            return op[1] in m.nodes
        if k == "add_edge":
            return op[1] in m.nodes and op[3] in m.nodes
        e1, e2 = (op[1], op[2]), (op[3], op[4])
        return (min(e1, e2), max(e1, e2), op[5]) in m.links

    def rec(prefix, m, base_len=0):
        for op in alphabet:
            if not ok(m, op):
                continue
            m2 = Model()
            m2.nodes, m2.links = dict(m.nodes), set(m.links)
            m2.apply(op)
            seq = prefix + [op]
            yield seq
            if len(seq) - base_len < max_len:
                yield from rec(seq, m2, base_len)

    yield from rec([], Model())
    base = [["add_node", "a", "ACG"], ["add_node", "s2", "T"]]
    m = Model()
    for op in base:
        m.apply(op)
    yield from rec(base, m, 2)


# ---- driver ----------------------------------------------------------------------------------------------------------------
class _Runner:
    def __init__(self, ctx):
        from gaftools.gfa import GFA
        self.GFA = GFA
        self.ctx = ctx
        self.d = ctx.dir("c15")
        self.n = 0

    def graph(self, section, names, links, how, oracle="cycles", starts=None):
        ctx = self.ctx
        nodes = _nodes(names)
        if starts is None:
            starts = list(names)
        case = {"type": "graph", "nodes": [list(x) for x in nodes], "links": [list(l) for l in links], "how": how, "oracle": oracle,
                "starts": list(starts)}
        try:
            if how == "api":
                g = gl.build_api(self.GFA, nodes, links)
            else:
                g = gl.build_file(self.GFA, os.path.join(self.d, "g.gfa"), nodes, links, link_first=(how == "file-links-first"))
        except Exception as e:  # noqa
            ctx.fail(section, "building the graph (%s) raised %s: %s" % (how, type(e).__name__, e), case)
            return
        ctx.case(section, hash((how, tuple(names), tuple(links))), nontrivial=bool(links),
                 sample={"nodes": list(names), "links": ["%s%s %s%s" % l[:4] for l in links], "built": how})
        st = structure_problems(g, list(names), {gl.canon(*l) for l in links})
        for p in st[:1]:
            ctx.fail(section + "/adjacency", "graph %s built via %s: %s" % (_show(links), how, p), case)
        for p in decomposition_problems(g, list(names), links, starts, oracle):
            ctx.fail(section, "graph nodes %s links %s (built via %s): %s" % (list(names), _show(links), how, p), case)


def _show(links):
    return "[" + ", ".join("%s%s-%s%s" % (l[0], l[1], l[2], l[3]) for l in links) + "]"


def run(ctx):
    logging.disable(logging.CRITICAL)
    try:
        return _run(ctx)
    finally:
        logging.disable(logging.NOTSET)


def _run(ctx):
    R = _Runner(ctx)
    rng = ctx.rng
    quick = ctx.quick
    hows = ["api", "file"]

    # 0. the oracles agree with each other (definition by cycles / by maximal 2-connected subsets / own lowpoint code)
    for n in range(1, 6):
        for pairs in gl.simple_graphs(n):
            a = gl.blocks_by_cycles(range(n), pairs)
            if a != gl.blocks_lowpoint(range(n), pairs)[0] or (n <= 4 and a != gl.blocks_by_subsets(range(n), pairs)) or \
                    gl.blocks_lowpoint(range(n), pairs)[1] != gl.articulation_by_removal(range(n), pairs):
                raise AssertionError("harness error: the oracles of rtc.graphlib disagree on %s" % pairs)

    # 1. every labelled simple graph on <= 4 nodes with EVERY orientation labelling of its links
    ctx.bound("all labelled simple graphs on 1..4 nodes x all 4^m orientation labellings of their m links (declared from alternating ends), "
              "built through add_node/add_edge and through a GFA file; all_components twice, find_component/dfs from every node, "
              "biccs() and biccs rooted at every node when connected")
    for n in range(1, 5):
        names = _names(n)
        for gi, pairs in enumerate(gl.simple_graphs(n)):
            for li, oris in enumerate(itertools.product(gl.ORI4, repeat=len(pairs))):
                links = []
                for k, ((u, v), (oa, ob)) in enumerate(zip(pairs, oris)):
                    l = (names[u], oa, names[v], ob, 0)
                    links.append(gl.flip_decl(l) if (gi + li + k) % 2 else l)
                how = hows[(gi + li) % 2] if (quick and n == 4) else None
                for h in ([how] if how else hows):
                    R.graph("simple<=4-all-orientations", names, links, h)

    # 2. every labelled simple graph on 5 (quick) / 5 and 6 (thorough) nodes, random orientation labelling
    top = 5 if quick else 6
    ctx.bound("all labelled simple graphs on 5%s nodes (%s), one random orientation labelling each, built via API and via file"
              % ("" if quick else " and 6", "1,024" if quick else "1,024 + 32,768 of which 26,704 connected"))
    for n in range(5, top + 1):
        names = _names(n)
        for gi, pairs in enumerate(gl.simple_graphs(n)):
            links = gl.orient_random(rng, pairs, names)
            for h in hows:
                R.graph("simple-%d-exhaustive" % n, names, links, h)

    # 2b. a seeded sample of the next size up
    n_s, k_s = (6, 3000) if quick else (7, 30000)
    ctx.bound("%d random labelled simple graphs on %d nodes (each link present with probability 0.2..0.7), random orientations" % (k_s, n_s))
    names = _names(n_s)
    allp = list(itertools.combinations(range(n_s), 2))
    for i in range(k_s):
        pr = rng.choice([0.2, 0.3, 0.4, 0.5, 0.7])
        links = gl.orient_random(rng, [x for x in allp if rng.random() < pr], names)
        R.graph("simple-%d-sample" % n_s, names, links, hows[i % 2])
        if ctx.out_of_time(40 if quick else 400):
            break

    # 3. multigraphs with parallel and self links
    mg = [(1, 5), (2, 5), (3, 4 if quick else 5), (4, 3 if quick else 5)]
    reps = 1 if quick else 3
    ctx.bound("all labelled multigraphs (parallel links and self-links) with (nodes, max links) in %s, %d random orientation labelling(s) each; "
              "parallel links get random orientations and overlaps 0/3 so that some stay distinct and some collapse; self-links are ignored "
              "by the bicc oracle (the library works on neighbour ids: a self-link forms no component of its own)" % (mg, reps))
    for n, mx in mg:
        names = _names(n)
        for gi, pairs in enumerate(gl.multigraphs(n, mx)):
            for r in range(reps):
                links = gl.orient_random(rng, pairs, names, overlaps=(0, 0, 3))
                R.graph("multigraph", names, links, hows[(gi + r) % 2])

    # 4. seeded random larger graphs
    n_rand = 600 if quick else 6000
    ctx.bound("%d seeded random graphs with 7..40 nodes (G(n,p), tree+chords, cactus, glued cliques/cycles; parallel and self links), "
              "random orientations; bicc oracle = own recursive lowpoint code (brute-force cycle definition when <= 7 nodes), articulation "
              "points always by removal; dfs/find_component/rooted biccs from <= 6 sampled nodes" % n_rand)
    for i in range(n_rand):
        n = rng.randint(7, 40) if i % 4 else rng.randint(7, 9)
        names = ["v%d" % k for k in range(n)] if i % 2 else [str(k + 1) for k in range(n)]
        pairs = gl.random_graph(rng, n)
        links = gl.orient_random(rng, pairs, names, overlaps=(0, 0, 0, 5))
        starts = rng.sample(names, min(6, n))
        R.graph("random-large", names, links, hows[i % 2], oracle="cycles" if n <= 7 else "lowpoint", starts=starts)
        if ctx.out_of_time(60 if quick else 600):
            break

    # 5. real graphs of the test suite
    real = ["smallgraph.gfa", "smallgraph-ordered.gfa", "smallgraph_withN.gfa", "test_GFA_class.gfa"]
    ctx.bound("real graphs /repo/tests/data/{%s}: loaded by gaftools from the file; components of the whole graph, biccs of every "
              "connected component rebuilt through the API" % ",".join(real))
    for fn in real:
        p = os.path.join("/repo/tests/data", fn)
        if os.path.exists(p):
            _real(R, p)

    # 6. histories
    hl = 3 if quick else 4
    ctx.bound("histories: every applicable sequence of <= %d operations, starting from the empty graph and from two unlinked nodes, over 2 node ids from {add_node, remove_node, add_edge (10 distinct "
              "links incl. self-links, either declaration), remove_edge}; links form a SET (re-adding an existing link is a no-op and "
              "remove_edge removes it)" % hl)
    _history(R, "history-witness", [["add_node", "a", "ACG"], ["add_node", "s2", "T"], ["add_edge", "a", "+", "s2", "+", 0, ["SR:i:0"]], ["remove_node", "s2"]])
    _history(R, "history-witness", [["load", [["a", "ACG", ["SN:Z:chr1", "SO:i:0", "SR:i:0"]], ["s2", "T", ["SN:Z:chr1", "SO:i:3", "SR:i:0"]]],
                                     [["a", "+", "s2", "+", 0]], "file"], ["remove_node", "s2"]])
    # look, delete a neighbour, link a replacement (same number of links as before), look again - in every orientation of the two links
    for o1 in "+-":
        for o2 in "+-":
            _history(R, "history-witness", [["add_node", "a", "ACG"], ["add_node", "s2", "T"], ["add_node", "10", "GG"], ["add_edge", "a", o1, "s2", o2, 0, []],
                                            ["add_edge", "s2", o2, "10", o1, 0, []], ["remove_node", "s2"], ["add_node", "n_4", "C"],
                                            ["add_edge", "a", o1, "n_4", o2, 0, []], ["add_edge", "n_4", o2, "10", o1, 0, []]], every_step=[4])
    for ops in exhaustive_histories(hl):
        _history(R, "history-exhaustive", ops, every_step=False)
        if ctx.out_of_time(75 if quick else 750):
            break
    n_hist = 5000 if quick else 40000
    ctx.bound("%d random histories of 1..12 operations over a pool of 5 node ids (add_node incl. re-adding a deleted id, add_edge in all "
              "orientations incl. self-links, overlaps 0/2, optional link tags, remove_node / del graph[id], remove_edge from either end), "
              "a third of them starting from a graph loaded from a GFA file or built through the API; for every other history adjacency is checked after every "
              "operation, for the rest adjacency and all traversals after a random quarter of the operations only (state left in the nodes by a traversal meets "
              "several edits); is_equal_to + decomposition checked at the end" % n_hist)
    pool = NAMES[:5]
    for i in range(n_hist):
        base = None
        if i % 3 == 0:
            k = rng.randint(2, 5)
            nm = pool[:k]
            base = ["load", [list(x) for x in _nodes(nm)], [list(l) for l in gl.orient_random(rng, gl.random_graph(rng, k), nm)],
                    "file" if i % 2 else "api"]
        ops = random_history(rng, 12, pool, base)
        if i % 2:
            _history(R, "history-random", ops)
        else:  # looked at after a few of the operations only
            _history(R, "history-random-sparse", ops, every_step=sorted(rng.sample(range(len(ops)), max(1, len(ops) // 4))))
        if ctx.out_of_time(85 if quick else 840):
            break
    # histories on the real rGFA (S-line tags, SN/SO/SR contigs)
    p = "/repo/tests/data/smallgraph.gfa"
    if os.path.exists(p):
        nodes, links = gl.read_links(p)
        ids = [nd[0] for nd in nodes]
        for i in range(10 if quick else 100):
            base = ["load", [list(nd) for nd in nodes], [list(l) for l in links], "file"]
            _history(R, "history-real", random_history(rng, 8, ids[:6] + ["new1"], base))
    return ("every graph of the stated families is built through the API and/or a GFA file; all_components (twice), find_component, dfs "
            "from each start and biccs (default root and every/sampled roots) are compared with union-find, brute-force simple-cycle "
            "classes / own lowpoint code and removal+connectivity; histories are replayed against a set model after every operation. "
            "A case is one (graph, build method) or one operation sequence; non-trivial when it has at least one link / operation")


def _real(R, path):
    ctx = R.ctx
    nodes, links = gl.read_links(path)
    ids = [nd[0] for nd in nodes]
    case = {"type": "real", "path": path}
    try:
        g = R.GFA(path)
    except Exception as e:  # noqa
        ctx.fail("real", "loading %s raised %s: %s" % (path, type(e).__name__, e), case)
        return
    ctx.case("real", path)
    for p in structure_problems(g, ids, {gl.canon(*l) for l in links})[:1]:
        ctx.fail("real", "%s: %s" % (path, p), case)
    starts = ids if len(ids) <= 60 else ctx.rng.sample(ids, 20)
    for p in decomposition_problems(g, ids, links, starts, "lowpoint"):
        ctx.fail("real", "%s: %s" % (path, p), case)
    for comp in gl.components(ids, _pairs(links)):
        if len(comp) < 2:
            continue
        sub_nodes = [nd for nd in nodes if nd[0] in comp]
        sub_links = [l for l in links if l[0] in comp]
        names = [nd[0] for nd in sub_nodes]
        st = names if len(names) <= 60 else ctx.rng.sample(names, 10)
        try:
            sg = gl.build_api(R.GFA, [(nd[0], nd[1]) for nd in sub_nodes], sub_links)
        except Exception as e:  # noqa
            ctx.fail("real", "rebuilding a component of %s raised %s: %s" % (path, type(e).__name__, e), case)
            continue
        ctx.case("real-component", (path, tuple(sorted(comp))[:3], len(comp)))
        for p in decomposition_problems(sg, names, sub_links, st, "cycles" if len(names) <= 7 else "lowpoint"):
            ctx.fail("real", "%s, component of %s (%d nodes): %s" % (path, names[0], len(names), p), case)


def _history(R, section, ops, every_step=True):
    ctx = R.ctx
    case = {"type": "history", "ops": ops, "every_step": every_step}
    out, side, g, m = history_problems(R.GFA, ops, R.d, every_step)
    ctx.case(section, hash(repr(ops)), sample={"ops": [o if o[0] != "load" else ["load", "..."] for o in ops]})
    show = [o if o[0] != "load" else ["load", "%d nodes %d links" % (len(o[1]), len(o[2])), o[3]] for o in ops]
    for p in out[:1]:
        ctx.fail(section, "history %s: %s" % (show, p), case)
    for tab, p in side:
        ctx.fail("stale-" + tab, "history %s: %s" % (show, p), case)
    if not out and m.nodes:
        names = sorted(m.nodes)
        links = [gl.declare(e1, e2) + (ov,) for e1, e2, ov in sorted(m.links)]
        for p in decomposition_problems(g, names, links, names, "cycles" if len(names) <= 7 else "lowpoint"):
            ctx.fail(section, "after history %s: %s" % (show, p), case)


def replay(ctx, rec):
    from gaftools.gfa import GFA
    logging.disable(logging.CRITICAL)
    try:
        c = rec["case"]
        d = ctx.dir("replay")
        if c["type"] == "graph":
            nodes = [tuple(x) for x in c["nodes"]]
            links = [tuple(l) for l in c["links"]]
            names = [x[0] for x in nodes]
            if c["how"] == "api":
                g = gl.build_api(GFA, nodes, links)
            else:
                g = gl.build_file(GFA, os.path.join(d, "g.gfa"), nodes, links, link_first=(c["how"] == "file-links-first"))
            starts = names if len(names) <= 8 else c["starts"]
            p = structure_problems(g, names, {gl.canon(*l) for l in links}) + decomposition_problems(g, names, links, starts, c["oracle"])
            return not p, (p[0] if p else "components, dfs, biccs and adjacency agree with the oracles")
        if c["type"] == "history":
            out, side, g, m = history_problems(GFA, c["ops"], d, c.get("every_step", True))
            side = [p for tab, p in side if rec.get("section") == "stale-" + tab]
            if not out and m.nodes:
                names = sorted(m.nodes)
                links = [gl.declare(e1, e2) + (ov,) for e1, e2, ov in sorted(m.links)]
                out += decomposition_problems(g, names, links, names, "cycles" if len(names) <= 7 else "lowpoint")
            p = out + side
            return not p, (p[0] if p else "the edited graph equals the graph built from the survivors")
        if c["type"] == "real":
            fails = []
            sub = type("X", (), {"rng": ctx.rng, "case": lambda *a, **k: None, "fail": lambda self, s, w, cs, known_finding=None: fails.append(w)})()
            R = type("R", (), {})()
            R.ctx, R.GFA, R.d = sub, GFA, d
            _real(R, c["path"])
            return not fails, (fails[0] if fails else "agrees with the oracles")
        return True, "unknown case type"
    finally:
        logging.disable(logging.NOTSET)
