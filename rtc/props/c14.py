"""C14 bounded stand-in: the REAL GFA.extract_path and the REAL `gaftools find_path` (gaftools.cli.find_path.run in-process,
plus a few real command lines) on EVERY sequence of oriented steps of bounded length over small GFAs, walk or not.

Oracle (independent of gaftools): rtc.gen.Graph.steps() -- the oriented step relation read straight off the L lines
(`L a oa b ob` allows a(oa)->b(ob) and b(flip ob)->a(flip oa)) -- decides whether the step sequence is a walk, and
rtc.gen.Graph.spell() concatenates the node sequences (reverse complemented on '<').  Expected answer: the spelled
sequence for a walk, '' otherwise."""
import contextlib
import io
import itertools
import logging
import os
import subprocess
import sys

from rtc import graphlib as gl
from rtc.gen import Graph, Seg, revcomp

IDS = ["a", "s2", "10", "n_4"]
OFLIP = {">": "<", "<": ">"}


# ---- graph specs ---------------------------------------------------------------------------------------------------------
def pick_seqs(rng, n):
    """non-empty sequences over ACGT (sometimes N); most of the time pairwise distinct and different from their own
    reverse complement so that a wrong node or a wrong orientation is visible in the spelled sequence"""
    out = []
    plain = rng.random() < 0.15
    while len(out) < n:
        s = "".join(rng.choice("ACGTACGTACGTN") for _ in range(rng.randint(1, 4)))
        if not plain and (len(s) < 2 or s == revcomp(s) or s in out or revcomp(s) in out):
            continue
        out.append(s)
    return out


def oracle_graph(nodes, links):
    return Graph([Seg(n, s, None, 0, 0) for n, s in nodes], [tuple(l) for l in links])


def decls(side_links, variant, ov=0):
    """L-line declarations of the given node-side pairs: variant 0 = as is, 1 = all from the other end, 2 = alternating"""
    return [gl.declare(e1, e2, flipped=(variant == 1 or (variant == 2 and k % 2 == 1))) + (ov,) for k, (e1, e2) in enumerate(side_links)]


def step_sequences(ids, max_len, min_len=1):
    steps = [(n, o) for n in ids for o in "><"]
    for k in range(min_len, max_len + 1):
        for w in itertools.product(steps, repeat=k):
            yield w


def path_str(w):
    return "".join(o + n for n, o in w)


def rev_walk(w):
    return tuple((n, OFLIP[o]) for n, o in reversed(w))


def expected(og, st, w):
    """og: oracle Graph, st = og.steps()"""
    for i in range(len(w) - 1):
        if (w[i], w[i + 1]) not in st:
            return ""
    return og.spell(w)


# ---- checks ----------------------------------------------------------------------------------------------------------------
class _Runner:
    def __init__(self, ctx):
        from gaftools.gfa import GFA
        from gaftools.cli.find_path import run as fp_run
        self.GFA, self.fp_run, self.ctx = GFA, fp_run, ctx
        self.d = ctx.dir("c14")
        self.n_graphs = 0
        self.n_walks = 0

    def _count(self, section, gkey, w):
        ctx = self.ctx
        ctx.evaluations += 1
        ctx.sections[section] = ctx.sections.get(section, 0) + 1
        if len(w) > 1:
            ctx.distinct.add(hash((section, gkey, w)))

    def graph(self, nodes, links, max_len, api_len=2, cli=False):
        """all step sequences of length <= max_len on the file-loaded graph, <= api_len on the API-built graph,
        optionally the find_path front end on the whole list"""
        ctx = self.ctx
        self.n_graphs += 1
        ids = [n for n, _ in nodes]
        og = oracle_graph(nodes, links)
        st = og.steps()
        lines = og.lines()
        gkey = hash(tuple(lines))
        gfa = os.path.join(self.d, "g.gfa")
        with open(gfa, "w") as f:
            f.write("\n".join(lines) + "\n")
        base = {"gfa": lines}
        try:
            g = self.GFA(gfa)
        except Exception as e:  # noqa
            ctx.fail("extract_path(file)", "loading the GFA %s raised %s: %s" % (lines, type(e).__name__, e), dict(base, type="extract", how="file", path=">" + ids[0]))
            return
        try:
            ga = gl.build_api(self.GFA, nodes, links)
        except Exception as e:  # noqa
            ctx.fail("extract_path(api)", "building %s through add_node/add_edge raised %s: %s" % (lines, type(e).__name__, e), dict(base, type="extract", how="api", path=">" + ids[0]))
            ga = None
        got_all = {}
        exp_all = []
        for w in step_sequences(ids, max_len):
            p = path_str(w)
            exp = expected(og, st, w)
            exp_all.append((p, exp))
            if exp and len(w) > 1:
                self.n_walks += 1
            for how, gg in (("file", g), ("api", ga if len(w) <= api_len else None)):
                if gg is None:
                    continue
                section = "extract_path(%s)" % how
                try:
                    got = gg.extract_path(p)
                except Exception as e:  # noqa
                    got = "raised %s: %s" % (type(e).__name__, e)
                self._count(section, gkey, w)
                if how == "file":
                    got_all[w] = got
                if got != exp:
                    ctx.fail(section, "extract_path(%r) on %s (%s) returned %r, expected %r (%s)" % (
                        p, _show(lines), "loaded from file" if how == "file" else "built with add_node/add_edge", got, exp,
                        "a walk" if exp else "not a walk"), dict(base, type="extract", how=how, path=p))
        # the reversed walk is accepted exactly when the walk is, and spells the reverse complement (real outputs only)
        for w, a in got_all.items():
            b = got_all[rev_walk(w)]
            if a.startswith("raised") or b.startswith("raised"):
                continue
            if b != revcomp(a):
                ctx.fail("reversed-walk", "on %s extract_path(%r) = %r but the reversed walk %r gives %r" % (_show(lines), path_str(w), a, path_str(rev_walk(w)), b),
                         dict(base, type="reverse", path=path_str(w)))
        if cli:
            self.cli(lines, exp_all, gkey)
        if len(ctx.samples) < 4:
            ex = [x for x in exp_all if x[1]][-1:] or exp_all[-1:]
            ctx.samples.append({"section": "extract_path(file)", "case": {"gfa": lines, "path": ex[0][0], "expected": ex[0][1]}})

    def cli(self, lines, exp_all, gkey, singles=2):
        ctx = self.ctx
        gfa = os.path.join(self.d, "c.gfa")
        with open(gfa, "w") as f:
            f.write("\n".join(lines) + "\n")
        pf = os.path.join(self.d, "paths.txt")
        # the same path may be listed on several lines: one output record per LINE, in order (added after seeded change C14-3)
        exp_all = list(exp_all)
        for _ in range(min(3, len(exp_all))):
            exp_all.insert(ctx.rng.randint(0, len(exp_all)), ctx.rng.choice(exp_all))
        with open(pf, "w") as f:
            f.write("".join(p + "\n" for p, _ in exp_all))
        walks = [x for x in exp_all if x[1] and x[0].count(">") + x[0].count("<") > 1]
        nonwalks = [x for x in exp_all if not x[1]]
        single = [ctx.rng.choice(c) for c in (walks, nonwalks) if c][:singles]
        for fasta in (False, True):
            for to_stdout in (False, True):
                jobs = [("file", pf, exp_all)] + [("single", p, [(p, e)]) for p, e in single]
                for kind, arg, exp in jobs:
                    section = "find_path(%s%s%s)" % (kind, ",fasta" if fasta else "", ",stdout" if to_stdout else "")
                    got, err = self.run_cli(gfa, arg, fasta, to_stdout)
                    ctx.case(section, hash((gkey, arg if kind == "single" else len(exp), fasta, to_stdout)))
                    want = fmt(exp, fasta)
                    if err or got != want:
                        ctx.fail(section, "find_path on %s with %s%s: %s" % (_show(lines), "the path %r" % arg if kind == "single" else "a file of %d paths" % len(exp),
                                                                            " --fasta" if fasta else "", err or first_diff(got, want, exp, fasta)),
                                 {"type": "cli", "gfa": lines, "paths": [p for p, _ in exp], "single": kind == "single", "fasta": fasta, "stdout": to_stdout})

    def run_cli(self, gfa, arg, fasta, to_stdout):
        out = os.path.join(self.d, "out.txt")
        try:
            if to_stdout:
                buf = io.StringIO()
                with contextlib.redirect_stdout(buf):
                    self.fp_run(gfa, arg, None, fasta)
                return buf.getvalue(), None
            if os.path.exists(out):
                os.remove(out)
            self.fp_run(gfa, arg, output=out, fasta=fasta)
            with open(out) as f:
                return f.read(), None
        except BaseException as e:  # noqa
            return None, "raised %s: %s" % (type(e).__name__, e)


def fmt(exp, fasta):
    if fasta:
        return "".join(">seq_%s\n%s\n" % (p, e) for p, e in exp)
    return "".join(e + "\n" for _, e in exp)


def first_diff(got, want, exp, fasta):
    gl_, wl = got.split("\n"), want.split("\n")
    per = 2 if fasta else 1
    if len(gl_) != len(wl):
        return "%d output lines for %d paths (expected %d lines, one record per path)" % (len(gl_) - 1, len(exp), len(wl) - 1)
    for i, (a, b) in enumerate(zip(gl_, wl)):
        if a != b:
            return "record %d (path %s): line %r, expected %r" % (i // per, exp[i // per][0], a, b)
    return "outputs differ"


def _show(lines):
    return "{" + "; ".join(" ".join(l.split("\t")[1:5 if l[0] == "L" else 3]) for l in lines) + "}"


def parse_gfa_lines(lines):
    nodes, links = [], []
    for l in lines:
        p = l.split("\t")
        if p[0] == "S":
            nodes.append((p[1], p[2]))
        elif p[0] == "L":
            links.append((p[1], p[2], p[3], p[4], int(p[5].rstrip("M"))))
    return nodes, links


def subprocess_cli(R, nodes, links, paths, fasta):
    """the real command line `python -m gaftools find_path` writing to stdout"""
    import gaftools
    ctx = R.ctx
    og = oracle_graph(nodes, links)
    st = og.steps()
    gfa = os.path.join(R.d, "sp.gfa")
    og.write(gfa)
    exp = [(path_str(w), expected(og, st, w)) for w in paths]
    env = dict(os.environ)
    env["PYTHONPATH"] = os.path.dirname(os.path.dirname(os.path.abspath(gaftools.__file__)))
    for kind in ("single", "file"):
        if kind == "single":
            arg, ex = exp[0][0], exp[:1]
        else:
            arg, ex = os.path.join(R.d, "sp.txt"), exp
            with open(arg, "w") as f:
                f.write("".join(p + "\n" for p, _ in exp))
        cmd = [sys.executable, "-m", "gaftools", "find_path", gfa, arg] + (["-f"] if fasta else [])
        p = subprocess.run(cmd, capture_output=True, text=True, env=env, timeout=120)
        ctx.case("find_path-commandline", hash((tuple(og.lines()), arg if kind == "single" else tuple(exp), fasta)))
        if p.returncode != 0 or p.stdout != fmt(ex, fasta):
            ctx.fail("find_path-commandline", "`gaftools find_path g.gfa %s%s` on %s: exit %d, stdout %r, expected %r" % (
                "paths.txt" if kind == "file" else repr(arg), " -f" if fasta else "", _show(og.lines()), p.returncode, p.stdout[:200], fmt(ex, fasta)[:200]),
                {"type": "cli", "gfa": og.lines(), "paths": [x[0] for x in ex], "single": kind == "single", "fasta": fasta, "stdout": True})


# ---- driver ------------------------------------------------------------------------------------------------------------------
def run(ctx):
    logging.disable(logging.CRITICAL)
    try:
        return _run(ctx)
    finally:
        logging.disable(logging.NOTSET)


def _run(ctx):
    R = _Runner(ctx)
    rng = ctx.rng
    quick = ctx.quick
    L = 3 if quick else 4
    budget = 70 if quick else 780
    ctx.bound("step sequences: ALL sequences of 1..%d oriented steps (1..4 on graphs of <= 2 nodes) ('>'/'<' x node) over the nodes of each graph, walk or not; node ids known "
              "to the graph; node sequences of length 1..4 over ACGT and N (upper case), mostly pairwise distinct and not reverse-palindromic" % L)

    # 1. one node: every subset of the 3 possible self-links, both declarations
    ctx.bound("1 node: all 8 subsets of the 3 self-links (+/+, +/-, -/+), each declared from either end; step sequences up to length %d" % (L + 1))
    for variant in (0, 1):
        for sub in _subsets(gl.all_side_links(IDS[:1])):
            R.graph(list(zip(IDS[:1], pick_seqs(rng, 1))), decls(sub, variant), L + 1, api_len=L + 1, cli=True)

    # 2. two nodes: every subset of the 10 possible links (4 orientation combinations between the nodes + 3 self-links each)
    ctx.bound("2 nodes: all 1,024 subsets of the 10 distinct links (4 orientation combinations a-b, 3 self-links per node), step sequences up to length 4; declaration from "
              "either end: %s; find_path front end on every %s graph" % ("one of {as is, flipped, alternating} per graph" if quick else "all of {as is, flipped, alternating}", "8th" if quick else "2nd"))
    all2 = gl.all_side_links(IDS[:2])
    for gi, sub in enumerate(_subsets(all2)):
        for variant in ([gi % 3] if quick else [0, 1, 2]):
            R.graph(list(zip(IDS[:2], pick_seqs(rng, 2))), decls(sub, variant), 4, api_len=3, cli=(gi % (8 if quick else 2) == 0 and variant == gi % 3))

    # 3. three and four nodes: every graph with <= 2 links (<= 3 links on 3 nodes in thorough), alternating declarations
    k3 = 2 if quick else 3
    ctx.bound("3 nodes: all graphs with <= %d of the 21 distinct links; 4 nodes: all graphs with <= 2 of the 36 distinct links" % k3)
    for n, kmax in ((3, k3), (4, 2)):
        alln = gl.all_side_links(IDS[:n])
        gi = 0
        for k in range(kmax + 1):
            for sub in itertools.combinations(alln, k):
                gi += 1
                R.graph(list(zip(IDS[:n], pick_seqs(rng, n))), decls(sub, 2 if gi % 2 else gi % 4 // 2), L, api_len=2, cli=(gi % (40 if quick else 10) == 0))
                if ctx.out_of_time(budget * 0.6):
                    break

    # 4. random denser graphs on 3..4 nodes incl. parallel links (duplicate line, same link from the other end, other overlap)
    n_rand = 150 if quick else 700
    ctx.bound("%d random graphs on 3-4 nodes: each of the 21/36 distinct links present with probability 0.1/0.25/0.5/0.8; parallel links: "
              "duplicated L line, the same link declared from the other end, the same link with overlap 1M" % n_rand)
    for i in range(n_rand):
        n = rng.choice([3, 4, 4])
        p = rng.choice([0.1, 0.25, 0.5, 0.8])
        sub = [x for x in gl.all_side_links(IDS[:n]) if rng.random() < p]
        links = [gl.declare(e1, e2, flipped=rng.random() < 0.5) + (0,) for e1, e2 in sub]
        for _ in range(rng.randint(0, 3)):
            if links:
                l = rng.choice(links)
                links.append(rng.choice([l, gl.flip_decl(l), l[:4] + (1,), gl.flip_decl(l[:4] + (1,))]))
        rng.shuffle(links)
        R.graph(list(zip(IDS[:n], pick_seqs(rng, n))), links, L, api_len=2, cli=(i % 4 == 0))
        if ctx.out_of_time(budget):
            break

    # 4b. segment names with punctuation (valid GFA names: '.', '-', ':', '#', '_', digits only): the path tokeniser must keep them whole
    # (added after seeded change C14-4)
    PUNCT = ["s1.5", "u-7", "chr1:100-200", "n#1", "x_y", "17"]
    n_p = 12 if quick else 120
    ctx.bound("%d random graphs on 3-4 nodes whose segment names contain punctuation %s" % (n_p, PUNCT))
    for i in range(n_p):
        n = rng.choice([3, 4])
        ids = rng.sample(PUNCT, n)
        sub = [x for x in gl.all_side_links(ids) if rng.random() < 0.4]
        R.graph(list(zip(ids, pick_seqs(rng, n))), decls(sub, i % 3), L, api_len=2, cli=(i % 3 == 0))

    # 4c. long node sequences (added after seeded change C14-7: a block-wise reverse complement that loses the leftmost partial block of
    # sequences longer than 65536): lengths around the powers of two, walks with '<' steps over a long and a short node
    ks = range(8, 18) if quick else range(6, 21)
    lens = sorted({(1 << k) + d for k in ks for d in (-1, 0, 1)} | {70001, 100003})
    ctx.bound("long sequences: one 2-node graph per length in {2^k-1, 2^k, 2^k+1 : k = %d..%d} + {70001, 100003}; paths <a, >a>b, <b<a, <a>b (non-walk) against "
              "an independent reverse complement; lower-case and N characters included" % (ks[0], ks[-1]))
    for n in lens:
        for p in ("<a", ">a>b", "<b<a", "<a>b"):
            R._count("long-sequence", n, (p, n))
            ok, what = long_case(R, n, n * 31 + 7, p)
            if not ok:
                ctx.fail("long-sequence", what, {"type": "long", "n": n, "rseed": n * 31 + 7, "path": p, "gfa": []})

    # 5. the real command line (stdout), a handful of invocations
    ctx.bound("%d real `python -m gaftools find_path` command lines (stdout, with and without -f, single path and file of paths)" % (4 if quick else 12))
    for i in range(1 if quick else 3):
        n = 3
        sub = [x for x in gl.all_side_links(IDS[:n]) if rng.random() < 0.4]
        nodes = list(zip(IDS[:n], pick_seqs(rng, n)))
        links = decls(sub, 2)
        og = oracle_graph(nodes, links)
        ws = og.walks(3, 2)
        paths = ([rng.choice(ws)] if ws else []) + [w for w in step_sequences(IDS[:n], 2, 2)][:: 5]
        for fasta in (False, True):
            subprocess_cli(R, nodes, links, paths, fasta)
    return ("%d graphs; for each, every sequence of <= %d oriented steps is spelled by GFA.extract_path on the graph loaded from a GFA file "
            "(and, for short sequences, built through add_node/add_edge) and compared with the step relation / speller of rtc.gen; the "
            "reversed walk is compared with the reverse complement; gaftools.cli.find_path.run is fed the whole list as a file (and single "
            "paths), plain and FASTA, to a file and to stdout. A case is one (graph, step sequence, build method) or one find_path run; "
            "non-trivial when the sequence has >= 2 steps (%d of the multi-step sequences were walks)" % (R.n_graphs, L, R.n_walks))


def long_case(R, n, rseed, p):
    """graph a (n bases) -+/+-> b (5 bases); extract_path(p) against the speller below (sequence regenerated from rseed)"""
    import random
    r = random.Random(rseed)
    a = "".join(r.choice("ACGTACGTACGTACGTNacgt") for _ in range(n))
    b = "GATTC"
    gfa = os.path.join(R.d, "long.gfa")
    with open(gfa, "w") as f:
        f.write("S\ta\t%s\nS\tb\t%s\nL\ta\t+\tb\t+\t0M\n" % (a, b))
    comp = {"A": "T", "C": "G", "G": "C", "T": "A"}
    rc = lambda x: "".join(comp.get(c, c) for c in reversed(x))  # noqa
    want = {"<a": rc(a), ">a>b": a + b, "<b<a": rc(b) + rc(a), "<a>b": ""}[p]
    try:
        got = R.GFA(gfa).extract_path(p)
    except Exception as e:  # noqa
        return False, "extract_path(%r) with len(a) = %d raised %s: %s" % (p, n, type(e).__name__, e)
    if got == want:
        return True, "extract_path(%r) with len(a) = %d spelled correctly" % (p, n)
    k = next((i for i, (x, y) in enumerate(zip(got, want)) if x != y), min(len(got), len(want)))
    return False, ("extract_path(%r) on S a <%d bases, random.Random(%d) over ACGTNacgt>, S b GATTC, L a + b + returned %d characters, expected %d; first difference at "
                   "position %d (%r vs %r)" % (p, n, rseed, len(got), len(want), k, got[k:k + 12], want[k:k + 12]))


def _subsets(items):
    for k in range(len(items) + 1):
        for sub in itertools.combinations(items, k):
            yield list(sub)


def replay(ctx, rec):
    from gaftools.gfa import GFA
    logging.disable(logging.CRITICAL)
    try:
        c = rec["case"]
        if c["type"] == "long":
            return long_case(_Runner(ctx), c["n"], c["rseed"], c["path"])
        nodes, links = parse_gfa_lines(c["gfa"])
        og = oracle_graph(nodes, links)
        st = og.steps()
        R = _Runner(ctx)
        if c["type"] in ("extract", "reverse"):
            if c.get("how") == "api":
                g = gl.build_api(GFA, nodes, links)
            else:
                p = os.path.join(R.d, "g.gfa")
                with open(p, "w") as f:
                    f.write("\n".join(c["gfa"]) + "\n")
                g = GFA(p)
            from rtc.gen import parse_path
            w = tuple(parse_path(c["path"]))
            try:
                got = g.extract_path(c["path"])
                exp = expected(og, st, w)
                if c["type"] == "reverse":
                    rp = path_str(rev_walk(w))
                    got2 = g.extract_path(rp)
                    return got2 == revcomp(got), "extract_path(%r) = %r, extract_path(%r) = %r" % (c["path"], got, rp, got2)
            except Exception as e:  # noqa
                return False, "raised %s: %s" % (type(e).__name__, e)
            return got == exp, "extract_path(%r) returned %r, expected %r" % (c["path"], got, exp)
        if c["type"] == "cli":
            from rtc.gen import parse_path
            exp = [(p, expected(og, st, tuple(parse_path(p)))) for p in c["paths"]]
            gfa = os.path.join(R.d, "c.gfa")
            with open(gfa, "w") as f:
                f.write("\n".join(c["gfa"]) + "\n")
            if c["single"]:
                arg = c["paths"][0]
            else:
                arg = os.path.join(R.d, "paths.txt")
                with open(arg, "w") as f:
                    f.write("".join(p + "\n" for p in c["paths"]))
            got, err = R.run_cli(gfa, arg, c["fasta"], c.get("stdout", False))
            want = fmt(exp, c["fasta"])
            if err or got != want:
                return False, err or first_diff(got, want, exp, c["fasta"])
            return True, "one correct record per path, in order"
        return True, "unknown case type"
    finally:
        logging.disable(logging.NOTSET)
