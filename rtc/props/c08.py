"""C08 bounded stand-in: (1) exhaustive small-domain comparison of the REAL compare_gaf with the key order
(also a CPython cross-check of the pyvc encoding), (2) the REAL `gaftools sort` on every permutation of small
record sets vs. an independent oracle."""
import collections
import itertools

from rtc import sortlib

A = collections.namedtuple("Alignment", ["offset", "BO", "NO", "start", "inv", "sn"])


def key(x):
    return (x.BO == -1, x.BO, x.NO, x.start, x.offset)


def sgn(r):
    return None if r is None else (r > 0) - (r < 0)


def run(ctx):
    from gaftools.cli.sort import compare_gaf
    recs = [A(o, bo, no, st, 0, "c") for o in (0, 1, 2) for bo in (-1, 0, 1) for no in (-1, 0, 1) for st in (0, 1)]
    ctx.bound("compare_gaf: all pairs over offset<3, BO,NO in {-1,0,1}, start<2 (54 records); triples sampled in quick, exhaustive in thorough")
    cmpv = {}
    for a in recs:
        for b in recs:
            try:
                r = sgn(compare_gaf(a, b))
            except Exception as e:  # noqa
                r = "exc:%s" % type(e).__name__
            cmpv[(a, b)] = r
            want = (key(a) > key(b)) - (key(a) < key(b))
            ctx.case("compare_gaf-pairs", (a, b), nontrivial=(a != b), sample={"a": a, "b": b, "cmp": r})
            if r != want:
                ctx.fail("compare_gaf-pairs", "compare_gaf(%s, %s) has sign %r, the (untagged,BO,NO,start,offset) order says %d" % (tuple(a), tuple(b), r, want),
                         {"type": "pair", "a": list(a), "b": list(b)})
    triples = itertools.product(recs, repeat=3)
    if ctx.quick:
        triples = (tuple(ctx.rng.choice(recs) for _ in range(3)) for _ in range(20000))
    for a, b, c in triples:
        ctx.evaluations += 1
        if cmpv[(a, b)] == -1 and cmpv[(b, c)] == -1 and cmpv[(a, c)] != -1:
            ctx.fail("compare_gaf-trans", "not transitive on %s %s %s" % (tuple(a), tuple(b), tuple(c)), {"type": "triple", "recs": [list(a), list(b), list(c)]})
    # CLI: every permutation of small record sets
    n_cases = 6 if ctx.quick else 40
    ctx.bound("sort CLI: %d random tagged graphs x 2..5 records x all permutations (<=120)" % n_cases)
    for ci in range(n_cases):
        g, rs = sortlib.make_case(ctx.rng, ctx.rng.randint(2, 4 if ctx.quick else 5))
        _check_perms(ctx, g, rs, ci)
        if ctx.out_of_time(100 if ctx.quick else 900):
            break
    # tie-breaking of the anchor choice: walks whose scaffold steps are half forward, half reverse (the anchor is the FIRST node then) with the
    # first scaffold step reversed and a last scaffold node of another BO, among ordinary walks; every permutation (added after seeded change C08-3)
    from rtc.gen import make_rgfa
    rng = ctx.rng
    want = 4 if ctx.quick else 40
    found = 0
    for _try in range(400):
        if found >= want:
            break
        g = make_rgfa(rng, n_ref=rng.randint(3, 5), max_len=3, n_bubbles=rng.randint(0, 2), inversion=True, n_chrom=1, link_tags=False)
        sortlib.tag_graph(rng, g, 0.1)

        def scaf(w):
            return [(n, o) for n, o in w if getattr(g.by_id[n], "bo", -1) != -1 and getattr(g.by_id[n], "no", -1) == 0]
        walks = list(g.walks(3))
        ties = [w for w in walks if scaf(w) and [o for _n, o in scaf(w)].count(">") == [o for _n, o in scaf(w)].count("<")
                and scaf(w)[0][1] == "<" and g.by_id[scaf(w)[0][0]].bo != g.by_id[scaf(w)[-1][0]].bo]
        if not ties:
            continue
        plain = [w for w in walks if w not in ties]
        pick = rng.sample(ties, min(2, len(ties))) + rng.sample(plain, min(2, len(plain)))
        rs = []
        for i, w in enumerate(pick):
            pl = sum(g.by_id[n].ln for n, _ in w)
            ps = rng.randint(0, pl - 1)
            pe = rng.randint(ps + 1, pl)
            rs.append((w, ps, pe, sortlib.gaf_record(g, w, ps, pe, name="t%d_%d" % (found, i), tags=("NM:i:%d" % i,))))
        _check_perms(ctx, g, rs, 1000 + found)
        found += 1
    ctx.bound("anchor ties: %d random tagged graphs with an inversion link; per graph up to 2 walks whose scaffold steps are half '>' half '<', "
              "start reversed and end on a scaffold node of another BO, + 2 other walks, random offsets x all permutations" % found)
    # a bubble with more than ten inner nodes (NO = 1..12: two-digit NO values must order as numbers) - added after seeded change C08-5
    from rtc.gen import Seg, Graph
    segs = [Seg("w0", "AC", "chr1", 0, 0), Seg("w99", "GT", "chr1", 3, 0)]
    segs[0].bo, segs[0].no, segs[1].bo, segs[1].no = 0, 0, 2, 0
    links = []
    for k in range(1, 13):
        sg = Seg("w%d" % k, "ACGT"[k % 4] * (1 + k % 3), "chr1" if k == 1 else "hap%d" % k, 2 if k == 1 else 10 * k, 0 if k == 1 else 1)
        sg.bo, sg.no = 1, k
        segs.insert(-1, sg)
        links += [("w0", "+", sg.id, "+", 0), (sg.id, "+", "w99", "+", 0)]
    for sg in segs:
        sg.extra = ("BO:i:%d" % sg.bo, "NO:i:%d" % sg.no)
    gw = Graph(segs, links)
    n_wide = 3 if ctx.quick else 30
    for wi in range(n_wide):
        ks = [rng.choice([10, 11, 12]), rng.choice([2, 3, 9]), rng.randint(1, 12), rng.randint(1, 12)]
        rs = []
        for i, k in enumerate(ks):
            w = [("w%d" % k, rng.choice("><"))]
            pl = gw.by_id[w[0][0]].ln
            ps = rng.randint(0, pl - 1)
            rs.append((w, ps, rng.randint(ps + 1, pl), sortlib.gaf_record(gw, w, ps, pl, name="w%d_%d" % (wi, i))))
        rs = [(w, a, b, sortlib.gaf_record(gw, w, a, b, name=f[0])) for (w, a, b, f) in rs]
        _check_perms(ctx, gw, rs, 2000 + wi)
    ctx.bound("wide bubble: one bubble with 12 inner nodes (NO 1..12), %d x 4 single-node records (at least one with NO >= 10 and one with "
              "NO <= 9) x all 24 permutations" % n_wide)
    # large NO numbers (added after seeded change C08-7: a packed integer key with 16 bits for NO): a bubble whose inner nodes are numbered
    # 65535, 65536, 70000 and 2^20+3 next to small ones, followed by bubbles 2 and 3 of the chain; single-node records, all permutations
    BIG = [1, 9, 65535, 65536, 70000, (1 << 20) + 3]
    segs = [Seg("b0", "AC", "chr1", 0, 0), Seg("b99", "GT", "chr1", 3, 0), Seg("c1", "T", "chr1", 5, 0), Seg("c99", "GG", "chr1", 6, 0)]
    for sg, (bo, no) in zip(segs, [(0, 0), (2, 0), (3, 1), (4, 0)]):
        sg.bo, sg.no = bo, no
    links = [("b99", "+", "c1", "+", 0), ("c1", "+", "c99", "+", 0)]
    for j, k in enumerate(BIG):
        sg = Seg("b%d" % k, "ACGT"[j % 4] * (1 + j % 3), "chr1" if j == 0 else "hapb%d" % j, 2 if j == 0 else 10 * (j + 1), 0 if j == 0 else 1)
        sg.bo, sg.no = 1, k
        segs.insert(1 + j, sg)
        links += [("b0", "+", sg.id, "+", 0), (sg.id, "+", "b99", "+", 0)]
    for sg in segs:
        sg.extra = ("BO:i:%d" % sg.bo, "NO:i:%d" % sg.no)
    gb = Graph(segs, links)
    n_big = 3 if ctx.quick else 20
    for bi in range(n_big):
        ids = ["b%d" % rng.choice(BIG[2:]), "b%d" % rng.choice(BIG), rng.choice(["b99", "c1", "c99"]), rng.choice(["b0", "b99", "c1"])]
        rs = []
        for i, nid in enumerate(ids):
            w = [(nid, rng.choice("><"))]
            pl = gb.by_id[nid].ln
            ps = rng.randint(0, pl - 1)
            pe = rng.randint(ps + 1, pl)
            rs.append((w, ps, pe, sortlib.gaf_record(gb, w, ps, pe, name="big%d_%d" % (bi, i))))
        _check_perms(ctx, gb, rs, 4000 + bi)
    ctx.bound("large NO: one bubble whose inner nodes carry NO in %s, followed by nodes of BO 2, 3, 4; %d x 4 single-node records (at least one with NO >= 65535 "
              "and one on a later bubble) x all 24 permutations.  NOT covered: start offsets >= 2^32 (would need a node of 4 Gb)" % (BIG, n_big))
    # several records on the SAME path, consecutive in the input, with full-length / centred / off-centre intervals (any per-record state
    # carried over from the previous line shows here) - added after seeded change C08-6
    n_same = 6 if ctx.quick else 60
    done = 0
    for _try in range(20 * n_same):
        if done >= n_same:
            break
        g = make_rgfa(rng, n_ref=rng.randint(3, 5), max_len=4, n_bubbles=rng.randint(0, 2), inversion=True, n_chrom=1, link_tags=False)
        sortlib.tag_graph(rng, g, 0.1)
        walks = [w for w in g.walks(2) if sum(g.by_id[n].ln for n, _ in w) >= 3]
        rev = [w for w in walks if w[0][1] == "<"]
        if not rev:
            continue
        w = rng.choice(rev if rng.random() < 0.7 else walks)
        pl = sum(g.by_id[n].ln for n, _ in w)
        ivs = [(0, pl), ((pl - 1) // 2, pl - (pl - 1) // 2), (0, rng.randint(1, pl - 1)), (rng.randint(1, pl - 1), pl)]
        rng.shuffle(ivs)
        rs = [(w, a, b, sortlib.gaf_record(g, w, a, b, name="p%d_%d" % (done, i))) for i, (a, b) in enumerate(ivs) if a < b]
        other = rng.choice(walks)
        opl = sum(g.by_id[n].ln for n, _ in other)
        rs.append((other, 0, opl, sortlib.gaf_record(g, other, 0, opl, name="p%d_o" % done)))
        _check_perms(ctx, g, rs, 3000 + done)
        done += 1
    ctx.bound("same path: %d random tagged graphs x (4 records on one walk - full length, centred, prefix, suffix - mostly starting on a reversed "
              "node, + 1 record on another walk) x all 120 permutations" % done)
    return ("compare_gaf on all pairs (and triples) of a 54-record domain vs. the key order; `gaftools sort` on every permutation of "
            "2-5 records over random tagged graphs vs. an independent oracle; a case is non-trivial when the two records differ / "
            "the permutation is distinct")


def _check_perms(ctx, g, rs, ci):
    d = ctx.dir("c08")
    n = len(rs)
    canon = None
    for pi, order in enumerate(itertools.permutations(range(n))):
        exp = sortlib.expected_output(g, rs, order)
        try:
            lines, idx, _ = sortlib.run_sort(d, g, rs, order, tag=str(ci))
        except BaseException as e:  # noqa
            ctx.fail("sort-cli", "gaftools sort raised %s: %s" % (type(e).__name__, e), _case(g, rs, order))
            return
        ctx.case("sort-cli-perm", (ci, order), sample={"records": [r[3][:9] for r in rs], "order": order})
        if lines != [e[1] for e in exp]:
            ctx.fail("sort-cli", "output order/content differs from the (BO,NO,start,input order) oracle for permutation %s" % (order,), _case(g, rs, order))
            return
        # permutation invariance up to exact ties: compare the sequence of (key without position, line)
        sig = [(e[0][:4], ) for e in exp]
        got_keys = [tuple(sortlib.sort_key(e[2], 0)[:4]) for e in exp]
        if canon is None:
            canon = got_keys
        elif canon != got_keys:
            ctx.fail("sort-cli", "key sequence of the output depends on the input permutation", _case(g, rs, order))


def _case(g, rs, order):
    return {"type": "cli", "gfa": g.lines(), "records": [r[3] for r in rs], "walks": [[list(x) for x in r[0]] for r in rs],
            "ranges": [[r[1], r[2]] for r in rs], "order": list(order)}


def replay(ctx, rec):
    from gaftools.cli.sort import compare_gaf
    c = rec["case"]
    if c["type"] == "pair":
        a, b = A(*c["a"]), A(*c["b"])
        r = sgn(compare_gaf(a, b))
        want = (key(a) > key(b)) - (key(a) < key(b))
        return r == want, "compare_gaf sign %r, key order %d" % (r, want)
    if c["type"] == "triple":
        a, b, cc = [A(*x) for x in c["recs"]]
        ok = not (sgn(compare_gaf(a, b)) == -1 and sgn(compare_gaf(b, cc)) == -1 and sgn(compare_gaf(a, cc)) != -1)
        return ok, "transitivity on the recorded triple"
    return replay_cli(ctx, c)


def replay_cli(ctx, c):
    import os
    from rtc.gen import write_lines
    d = ctx.dir("replay")
    open(os.path.join(d, "g.gfa"), "w").write("\n".join(c["gfa"]) + "\n")
    from rtc.gen import Graph, Seg
    # rebuild a minimal graph view for the oracle
    segs = []
    for l in c["gfa"]:
        p = l.split("\t")
        if p[0] == "S":
            t = {x.split(":")[0]: x.split(":", 2)[2] for x in p[3:]}
            s = Seg(p[1], p[2], t.get("SN"), int(t.get("SO", 0)), int(t.get("SR", 0)))
            s.bo, s.no = int(t["BO"]), int(t["NO"])
            segs.append(s)
    g = Graph(segs, [])
    rs = [([tuple(x) for x in w], r[0], r[1], f) for w, r, f in zip(c["walks"], c["ranges"], c["records"])]
    exp = sortlib.expected_output(g, rs, c["order"])
    from gaftools.cli.sort import run_sort
    write_lines(os.path.join(d, "in.gaf"), [rs[i][3] for i in c["order"]])
    try:
        run_sort(os.path.join(d, "g.gfa"), os.path.join(d, "in.gaf"), outgaf=os.path.join(d, "o.gaf"))
    except BaseException as e:  # noqa
        return False, "gaftools sort raised %s: %s" % (type(e).__name__, e)
    lines = open(os.path.join(d, "o.gaf")).read().splitlines()
    return lines == [e[1] for e in exp], "output %s the oracle" % ("equals" if lines == [e[1] for e in exp] else "differs from")
