"""C09 bounded stand-in: the REAL `gaftools sort` (in-process, plus a few real CLI runs writing to stdout) on tagged tiny
rGFAs; the output must be the multiset {input line + "\\tbo:i:<BO of anchor>\\tsn:Z:<rank-0 contig|unknown>\\tiv:i:<0|1>"} with the
three values computed by an independent oracle (rtc.sortlib.oracle, straight from the definitions).  The order of the output
is NOT checked here (C08 does that)."""
import collections
import hashlib
import itertools
import os
import subprocess
import sys

from rtc import sortlib
from rtc.gen import gaf_record, canonical_ranges, all_ranges, write_lines

CONFIGS = [(False, False), (True, False), (False, True), (True, True)]  # (BGZF input, --bgzip output)


def _key(g, recs, order, cfg):
    h = hashlib.sha1()
    for l in g.lines():
        h.update(l.encode() + b"\n")
    for i in order:
        h.update("\t".join(recs[i][3]).encode() + b"\n")
    return (h.hexdigest(), cfg)


def compare(inp_lines, want_lines, got_lines):
    """None if got is a permutation of want, else a one-line explanation (first discrepancy)"""
    if got_lines is None:
        return "the output does not end with a newline"
    if collections.Counter(got_lines) == collections.Counter(want_lines):
        return None
    if len(got_lines) != len(want_lines):
        return "%d records in, %d lines out" % (len(want_lines), len(got_lines))
    want_by_input = {}
    for i, w in zip(inp_lines, want_lines):
        want_by_input[i] = w
    left = collections.Counter(inp_lines)
    for o in got_lines:
        f = o.split("\t")
        if len(f) < 15:
            return "output line with fewer than 12+3 fields: %r" % o
        pre = "\t".join(f[:-3])
        if left[pre] <= 0:
            if pre in want_by_input:
                return "input record emitted more often than it occurs in the input: %r" % pre
            return "output line %r is not an input record plus exactly three appended fields" % o
        left[pre] -= 1
        if o != want_by_input[pre]:
            return "record %r got tags %s, expected %s" % (pre, f[-3:], want_by_input[pre].split("\t")[-3:])
    return "multisets differ"


def check_one(ctx, section, g, recs, order, bgzf_in, bgzip_out, d, tag="", nontrivial=True):
    """one sort run; returns True if fine"""
    inp = ["\t".join(recs[i][3]) for i in order]
    want = sortlib.expected_tagged(g, recs, order)
    cfg = "bgzf_in=%s,bgzip_out=%s" % (bgzf_in, bgzip_out)
    case = lambda: sortlib.case_dict(g, recs, order, bgzf_in=bgzf_in, bgzip_out=bgzip_out, mode="file")  # noqa
    ctx.case(section, _key(g, recs, order, cfg), nontrivial=nontrivial,
             sample={"n_records": len(inp), "first_record": inp[0], "expected_first": want[0].split("\t")[-3:], "config": cfg})
    try:
        lines, _idx, out = sortlib.run_sort(d, g, recs, order, bgzf_in=bgzf_in, bgzip_out=bgzip_out, tag=tag)
    except BaseException as e:  # noqa
        ctx.fail(section, "gaftools sort (%s, %d records, first %r) raised %s: %s" % (cfg, len(inp), inp[0][:60], type(e).__name__, e), case())
        return False
    got = sortlib.split_records(sortlib.read_text_independent(out))  # own reader: gzip module / plain bytes, split on \n only
    what = compare(inp, want, got)
    if what is None and got != lines:
        what = "pysam and the gzip module disagree on the content of the output file"
    if what is None and bgzip_out:
        try:
            sortlib.bgzf_blocks(out)
        except Exception as e:  # noqa
            what = "--bgzip output is not a BGZF file: %s" % e
    if what is None and not bgzip_out and open(out, "rb").read(2) == b"\x1f\x8b":
        what = "output is compressed although --bgzip was not given"
    if what:
        ctx.fail(section, "sort (%s, %d records): %s" % (cfg, len(inp), what), case())
        return False
    return True


def run_stdout(ctx, section, g, recs, order, bgzf_in, d):
    """the real CLI without --outgaf: sorted GAF on stdout"""
    inp = ["\t".join(recs[i][3]) for i in order]
    want = sortlib.expected_tagged(g, recs, order)
    gfa, gaf = os.path.join(d, "g.gfa"), os.path.join(d, "in.gaf" + (".gz" if bgzf_in else ""))
    g.write(gfa)
    write_lines(gaf, inp, bgzf=bgzf_in)
    ctx.case(section, _key(g, recs, order, "stdout,bgzf_in=%s" % bgzf_in), sample={"n_records": len(inp), "first_record": inp[0]})
    env = dict(os.environ, PYTHONPATH=os.pathsep.join(p for p in sys.path if p), PYTHONWARNINGS="ignore")
    r = subprocess.run([sys.executable, "-m", "gaftools", "sort", gaf, gfa], capture_output=True, env=env, timeout=120)
    case = sortlib.case_dict(g, recs, order, bgzf_in=bgzf_in, bgzip_out=False, mode="stdout")
    if r.returncode != 0:
        ctx.fail(section, "gaftools sort to stdout exits with %d: %s" % (r.returncode, r.stderr.decode()[-200:].replace("\n", " | ")), case)
        return False
    what = compare(inp, want, sortlib.split_records(r.stdout.decode()))
    if what:
        ctx.fail(section, "sort to stdout (%d records): %s" % (len(inp), what), case)
        return False
    return True


def run(ctx):
    ctx.bound("text variants: 3 plain inputs (UTF-8 read names, UTF-8 Z value, CRLF line ends) of 12 records; one input over a graph whose contig names contain ':' '-' '#'")
    text_variants(ctx)
    rng = ctx.rng
    # ---- 1. exhaustive over a fixed graph: every walk of <= 3 steps x every (start,end) ------------------------------------------
    g = sortlib.fixed_graph()
    walks = g.walks(3)
    ctx.bound("exhaustive: fixed 2-chromosome tagged graph (9 nodes: bubble, inversion links, one untagged node), all %d walks of <= 3 steps; "
              "each walk x every (start,end) as one file per walk (plain/plain), every walk of <= 2 steps x canonical ranges as 1-record files "
              "in all 4 input/output compression configurations, and all records together in one file" % len(walks))
    d = ctx.dir("c09x")
    allrecs = []
    for wi, w in enumerate(walks):
        recs = [(w, s, e, gaf_record(g, w, s, e, name="w%d_%d_%d" % (wi, s, e))) for s, e in all_ranges(g, w)]
        allrecs += recs
        check_one(ctx, "exhaustive-walk", g, recs, range(len(recs)), False, False, d, tag="x")
        if len(w) <= 2:
            for s, e in canonical_ranges(g, w)[:2 if ctx.quick else None]:
                one = [(w, s, e, gaf_record(g, w, s, e, name="r", cigar=""))]
                for bi, bo in CONFIGS:
                    check_one(ctx, "exhaustive-single-record", g, one, [0], bi, bo, d, tag="x")
    for bi, bo in CONFIGS:
        check_one(ctx, "exhaustive-all-in-one", g, allrecs, range(len(allrecs)), bi, bo, d, tag="x")

    # ---- 2. random graphs / records / configurations --------------------------------------------------------------------------
    sizes = [1, 1, 2, 3, 4, 5, 8, 13, 30, 80, 200, 350]
    n_rounds = 25 if ctx.quick else 1500
    ctx.bound("random: %d rounds x sizes %s records, 1-3 chromosomes, random tagged rGFAs (3-5 reference nodes per chromosome, 0-2 bubbles, "
              "optional inversion, 25%% or 0%% or 60%% untagged nodes), walks of <= 3 steps, optional fields none/cg only/tp+NM/rich "
              "(Z values with blanks and colons, pre-existing bo/sn/iv, empty Z) and 0-10%% byte-identical repeated lines, all 4 "
              "combinations of plain/BGZF input and plain/--bgzip output; <= 4 input orders per case" % (n_rounds, sizes))
    budget = 45 if ctx.quick else 600
    for rnd in range(n_rounds):
        for n in sizes:
            gg, recs = sortlib.make_case2(rng, n, n_chrom=rng.randint(1, 3), untagged_frac=rng.choice([0.25, 0.25, 0.0, 0.6]),
                                          ref_mode=rng.choice(["any", "any", "all", "some_unknown"]),
                                          tag_mode=rng.choice(["mixed", "mixed", "none", "cg", "std", "rich"]),
                                          dup_frac=rng.choice([0.0, 0.0, 0.1]))
            d = ctx.dir("c09r")
            orders = [tuple(range(n))]
            if 1 < n <= 4:
                orders = list(itertools.permutations(range(n)))
                orders = [orders[0]] + rng.sample(orders[1:], min(3, len(orders) - 1))
            elif n > 4:
                p = list(range(n))
                rng.shuffle(p)
                orders.append(tuple(p))
            cfgs = CONFIGS if n <= 30 else [CONFIGS[rng.randrange(4)], CONFIGS[rng.randrange(4)]]
            for oi, order in enumerate(orders):
                for bi, bo in (cfgs if oi == 0 else [cfgs[rng.randrange(len(cfgs))]]):
                    if not check_one(ctx, "random", gg, recs, order, bi, bo, d):
                        break
        if ctx.out_of_time(budget):
            break

    # ---- 2b. half-tagged nodes -----------------------------------------------------------------------------------------------------
    n_half = 40 if ctx.quick else 600
    ctx.bound("half-tagged: %d cases of 1-30 records over graphs in which ~40%% of the nodes carry BO=-1 with NO>=0 or BO>=0 with NO=-1 "
              "(not produced by order_gfa; 'scaffold node' is read literally as BO != -1 and NO == 0)" % n_half)
    for i in range(n_half):
        n = rng.choice([1, 2, 5, 30])
        gg, recs = sortlib.make_case2(rng, n, n_chrom=rng.randint(1, 2), untagged_frac=0.1, half_tagged_frac=0.4, tag_mode="cg")
        check_one(ctx, "half-tagged", gg, recs, list(range(n)), False, False, ctx.dir("c09h"))
        if ctx.out_of_time(budget + 15):
            break

    # ---- 3. multi-block BGZF (> 64 KiB of records in and out) ------------------------------------------------------------------
    n_big = 1 if ctx.quick else 4
    ctx.bound("multi-block: %d case(s) of 300-500 records padded to > 64 KiB (at least two BGZF blocks in the input and in the output)" % n_big)
    for bi_ in range(n_big):
        n = rng.randint(300, 500)
        gg, recs = sortlib.make_case2(rng, n, n_chrom=rng.randint(1, 3), tag_mode="mixed", pad=rng.randint(200, 300), dup_frac=0.02)
        d = ctx.dir("c09b")
        order = list(range(n))
        rng.shuffle(order)
        for bi, bo in ([(True, True)] if ctx.quick else [(True, True), (True, False), (False, True)]):
            ok = check_one(ctx, "multi-block", gg, recs, order, bi, bo, d)
            if ok:
                nin = len(sortlib.bgzf_blocks(os.path.join(d, "in.gaf.gz"))) if bi else None
                nout = len(sortlib.bgzf_blocks(os.path.join(d, "out.gaf.gz"))) if bo else None
                # blocks include the empty EOF block, so > 2 means at least two data blocks
                assert (nin is None or nin > 2) and (nout is None or nout > 2), "generator: the big case is not multi-block (%s, %s)" % (nin, nout)

    # ---- 4. stdout through the real command line -------------------------------------------------------------------------------
    n_cli = 2 if ctx.quick else 12
    ctx.bound("stdout: %d real `python -m gaftools sort` runs without --outgaf (3-40 records, plain or BGZF input)" % n_cli)
    for i in range(n_cli):
        n = rng.choice([3, 7, 40])
        gg, recs = sortlib.make_case2(rng, n, n_chrom=rng.randint(1, 2), tag_mode="mixed")
        order = list(range(n))
        rng.shuffle(order)
        run_stdout(ctx, "stdout-cli", gg, recs, order, bool(i % 2), ctx.dir("c09s"))
    return ("one case = one run of the real sort on (tagged rGFA, GAF records in a given order, input/output compression); the output must be "
            "exactly the multiset of input lines each extended by bo:i/sn:Z/iv:i as computed by an independent oracle (anchor node by majority "
            "orientation of tagged scaffold nodes, first rank-0 node's contig, both orientations among scaffold nodes); distinct = distinct "
            "(graph, record sequence, configuration)")


def text_variants(ctx):
    """plain-text inputs whose character count differs from their byte count (a multi-byte UTF-8 character in a read name / Z value)
    or whose lines end in CRLF: offsets must still address the records (added after seeded change C09/1)"""
    import collections
    from gaftools.cli.sort import run_sort as real_run_sort
    g = sortlib.fixed_graph()
    walks = [w for w in g.walks(2)][:12]
    base = []
    for i, w in enumerate(walks):
        pl = sum(g.by_id[n].ln for n, _ in w)
        f = sortlib.gaf_record(g, w, 0, pl, name="r%d" % i, tags=("NM:i:%d" % i,))
        base.append((w, 0, pl, f))
    variants = {
        "utf8-read-name": ([(w, s, e, ["r\u00e9ad\u4e2d%d" % i] + f[1:]) for i, (w, s, e, f) in enumerate(base)], "\n"),
        "utf8-z-value": ([(w, s, e, f + ["co:Z:caf\u00e9 \u2713"]) for (w, s, e, f) in base], "\n"),
        "crlf": (base, "\r\n"),
    }
    # a reference contig whose name contains ':' and '-' (valid Z value, e.g. a sub-region name): the sn:Z tag must carry it whole
    # (added after seeded change C09-3)
    gc = sortlib.fixed_graph(rename={"chr1": "chr1:1000-30000", "chr2": "HG002#1#chr2"})
    variants["contig-name-with-colon"] = (base, "\n")
    for name, (recs, eol) in variants.items():
        if name == "contig-name-with-colon":
            g = gc
        d = ctx.dir("c09t")
        gfa = os.path.join(d, "g.gfa")
        g.write(gfa)
        order = list(range(len(recs)))
        ctx.rng.shuffle(order)
        inp = ["\t".join(recs[i][3]) for i in order]
        with open(os.path.join(d, "in.gaf"), "wb") as fh:
            fh.write("".join(l + eol for l in inp).encode("utf-8"))
        ctx.case("text-variants", name, sample={"variant": name, "first_record": inp[0]})
        case = {"mode": "text-variant", "variant": name, "gfa": g.lines(), "lines": inp, "eol": eol}
        try:
            real_run_sort(gfa, os.path.join(d, "in.gaf"), outgaf=os.path.join(d, "out.gaf"), outind=None, bgzip=False)
        except BaseException as e:  # noqa
            ctx.fail("text-variants", "gaftools sort on a %s input raised %s: %s" % (name, type(e).__name__, e), case)
            continue
        got = [l.rstrip("\r") for l in open(os.path.join(d, "out.gaf"), encoding="utf-8").read().split("\n") if l]
        want = collections.Counter()
        for i in order:
            w, s, e, f = recs[i]
            o = sortlib.oracle(g, w, s, e)
            want["\t".join(f) + "\tbo:i:%d\tsn:Z:%s\tiv:i:%d" % (o["bo"], o["sn"], o["inv"])] += 1
        if collections.Counter(got) != want:
            ctx.fail("text-variants", "%s input: output is not the multiset of input records with bo/sn/iv appended (got %d lines, first %r)" % (name, len(got), got[:1]), case)


def replay(ctx, rec):
    if rec["case"].get("mode") == "text-variant":
        sub = type(ctx)(ctx.pid, "quick", 0, ctx.dir("rp"))
        text_variants(sub)
        bad = [f for f in sub.failures if rec["case"]["variant"] in f["what"]]
        return (not bad), (bad[0]["what"] if bad else "holds")
    c = rec["case"]
    g, recs = sortlib.case_from_dict(c)
    sub = type(ctx)(ctx.pid, "quick", 0, ctx.dir("sub"))
    d = ctx.dir("replay")
    if c.get("mode") == "stdout":
        ok = run_stdout(sub, "replay", g, recs, c["order"], c["bgzf_in"], d)
    else:
        ok = check_one(sub, "replay", g, recs, c["order"], c["bgzf_in"], c["bgzip_out"], d)
    import shutil
    shutil.rmtree(sub.tmp, ignore_errors=True)
    return ok, (sub.failures[0]["what"] if sub.failures else "output is the input plus the three correct tags")
