"""C05 bounded stand-in: the REAL `gaftools index` + `gaftools view -r CONTIG:a-b ...` on tiny rGFAs x small GAF files x regions.
For every contig of the graph and every closed region [a,b] with 0 <= a <= b < contig length (all of them in thorough, all or a
sample in quick) the oracle computes from the GFA the nodes whose stable interval [SO,SO+LN) intersects the region and from the
GAF the records that traverse one of them (own definition); the real output must be exactly these records (once, file order,
content of the input / of the whole-file conversion with --format), CommandLineError('No alignments found...') when there is
none, never another exception and never a hang (every call runs under a SIGALRM time limit; a sample runs as a real
sub-process with a timeout and checks the exit status).  A sample is also compared with the real `view --node` on the node set."""
import os
import zlib

from rtc import viewlib as V
from rtc import defects
from rtc.props.c04 import Indexed

TIME_LIMIT = 20  # seconds per in-process query; a query on these inputs takes milliseconds


class TooManyHangs(Exception):
    """three queries hit the time limit: stop the run (the failures are recorded), do not wait for thousands more"""


def regions_of(g):
    """every (contig, a, b), 0 <= a <= b < extent of the contig"""
    out = []
    for c, n in sorted(V.contig_extent(g).items()):
        out += [(c, a, b) for a in range(n) for b in range(a, n)]
    return out


def expected(ix, regs):
    nodes = []
    for c, a, b in regs:
        nodes += V.nodes_under_region(ix.g, c, a, b)
    return nodes, ix.gf.select(nodes)


def rstr(r):
    return "%s:%d-%d" % r


def check_regions(ctx, ix, regs, fmt, section, use_file=False, vs_node=False):
    regs = [tuple(r) for r in regs]
    nodes, sel = expected(ix, regs)
    case = ix.gf.to_case(regions=[list(r) for r in regs], format=fmt, to_file=use_file, vs_node=vs_node)
    if fmt:
        conv = ix.conv()
        if conv[0] != "ok" or len(conv[1]) != len(ix.gf.recs):
            return True
        want = [conv[1][i] for i in sel]
    else:
        want = [ix.gf.lines[i] for i in sel]
    al = ix.gf.aligned_nodes()
    ctx.case(section, ix.fk + (tuple(regs), fmt),
             sample={"file": ix.kind(), "regions": [rstr(r) for r in regs], "nodes_under_region": nodes,
                     "aligned": sorted(al), "expected": [l.split("\t")[0] for l in want] or "CommandLineError"})
    hangs = getattr(ctx, "c05_hangs", 0)
    limit = TIME_LIMIT if hangs == 0 else 5
    got = V.view(ix.gf.path, gfa=ix.gfa if fmt else None, fmt=fmt, regions=[rstr(r) for r in regs], out=ix.out(use_file), timeout=limit)
    tab = V.node_table(ix.g)
    desc = "view %s%s on a %s; nodes under the region(s): %s; aligned nodes: %s; paths %s" % (
        " ".join("-r " + rstr(r) for r in regs), " -f " + fmt if fmt else "", ix.kind(),
        ["%s=%s:%d-%d" % ((n,) + tab[n]) for n in nodes], sorted(al), [r[5] for r in ix.gf.recs][:10])
    wn = [l.split("\t")[0] for l in want]
    if got[0] == "timeout":
        ctx.fail(section + "-hang%d" % hangs, "%s: did not terminate within %d s (expected %s)" % (desc, limit, wn or "CommandLineError"), case)
        ctx.c05_hangs = hangs + 1
        if ctx.c05_hangs >= 3:
            raise TooManyHangs()
        return False
    if got[0] == "exc":
        ctx.fail(section, "%s: internal error %s (expected %s)" % (desc, got[1], wn or "CommandLineError"), case)
        return False
    if not sel:
        if got[0] != "cle" or not got[1].startswith("No alignments found"):
            ctx.fail(section, "%s: nothing matches, expected CommandLineError('No alignments found...'), got %s" % (desc, V.describe(got)), case)
            return False
        return True
    if got[0] != "ok" or [l.split("\t") for l in got[1]] != [l.split("\t") for l in want]:
        ctx.fail(section, "%s: expected records %s, got %s" % (desc, wn, V.describe(got)), case)
        return False
    if vs_node:
        # the statement literally: same answer as --node on the node set
        got_n = V.view(ix.gf.path, gfa=ix.gfa if fmt else None, fmt=fmt, nodes=nodes, timeout=TIME_LIMIT)
        ctx.case(section + "-vs-node", ix.fk + (tuple(regs), fmt))
        if got_n != ("ok", got[1]):
            ctx.fail(section + "-vs-node", "%s: --region gives %s but --node %s gives %s" % (desc, V.describe(got), nodes, V.describe(got_n)), case)
            return False
    return True


def check_subprocess(ctx, ix, regs, section="subprocess"):
    regs = [tuple(r) for r in regs]
    nodes, sel = expected(ix, regs)
    case = ix.gf.to_case(regions=[list(r) for r in regs], format=None, subprocess=True)
    ctx.case(section, ix.fk + (tuple(regs),))
    args = []
    for r in regs:
        args += ["-r", rstr(r)]
    rc, out, err = V.view_subprocess(ix.gf.path, args, timeout=60)
    desc = "gaftools view %s on a %s" % (" ".join(args), ix.kind())
    if rc == "timeout":
        ctx.fail(section, "%s: process did not finish within 60 s" % desc, case)
    elif not sel:
        if rc != 1 or "No alignments found" not in err:
            ctx.fail(section, "%s: nothing matches; expected exit status 1 with 'No alignments found', got rc=%s stderr=%r" % (desc, rc, err.strip().splitlines()[-1:]), case)
    elif rc != 0 or out != [ix.gf.lines[i] for i in sel]:
        ctx.fail(section, "%s: expected exit status 0 and records %s, got rc=%s, records %s, stderr=%r"
                 % (desc, [ix.gf.recs[i][0] for i in sel], rc, [l.split("\t")[0] for l in out], err.strip().splitlines()[-1:]), case)


def _main_loop(ctx, rng, n_graphs, budget, cap, files, state):
    nq = 0
    for gi in range(n_graphs):
        g = V.random_graph(rng)
        d = ctx.dir("c05")
        gfa = V.write_graph(d, g)
        allr = regions_of(g)
        for stable in (False, True):
            n = rng.choice([1, 1, 2, 3, 5, 8])
            recs = V.make_records(g, rng, n, stable, direct=rng.random() < 0.5)
            bg = rng.random() < 0.3
            gf = V.GafFile(os.path.join(d, "%s.gaf%s" % ("s" if stable else "u", ".gz" if bg else "")), g, recs, bg)
            try:
                ix = Indexed(d, g, gfa, gf)
            except BaseException as e:  # noqa
                ctx.case("index", (gi, stable))
                ctx.fail("index", "gaftools index raised %s: %s" % (type(e).__name__, e), gf.to_case(regions=[], format=None))
                continue
            files.append(ix)
            sec = "stable" if stable else "unstable"
            rs = allr
            if cap is not None and len(rs) > cap:
                rs = rng.sample(rs, cap)
                state["complete"] = False
            for r in rs:
                nq += 1
                fmt = ix.fmt if rng.random() < 0.15 else None
                check_regions(ctx, ix, [r], fmt, sec + ("-format" if fmt else ""), use_file=nq % 5 == 0, vs_node=rng.random() < 0.1)
            for _ in range(8 if ctx.quick else 40):
                lst = [rng.choice(allr) for _ in range(rng.randint(2, 4))]
                if rng.random() < 0.3:
                    lst.append(lst[0])
                fmt = ix.fmt if rng.random() < 0.15 else None
                check_regions(ctx, ix, lst, fmt, sec + "-multi" + ("-format" if fmt else ""), vs_node=rng.random() < 0.2)
        if ctx.out_of_time(budget):
            break


def run(ctx):
    for name, fn in sorted(defects.for_property("C05").items()):
        try:
            ok, detail = fn()
        except BaseException as e:  # noqa
            ok, detail = False, "raised %s: %s" % (type(e).__name__, e)
        ctx.case("regression", name)
        if not ok:
            ctx.fail("regression", "repaired defect %s is back: %s" % (name, detail), {"type": "defect", "name": name})
    rng = ctx.rng
    n_graphs = 100 if ctx.quick else 5000
    budget = 40 if ctx.quick else 700
    cap = 200 if ctx.quick else None
    n_sub = 4 if ctx.quick else 40
    ctx.bound("<= %d random valid rGFAs (1-2 chromosomes of 2-5 reference segments of length 1-3, 0-3 bubbles with separated/adjacent/mixed "
              "haplotype segments, optional inversion / self link / back link / tip) x 2 indexed GAF files each (unstable, stable; text or BGZF "
              "at random) of 1-8 records over walks of <= 4 steps (few records, so regions over unaligned nodes and beyond the first / last "
              "indexed node of a contig occur)" % n_graphs)
    ctx.bound("single regions: %s (contig, a, b) with 0 <= a <= b < extent of the contig (for a haplotype contig: end of its last segment; "
              "regions may fall in gaps between separated segments); region lists: %d random lists of 2-4 regions per file (any contigs, repeats, "
              "overlapping); --format on 15%% of the queries; 10%% of the matching queries also compared with the real --node; "
              "%d sub-process runs with a 60 s timeout checking the exit status; in-process calls under a %d s SIGALRM limit"
              % ("all" if cap is None else "all, or %d sampled per file when there are more," % cap, 8 if ctx.quick else 40, n_sub, TIME_LIMIT))
    files = []
    state = {"complete": True}
    try:
        _main_loop(ctx, rng, n_graphs, budget, cap, files, state)
    except TooManyHangs:
        ctx.bound("run stopped early: three region queries did not terminate within the time limit")
    # real processes: exit status and termination
    for k in range(n_sub if files else 0):
        ix = rng.choice(files)
        allr = regions_of(ix.g)
        empty = [r for r in allr if not expected(ix, [r])[1]]
        if k % 2 == 0 and empty:
            check_subprocess(ctx, ix, [rng.choice(empty)])
        else:
            check_subprocess(ctx, ix, [rng.choice(allr) for _ in range(rng.randint(1, 2))])
    # regions whose start has fewer digits than their end (9-10, 5-12: "9" > "10" as text) through the real command line, which also runs the
    # argument validation that in-process calls of run() skip (added after seeded change C05-5)
    n_digit = 0
    for ix in files:
        if n_digit >= (4 if ctx.quick else 30):
            break
        cand = [r for r in regions_of(ix.g) if r[1] < 10 <= r[2] and str(r[1]) > str(r[2])]
        if cand:
            check_subprocess(ctx, ix, [rng.choice(cand)], section="subprocess-digit-count")
            n_digit += 1
    ctx.bound("%d sub-process runs with a region START-END in which START has fewer digits than END (e.g. 9-10)" % n_digit)
    ctx.exhaustive = False
    return ("each case = one (graph, indexed GAF file, region list, format) query answered by the real view code vs. the records traversing "
            "(own definition) a node whose stable interval intersects a region (node set computed from the GFA); all (a,b) of every contig "
            "of a graph are enumerated%s; distinct = distinct (graph text, GAF text, compression, regions, format)"
            % ("" if state["complete"] else " unless a graph has more than %d regions (then sampled)" % cap))


def replay(ctx, rec):
    c = rec["case"]
    if c.get("type") == "defect":
        return defects.ALL[c["name"]]()
    d, g, gfa, gf = V.load_case(ctx, c)
    sub = type(ctx)(ctx.pid, "quick", 0, d)
    try:
        ix = Indexed(d, g, gfa, gf)
    except BaseException as e:  # noqa
        return False, "gaftools index raised %s: %s" % (type(e).__name__, e)
    if c.get("subprocess"):
        check_subprocess(sub, ix, c["regions"])
    elif c.get("regions"):
        check_regions(sub, ix, c["regions"], c.get("format"), "replay", use_file=c.get("to_file", False), vs_node=True)
    return not sub.failures, (sub.failures[0]["what"] if sub.failures else "output equals the oracle")
