"""C07 bounded stand-in: order_gfa and GFA load/write preserve the graph.

(A) the REAL `order_gfa` on generated chain rGFAs with rich S/L tags, H/P/W/C/J/comment records sprinkled in, self links,
    inverted links, links spelled from either end, pre-existing BO/NO; with and without --with-sequence and --by-chrom.
    An independent reader of the output checks: exactly the files of the requested chromosomes exist; S ids = nodes of the
    requested components, once each; sequence kept (or '*'); tags kept, plus exactly one BO:i and one NO:i; links = links of
    those components, once each in either spelling, same overlap and tags; all S lines before all L lines, nothing else;
    S lines in strictly increasing (BO, NO) order; CSV has every node once with the BO/NO of the GFA and the role
    (orange = scaffold node: articulation point, or the only node of a one-segment chromosome; blue = other) computed by the oracle.
(B) GFA(path) -> write_gfa -> independent reader on arbitrary small GFAs (not chains): equal segments (sequence with
    low_memory=False, '*' with low_memory=True), equal tags, equal link multiset; the written file re-loads to a graph the
    library itself calls equal; writing a union of components gives exactly those components.
(C) two flagged corner sections: S-line tag names with a digit, a blank at the end of the last field of a line.
"""
import os

from rtc import orderlib as ol


# ------------------------------------------------------------------------------------------------
# (A) order_gfa output vs input
# ------------------------------------------------------------------------------------------------
def strip_bono(tags):
    return sorted(t for t in tags if not (t.startswith("BO:") or t.startswith("NO:")))


def check_order(d, case):
    lines, order, by_chrom, with_seq = case["lines"], case["order"], case["by_chrom"], case["with_seq"]
    segs, links, by_name, _chains = ol.analyse(lines)
    chains = [by_name.get(c) for c in order]
    if any(c is None or not c.in_domain for c in chains):
        return ["input outside the domain"]
    res = ol.run_inproc(d, lines, order, by_chrom=by_chrom, with_seq=with_seq)
    if not res.ok():
        return ["order_gfa failed: " + res.describe()]
    groups = [("g-%s" % c.name, [c]) for c in chains] if by_chrom else [("g-complete", chains)]
    want_files = sorted(sum([[stem + ".gfa", stem + ".csv"] for stem, _ in groups], []))
    if sorted(res.files) != want_files:
        return ["output files %s, expected %s" % (sorted(res.files), want_files)]
    bad = []
    for stem, chs in groups:
        nodes = set().union(*[c.comp for c in chs])
        out_s, out_l, kinds = ol.read_out_gfa(res.files[stem + ".gfa"])
        if kinds != "S" * len(out_s) + "L" * len(out_l):
            bad.append("%s.gfa: record types in file order are %r (all S lines must precede all L lines, nothing else)" % (stem, kinds[:60]))
        ids = [x[0] for x in out_s]
        if sorted(ids) != sorted(nodes):
            bad.append("%s.gfa: segments lost %s / invented or duplicated %s" % (
                stem, sorted(nodes - set(ids))[:5], sorted([i for i in ids if i not in nodes or ids.count(i) > 1])[:5]))
            continue
        keys = []
        for nid, seq, tags in out_s:
            want_seq = segs[nid][0] if with_seq else "*"
            if seq != want_seq:
                bad.append("%s.gfa: segment %s has sequence %r, expected %r" % (stem, nid, seq, want_seq))
            if strip_bono(tags) != strip_bono(segs[nid][1]):
                bad.append("%s.gfa: tags of %s are %s, input had %s" % (stem, nid, strip_bono(tags), strip_bono(segs[nid][1])))
            bn = ol.bo_no_of(tags)
            if bn is None:
                bad.append("%s.gfa: segment %s does not carry exactly one BO:i and one NO:i: %s" % (stem, nid, tags))
                continue
            keys.append((bn, nid))
        for (k1, n1), (k2, n2) in zip(keys, keys[1:]):
            if not k1 < k2:
                bad.append("%s.gfa: S lines not in (BO, NO) order: %s %s is followed by %s %s" % (stem, n1, k1, n2, k2))
                break
        want_l = sorted((k, ov, tuple(sorted(t))) for k, ov, t in links if k[0] in nodes and k[2] in nodes)
        got_l = sorted((k, ov, tuple(sorted(t))) for k, ov, t in out_l)
        if want_l != got_l:
            lost = [x for x in want_l if x not in got_l]
            extra = [x for x in got_l if x not in want_l or got_l.count(x) > want_l.count(x)]
            bad.append("%s.gfa: links lost %s / invented or duplicated %s" % (stem, lost[:3], extra[:3]))
        # CSV
        rows = ol.read_csv(res.files[stem + ".csv"])
        names = [r[0] for r in rows]
        if sorted(names) != sorted(nodes):
            bad.append("%s.csv: nodes listed %s, expected every node of the component(s) exactly once" % (stem, sorted(names)[:8]))
            continue
        gfa_bono = dict((nid, bn) for bn, nid in keys)
        # role: scaffold = the 's' elements of the chain (the articulation points; for a one-segment chromosome its only node, which gets NO = 0)
        artic = {e[1] for c in chs for e in (c.elements or []) if e[0] == "s"}
        for r in rows:
            if len(r) != 6:
                bad.append("%s.csv: malformed row %s" % (stem, r))
                continue
            role = "orange" if r[0] in artic else "blue"
            if r[1] != role:
                bad.append("%s.csv: node %s has colour %s, expected %s" % (stem, r[0], r[1], role))
            if r[0] in gfa_bono and (r[4], r[5]) != tuple(str(x) for x in gfa_bono[r[0]]):
                bad.append("%s.csv: node %s has BO,NO %s,%s but the GFA says %s" % (stem, r[0], r[4], r[5], gfa_bono[r[0]]))
    return bad


# ------------------------------------------------------------------------------------------------
# (B) arbitrary GFAs through GFA.read_graph / write_gfa
# ------------------------------------------------------------------------------------------------
def make_any_gfa(rng, max_nodes=7):
    n = rng.randint(1, max_nodes)
    ids = ol.Ids(rng, rng.choice(ol.Ids.STYLES))
    nodes = [ids.new() for _ in range(n)]
    s_lines, l_lines = [], []
    for v in nodes:
        tags = []
        if rng.random() < 0.5:
            sn = rng.choice(["chr1", "h#1#c", "a:b"])  # one rank per contig name (the loader insists on that)
            tags += ["SN:Z:%s" % sn, "SO:i:%d" % rng.randint(0, 99), "SR:i:%d" % {"chr1": 0, "h#1#c": 1, "a:b": 2}[sn]]
        if rng.random() < 0.2:
            tags += ["BO:i:%d" % rng.randint(0, 20), "NO:i:%d" % rng.randint(0, 3)]
        for _ in range(rng.randint(0, 3)):
            t = ol.rand_tag(rng, used=[x[:2] for x in tags]) if rng.random() < 0.7 else rng.choice(ol.S_EXTRA)
            if t[:2] not in [x[:2] for x in tags]:
                tags.append(t)
        rng.shuffle(tags)
        seq = "*" if rng.random() < 0.15 else ol.rand_seq(rng, rng.randint(1, 6))
        s_lines.append("\t".join(["S", v, seq] + tags))
    keys = set()
    for _ in range(rng.randint(0, 2 * n + 2)):
        a, b = rng.choice(nodes), rng.choice(nodes)
        oa, ob = rng.choice("+-"), rng.choice("+-")
        k = ol.canon(a, oa, b, ob)
        if k in keys:
            continue
        keys.add(k)
        tags = []
        for _ in range(rng.choice([0, 0, 1, 2, 3])):
            t = ol.rand_tag(rng, used=[x[:2] for x in tags]) if rng.random() < 0.6 else rng.choice(ol.L_EXTRA)
            if t[:2] not in [x[:2] for x in tags]:
                tags.append(t)
        l_lines.append("\t".join(["L", a, oa, b, ob, "%dM" % rng.choice([0, 0, 0, 1, 5, 12, 250])] + tags))
    lines = s_lines + l_lines
    mode = rng.randint(0, 2)
    if mode == 1:
        rng.shuffle(lines)
    elif mode == 2:
        lines = l_lines + s_lines
    return ol.sprinkle(rng, lines, rng.choice([0, 0, 1, 3]))


def check_io(d, case):
    """GFA(lines) -> write_gfa -> independent reader"""
    from gaftools.gfa import GFA
    lines, low_memory, subset = case["lines"], case["low_memory"], case.get("subset")
    segs, links, _k = ol.parse_gfa(lines)
    sub, path = ol.write_input(d, lines)
    out = os.path.join(sub, "out.gfa")
    ol._handler()
    try:
        g = GFA(path, low_memory=low_memory)
        if subset is None:
            g.write_gfa(output_file=out)
        else:
            g.write_gfa(set_of_nodes=set(subset), output_file=out)
        text = open(out).read()
    except BaseException as e:  # noqa
        return ["load/write raised %s: %s" % (type(e).__name__, e)]
    nodes = set(segs) if subset is None else set(subset)
    out_s, out_l, kinds = ol.read_out_gfa(text)
    bad = []
    if kinds != "S" * len(out_s) + "L" * len(out_l):
        bad.append("record types in file order are %r (S lines first, then L lines, nothing else)" % kinds[:60])
    ids = [x[0] for x in out_s]
    if sorted(ids) != sorted(nodes):
        bad.append("segments lost %s / invented or duplicated %s" % (sorted(nodes - set(ids))[:5], sorted(i for i in ids if i not in nodes or ids.count(i) > 1)[:5]))
    for nid, seq, tags in out_s:
        if nid not in segs:
            continue
        want_seq = "*" if low_memory else segs[nid][0]
        if seq != want_seq:
            bad.append("segment %s has sequence %r, expected %r" % (nid, seq, want_seq))
        if sorted(tags) != sorted(segs[nid][1]):
            bad.append("tags of %s are %s, input had %s" % (nid, tags, segs[nid][1]))
    want_l = sorted((k, ov, tuple(sorted(t))) for k, ov, t in links if k[0] in nodes and k[2] in nodes)
    got_l = sorted((k, ov, tuple(sorted(t))) for k, ov, t in out_l)
    if want_l != got_l:
        bad.append("links lost %s / invented or duplicated %s" % ([x for x in want_l if x not in got_l][:3],
                                                                  [x for x in got_l if x not in want_l or got_l.count(x) > want_l.count(x)][:3]))
    if subset is None and not bad:
        try:
            g2 = GFA(out, low_memory=low_memory)
            if not g.is_equal_to(g2) or not g2.is_equal_to(g):
                bad.append("the written file loads to a graph that GFA.is_equal_to calls different from the original")
        except BaseException as e:  # noqa
            bad.append("re-loading the written file raised %s: %s" % (type(e).__name__, e))
    import shutil
    shutil.rmtree(sub, ignore_errors=True)
    return bad


CHECKS = {"order": check_order, "io": check_io}


def run(ctx):
    from rtc import defects
    d = ctx.dir("c07")
    rng = ctx.rng
    quick = ctx.quick
    for name, f in defects.for_property("C07").items():
        ok, detail = f()
        ctx.case("regression", name)
        if not ok:
            ctx.fail("regression", "repaired defect %s is back: %s" % (name, detail), {"type": "defect", "name": name})

    def do(section, kind, case, what, known=None):
        bad = CHECKS[kind](d, case)
        if bad == ["input outside the domain"]:
            return
        ctx.case(section, ol.digest(case["lines"], sorted((k, str(v)) for k, v in case.items() if k != "lines")),
                 sample={k: v for k, v in case.items() if k != "lines"})
        if bad:
            case = dict(case, type=kind)
            ctx.fail(section, "%s: %s" % (what, bad[0]), case, known_finding=known)

    # (A)
    n_a = 700 if quick else 20000
    ctx.bound("(A) order_gfa: up to %d generated chain rGFAs (1-3 chromosomes, backbone 2-15 nodes, 0-9 ears, tips, inverted links, self "
              "links; S/L tags from a pool and random well-formed tags of all SAM types, 0-3 other records sprinkled in, lines shuffled in "
              "half of the files, BO/NO pre-existing in 1/5) x {--by-chrom, complete} x {--with-sequence, without} x one random "
              "--chromosome_order (permutation of a non-empty subset of the chain-shaped chromosomes)" % n_a)
    for gi in range(n_a):
        lines, names = ol.make_chain_gfa(rng, size=rng.choice(["tiny", "small", "small", "medium"]), extra_tags=0.5, link_tags=0.5)
        lines = ol.sprinkle(rng, lines, rng.choice([0, 0, 1, 3]))
        if rng.random() < 0.2:
            lines = ol.pretagged(lines, rng, "all" if rng.random() < 0.5 else "some")
        by_name = ol.analyse(lines)[2]
        good = [n for n in names if n in by_name and by_name[n].in_domain]
        if not good:
            continue
        rng.shuffle(good)
        order = good[:rng.randint(1, len(good))]
        for by_chrom in (True, False):
            for with_seq in (False, True):
                case = {"lines": lines, "order": order, "by_chrom": by_chrom, "with_seq": with_seq}
                do("order_gfa-output", "order", case, "generated graph #%d, --chromosome_order %s%s%s" % (
                    gi, ",".join(order), " --by-chrom" if by_chrom else "", " --with-sequence" if with_seq else ""))
        if ctx.out_of_time(30 if quick else 450):
            break

    # (B)
    n_b = 3000 if quick else 100000
    ctx.bound("(B) load/write: up to %d arbitrary GFAs of 1-7 segments (4 id styles, '*' sequences, 0-6 tags per S line, BO/NO/SN/SO "
              "present or not), 0-16 links (all four orientation combinations, self links, parallel links on different sides, either "
              "spelling, 0-3 tags, overlaps 0M..250M), S/L lines in order, shuffled or L first, other record types interleaved; "
              "low_memory False and True; plus writing a union of components" % n_b)
    for gi in range(n_b):
        lines = make_any_gfa(rng)
        for low in (False, True):
            do("load-write", "io", {"lines": lines, "low_memory": low, "subset": None}, "arbitrary GFA #%d (low_memory=%s)" % (gi, low))
        segs, links, _k = ol.parse_gfa(lines)
        comps = ol.components(ol.adjacency(segs, links))
        if len(comps) > 1:
            pick = sorted(set().union(*rng.sample(comps, rng.randint(1, len(comps) - 1))))
            do("write-components", "io", {"lines": lines, "low_memory": False, "subset": pick}, "arbitrary GFA #%d, set_of_nodes=%s" % (gi, pick))
        if ctx.out_of_time(55 if quick else 800):
            break

    # (C) corner inputs that are legal GFA but which the loader is suspected to mishandle (reported under their own sections)
    ctx.bound("(C) corner sections: S-line tag whose name has a digit (x1:i:3); last field of an S / L line ending in a blank")
    base = ["S\ta\tAC\tSN:Z:chr1\tSO:i:0\tSR:i:0", "S\tb\tG\tSN:Z:chr1\tSO:i:2\tSR:i:0", "S\tc\tT\tSN:Z:chr1\tSO:i:3\tSR:i:0",
            "L\ta\t+\tb\t+\t0M", "L\tb\t+\tc\t+\t0M"]
    digit = [base[0] + "\tx1:i:3"] + base[1:]
    do("tag-name-with-digit", "io", {"lines": digit, "low_memory": False, "subset": None}, "S line with tag x1:i:3", known="gfa-tag-name-with-digit")
    do("tag-name-with-digit", "order", {"lines": digit, "order": ["chr1"], "by_chrom": True, "with_seq": True}, "order_gfa, S line with tag x1:i:3",
       known="gfa-tag-name-with-digit")
    blank_s = [base[0] + "\tcm:Z:ab "] + base[1:]
    blank_l = base[:3] + [base[3] + "\tcm:Z:q "] + base[4:]
    for nm, ls in (("S", blank_s), ("L", blank_l)):
        do("trailing-blank", "io", {"lines": ls, "low_memory": False, "subset": None}, "%s line whose last tag value ends in a blank" % nm,
           known="gfa-trailing-blank-stripped")
        do("trailing-blank", "order", {"lines": ls, "order": ["chr1"], "by_chrom": False, "with_seq": True},
           "order_gfa, %s line whose last tag value ends in a blank" % nm, known="gfa-trailing-blank-stripped")
    return ("(A) case = (generated chain rGFA, chromosome order, by-chrom?, with-sequence?) run through the real order_gfa, output parsed "
            "by an independent reader and compared with the input restricted to the requested components; (B) case = (arbitrary GFA, "
            "low_memory, node subset) through GFA()/write_gfa; distinct = distinct (file content, options)")


def replay(ctx, rec):
    c = rec["case"]
    if c.get("type") == "defect":
        from rtc import defects
        return defects.ALL[c["name"]]()
    bad = CHECKS[c["type"]](ctx.dir("replay"), c)
    return not bad, "; ".join(bad[:3]) or "output equals the input graph"
