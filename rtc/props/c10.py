"""C10 bounded stand-in: the REAL `gaftools sort --outgaf ... [--outind ...] [--bgzip]` (in-process, plus a few real CLI runs);
the run must complete and leave an index whose keys are exactly the reference contigs that occur as sn:Z: in the output
(never 'unknown') and whose two offsets are the positions of the first and of the last output record tagged with the contig.
Offsets are interpreted independently of gaftools: byte offsets for plain output, (block address << 16 | offset in block) over
an own BGZF block parser for --bgzip output; in addition the file is really sought (file.seek / pysam BGZFile.seek) and the
record read there is compared."""
import hashlib
import itertools
import os
import subprocess
import sys

from rtc import sortlib, defects
from rtc.gen import gaf_record, write_lines


def _key(g, recs, order, cfg):
    h = hashlib.sha1()
    for l in g.lines():
        h.update(l.encode() + b"\n")
    for i in order:
        h.update("\t".join(recs[i][3]).encode() + b"\n")
    return (h.hexdigest(), cfg)


def contig_of(line):
    f = line.split("\t")
    if len(f) < 15 or not f[-2].startswith("sn:Z:"):
        return None
    return f[-2][5:]


def check_index(out, idx, bgzip_out):
    """None if the index `idx` (unpickled object) is right for the sorted file `out`, else a one-line explanation"""
    lines = sortlib.split_records(sortlib.read_text_independent(out))
    if lines is None:
        return "sorted file does not end with a newline"
    pos, p = [], 0
    for l in lines:
        pos.append(p)
        p += len(l.encode()) + 1
    first, last = {}, {}
    for j, l in enumerate(lines):
        c = contig_of(l)
        if c is None:
            return "output record %d carries no sn:Z: tag in the last-but-one field: %r" % (j, l[-60:])
        first.setdefault(c, j)
        last[c] = j
    present = sorted(c for c in first if c != "unknown")
    if not isinstance(idx, dict):
        return "index is a %s, not a dict" % type(idx).__name__
    if "unknown" in idx:
        return "index has an entry for 'unknown': %r" % (idx["unknown"],)
    if sorted(idx) != present:
        return "index keys %s but the contigs tagged in the output are %s" % (sorted(idx), present)
    if bgzip_out:
        blocks = {co: (us, data) for co, us, data in sortlib.bgzf_blocks(out)}
    for c in present:
        e = idx[c]
        if not (isinstance(e, (list, tuple)) and len(e) == 2 and all(isinstance(x, int) and not isinstance(x, bool) for x in e)):
            return "entry of %s is %r, not two offsets" % (c, e)
        gpos = []
        for which, off, j in (("first", e[0], first[c]), ("last", e[1], last[c])):
            if bgzip_out:
                co, uo = off >> 16, off & 0xFFFF
                if co not in blocks or uo > len(blocks[co][1]):
                    return "%s offset %d of %s (block address %d, in-block offset %d) does not point into a BGZF block of the output" % (which, off, c, co, uo)
                gp = blocks[co][0] + uo
            else:
                gp = off
            gpos.append(gp)
            if gp != pos[j]:
                at = pos.index(gp) if gp in pos else None
                return ("%s offset of %s is %d = position %d of the output, which is %s; the %s record tagged sn:Z:%s is record %d at position %d"
                        % (which, c, off, gp, "the start of record %d (%s)" % (at, contig_of(lines[at])) if at is not None else "not the start of a record", which, c, j, pos[j]))
            # really seek there
            if bgzip_out:
                from pysam import libcbgzf
                r = libcbgzf.BGZFile(out, "rb")
                r.seek(off)
                got = r.readline()
                r.close()
                got = got.decode().rstrip("\n")
            else:
                with open(out, "r") as r:
                    r.seek(off)
                    got = r.readline().rstrip("\n")
            if got != lines[j]:
                return "seeking the sorted file to the %s offset %d of %s reads %r, not the %s record of that contig" % (which, off, c, got[:80], which)
        outside = [j for j, l in enumerate(lines) if contig_of(l) == c and not (gpos[0] <= pos[j] <= gpos[1])]
        if outside:
            return "record %d of %s lies outside [first, last] = %s" % (outside[0], c, gpos)
    return None


def check_one(ctx, section, g, recs, order, bgzf_in, bgzip_out, custom_ind, d, tag="", nontrivial=True):
    cfg = "bgzf_in=%s,bgzip_out=%s,outind=%s" % (bgzf_in, bgzip_out, custom_ind)
    inp0 = "\t".join(recs[order[0]][3])
    wanted = sortlib.expected_tagged(g, recs, order)
    kinds = sorted({contig_of(l) for l in wanted})
    ctx.case(section, _key(g, recs, order, cfg), nontrivial=nontrivial,
             sample={"n_records": len(order), "first_record": inp0, "contigs_by_oracle": kinds, "config": cfg})
    case = lambda: sortlib.case_dict(g, recs, order, bgzf_in=bgzf_in, bgzip_out=bgzip_out, custom_ind=custom_ind)  # noqa
    outind = os.path.join(d, "idx%s.custom" % tag) if custom_ind else None
    default_ind = os.path.join(d, "out%s.gaf" % tag) + (".gz" if bgzip_out else "") + ".gsi"
    for p in (outind, default_ind):
        if p and os.path.exists(p):
            os.unlink(p)
    label = "sort --outgaf (%s, %d records, contigs %s)" % (cfg, len(order), kinds)
    try:
        _lines, idx, out = sortlib.run_sort(d, g, recs, order, bgzf_in=bgzf_in, bgzip_out=bgzip_out, outind=outind, tag=tag)
    except BaseException as e:  # noqa
        ctx.fail(section, "%s does not complete: %s: %s" % (label, type(e).__name__, e), case())
        return False
    ipath = outind or default_ind
    if not os.path.exists(ipath) or idx is None:
        ctx.fail(section, "%s wrote no index at %s" % (label, os.path.basename(ipath)), case())
        return False
    what = check_index(out, idx, bgzip_out)
    if what:
        ctx.fail(section, "%s: %s" % (label, what), case())
        return False
    return True


def run_cli(ctx, section, g, recs, order, bgzf_in, bgzip_out, custom_ind, d):
    """the same through the real command line (argument parsing, exit code)"""
    import pickle
    cfg = "cli,bgzf_in=%s,bgzip_out=%s,outind=%s" % (bgzf_in, bgzip_out, custom_ind)
    inp = ["\t".join(recs[i][3]) for i in order]
    gfa, gaf = os.path.join(d, "g.gfa"), os.path.join(d, "in.gaf" + (".gz" if bgzf_in else ""))
    out = os.path.join(d, "o.gaf" + (".gz" if bgzip_out else ""))
    ipath = os.path.join(d, "my.index") if custom_ind else out + ".gsi"
    g.write(gfa)
    write_lines(gaf, inp, bgzf=bgzf_in)
    ctx.case(section, _key(g, recs, order, cfg), sample={"n_records": len(inp), "config": cfg})
    args = [sys.executable, "-m", "gaftools", "sort", gaf, gfa, "--outgaf", out] + (["--bgzip"] if bgzip_out else []) + (["--outind", ipath] if custom_ind else [])
    env = dict(os.environ, PYTHONPATH=os.pathsep.join(p for p in sys.path if p), PYTHONWARNINGS="ignore")
    r = subprocess.run(args, capture_output=True, env=env, timeout=120)
    case = sortlib.case_dict(g, recs, order, bgzf_in=bgzf_in, bgzip_out=bgzip_out, custom_ind=custom_ind, mode="cli")
    if r.returncode != 0:
        ctx.fail(section, "gaftools sort --outgaf (%s) exits with %d: %s" % (cfg, r.returncode, r.stderr.decode()[-200:].replace("\n", " | ")), case)
        return False
    if not os.path.exists(ipath):
        ctx.fail(section, "gaftools sort --outgaf (%s) wrote no index at %s" % (cfg, os.path.basename(ipath)), case)
        return False
    what = check_index(out, pickle.load(open(ipath, "rb")), bgzip_out)
    if what:
        ctx.fail(section, "gaftools sort --outgaf (%s): %s" % (cfg, what), case)
        return False
    return True


def run(ctx):
    rng = ctx.rng
    for name, f in sorted(defects.for_property("C10").items()):
        ctx.case("regression", name)
        try:
            ok, detail = f()
        except BaseException as e:  # noqa
            ok, detail = False, "raised %s: %s" % (type(e).__name__, e)
        if not ok:
            ctx.fail("regression", "%s: %s" % (name, detail), {"type": "defect", "name": name})
    # ---- 1. fixed graph, exhaustive sequences over a pool of records ------------------------------------------------------------
    g = sortlib.fixed_graph()
    pool_walks = [[("a1", ">"), ("a2", ">")], [("a3", "<"), ("b2", "<")], [("b1", ">"), ("b2", ">")], [("b2", "<")], [("c1", ">"), ("c3", ">")], [("c2", "<")]]
    assert all(g.is_walk(w) for w in pool_walks)
    pool = [(w, 0, 1, gaf_record(g, w, 0, 1, name="p%d" % i)) for i, w in enumerate(pool_walks)]
    maxlen = 3 if ctx.quick else 4
    ctx.bound("exhaustive: fixed 2-chromosome tagged graph; every sequence of 1..%d records (repetition allowed) from a pool of 6 records "
              "(2 on chr1, 2 off the reference = 'unknown', 2 on chr2) x plain / --bgzip output; every single-walk file of the graph (walks <= 2 steps)" % maxlen)
    d = ctx.dir("c10x")
    for n in range(1, maxlen + 1):
        for seq in itertools.product(range(len(pool)), repeat=n):
            for bo in (False, True):
                check_one(ctx, "exhaustive-sequences", g, pool, seq, False, bo, False, d, tag="x")
    for w in g.walks(2):
        one = [(w, 0, 1, gaf_record(g, w, 0, 1, name="r"))]
        for bo in (False, True):
            check_one(ctx, "exhaustive-single-record", g, one, [0], False, bo, bo, d, tag="y")

    # ---- 2. random ----------------------------------------------------------------------------------------------------------
    sizes = [1, 2, 3, 5, 8, 20, 60, 200]
    n_rounds = 25 if ctx.quick else 2000
    ctx.bound("random: %d rounds x sizes %s, 1-3 chromosomes, random tagged rGFAs, files in which every alignment touches a reference node / "
              "at least one touches none / unconstrained, optional fields none..rich, plain/BGZF input x plain/--bgzip output x default .gsi / --outind" % (n_rounds, sizes))
    budget = 45 if ctx.quick else 600
    for rnd in range(n_rounds):
        for n in sizes:
            ref_mode = ["all", "some_unknown", "any"][(rnd + n) % 3]
            gg, recs = sortlib.make_case2(rng, n, n_chrom=rng.randint(1, 3), untagged_frac=rng.choice([0.25, 0.0, 0.6]), ref_mode=ref_mode,
                                          tag_mode=rng.choice(["mixed", "cg", "rich"]), dup_frac=rng.choice([0.0, 0.1]))
            d = ctx.dir("c10r")
            order = list(range(n))
            for rep in range(2 if n > 1 else 1):
                for bo in (False, True):
                    check_one(ctx, "random-" + ref_mode, gg, recs, order, rng.random() < 0.3, bo, rng.random() < 0.3, d)
                rng.shuffle(order)
        if ctx.out_of_time(budget):
            break

    # ---- 3. multi-block BGZF output -----------------------------------------------------------------------------------------------
    n_big = 2 if ctx.quick else 8
    ctx.bound("multi-block: %d case(s) of 300-500 padded records (> 64 KiB, >= 2 BGZF data blocks in the output), 1-3 chromosomes, also as plain output" % n_big)
    for i in range(n_big):
        n = rng.randint(300, 500)
        ref_mode = ["all", "some_unknown"][i % 2]
        gg, recs = sortlib.make_case2(rng, n, n_chrom=1 + (i + 2) % 3, ref_mode=ref_mode, tag_mode="mixed", pad=rng.randint(200, 300))
        d = ctx.dir("c10b")
        order = list(range(n))
        rng.shuffle(order)
        if check_one(ctx, "multi-block-" + ref_mode, gg, recs, order, bool(i % 2), True, False, d):
            nb = len(sortlib.bgzf_blocks(os.path.join(d, "out.gaf.gz")))
            assert nb > 2, "generator: big case is not multi-block"
        check_one(ctx, "large-plain-" + ref_mode, gg, recs, order, bool(i % 2), False, True, d)

    # ---- 3b. one contig, every alignment on a reference node: ONE run of same-contig records that spans every BGZF block of the output, so the
    # last-record offset of the contig is taken several block boundaries after the first one (added after seeded change C10-7: offsets
    # advanced by byte counts inside a run of one contig are wrong from the first block boundary on)
    n_run = 1 if ctx.quick else 3
    ctx.bound("long-run: %d case(s) of 420-520 padded records of ONE contig, all touching a reference node (one same-contig run across >= 2 BGZF block boundaries), BGZF and plain output" % n_run)
    for i in range(n_run):
        n = rng.randint(420, 520)
        gg, recs = sortlib.make_case2(rng, n, n_chrom=1, ref_mode="all", tag_mode="mixed", pad=rng.randint(250, 320))
        d = ctx.dir("c10r")
        order = list(range(n))
        rng.shuffle(order)
        if check_one(ctx, "long-run-bgzf", gg, recs, order, bool(i % 2), True, bool(i % 2), d):
            nb = len(sortlib.bgzf_blocks(os.path.join(d, "out.gaf.gz")))
            assert nb > 3, "generator: long-run case does not span three data blocks"
        check_one(ctx, "long-run-plain", gg, recs, order, bool(i % 2), False, False, d)

    # ---- 4. the real command line ------------------------------------------------------------------------------------------------
    n_cli = 3 if ctx.quick else 16
    ctx.bound("cli: %d real `python -m gaftools sort --outgaf` runs (exit code, default and --outind index path, --bgzip)" % n_cli)
    for i in range(n_cli):
        n = rng.choice([1, 4, 30])
        ref_mode = ["all", "some_unknown", "any"][i % 3]
        gg, recs = sortlib.make_case2(rng, n, n_chrom=rng.randint(1, 3), ref_mode=ref_mode, tag_mode="mixed")
        run_cli(ctx, "cli-" + ref_mode, gg, recs, list(range(n)), i % 4 == 3, i % 2 == 1, i % 3 == 1, ctx.dir("c10c"))
    return ("one case = one run of the real sort with an output path on (tagged rGFA, record sequence, configuration); the unpickled index must "
            "have exactly the non-'unknown' sn:Z: values of the output as keys and [offset of first, offset of last record of the contig] as "
            "values, where offsets are decoded independently (bytes / own BGZF block table) and additionally sought with file.seek / "
            "pysam BGZFile.seek; distinct = distinct (graph, record sequence, configuration)")


def replay(ctx, rec):
    import shutil
    c = rec["case"]
    if c.get("type") == "defect":
        ok, detail = defects.for_property("C10")[c["name"]]()
        return ok, detail
    g, recs = sortlib.case_from_dict(c)
    sub = type(ctx)(ctx.pid, "quick", 0, ctx.dir("sub"))
    d = ctx.dir("replay")
    if c.get("mode") == "cli":
        ok = run_cli(sub, "replay", g, recs, c["order"], c["bgzf_in"], c["bgzip_out"], c["custom_ind"], d)
    else:
        ok = check_one(sub, "replay", g, recs, c["order"], c["bgzf_in"], c["bgzip_out"], c["custom_ind"], d)
    shutil.rmtree(sub.tmp, ignore_errors=True)
    return ok, (sub.failures[0]["what"] if sub.failures else "index keys and offsets are right")
