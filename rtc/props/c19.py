"""C19 bounded stand-in: the REAL `gaftools stat [--cigar]` (gaftools.cli.stat.run_stat in-process, report written with -o) on
GAF files generated line by line; every figure of the report is compared with an independent recomputation from the
definitions (exact rational arithmetic, own line parser), and the report must be the same for every order of the records.

Floating point: the three averages are recomputed as exact fractions; the printed value must be the correctly rounded decimal.
Only when the exact value lies within 1e-9 of a rounding tie both neighbouring decimals are accepted (counted and reported in
the rule text); an order-dependent report is tolerated only in that situation (also counted)."""
import contextlib
import io
import itertools
import os
import re
from fractions import Fraction

from rtc import defects
from rtc.gen import write_lines

INT_LABELS = ["Total alignments", "Primary", "Secondary", "Reads with at least one alignment", "Total aligned bases"]
FLOAT_LABELS = [("Average mapping quality", 1), ("Average highest sequence identity", 3), ("Average highest map ratio", 3)]
CIGAR_LABELS = [("Total deletion regions", "D"), ("Total insertion regions", "I"), ("Total substitution regions", "X"), ("Total match regions", "=")]
PERFECT = "Total perfect alignments (exact match)"
STATS = {"tie_figures": 0, "order_dependent_last_digit": 0}


# ---------------------------------------------------------------- independent recomputation -----------------------------------------
def cigar_runs(cg):
    """[(length, op)] of a CIGAR string, own tokenizer"""
    runs = re.findall(r"(\d+)([^\d])", cg)
    assert "".join(a + b for a, b in runs) == cg, cg
    return [(int(a), b) for a, b in runs]


def recompute(lines):
    total = len(lines)
    primary = []
    for l in lines:
        f = l.split("\t")
        tp = [x[5:] for x in f[12:] if x[:5] == "tp:A:"]
        secondary = (len(tp) > 0 and tp[0] != "P") or int(f[11]) <= 0
        if not secondary:
            primary.append(f)
    ident, ratio = {}, {}
    for f in primary:
        name = f[0]
        i = Fraction(int(f[9]), int(f[10]))
        r = Fraction(int(f[3]) - int(f[2]), int(f[1]))
        ident[name] = max(ident.get(name, i), i)
        ratio[name] = max(ratio.get(name, r), r)
    v = {"Total alignments": total, "Primary": len(primary), "Secondary": total - len(primary),
         "Reads with at least one alignment": len(ident), "Total aligned bases": sum(int(f[9]) for f in primary)}
    fl = {"Average mapping quality": Fraction(sum(int(f[11]) for f in primary), total)}  # what the tool prints: sum over primary / ALL records
    if ident:
        fl["Average highest sequence identity"] = sum(ident.values()) / len(ident)
        fl["Average highest map ratio"] = sum(ratio.values()) / len(ratio)
    cg = {op: [0, 0] for _, op in CIGAR_LABELS}
    perfect = 0
    for f in primary:
        c = [x[5:] for x in f[12:] if x[:5] == "cg:Z:"]
        runs = cigar_runs(c[0]) if c else []
        if len(runs) == 1:
            perfect += 1
        for n, op in runs:
            if op in cg:
                cg[op][0] += 1
                if n >= 50:
                    cg[op][1] += 1
    return v, fl, cg, perfect


def accepted(fr, nd):
    """(set of acceptable printed strings, is_near_tie) for the exact value fr rounded to nd decimals"""
    x = fr * 10 ** nd
    lo = x.numerator // x.denominator
    frac = x - lo
    if abs(frac - Fraction(1, 2)) < Fraction(1, 10 ** 6):
        return {repr(float(Fraction(lo, 10 ** nd))), repr(float(Fraction(lo + 1, 10 ** nd)))}, True
    k = lo if frac < Fraction(1, 2) else lo + 1
    return {repr(float(Fraction(k, 10 ** nd)))}, False


def printed_single_division(fr, nd):
    """the one string round(a / b, nd) must print when a / b is a single correctly rounded division of integers (fr = a/b exactly):
    the double nearest to fr, rounded half-even on its exact binary value"""
    x = Fraction(float(fr)) * 10 ** nd
    lo = x.numerator // x.denominator
    frac = x - lo
    k = lo + 1 if (frac > Fraction(1, 2) or (frac == Fraction(1, 2) and lo % 2 == 1)) else lo
    return repr(float(Fraction(k, 10 ** nd)))


def parse_report(text):
    d = {}
    for l in text.splitlines():
        l = l.strip()
        if ": " in l:
            k, v = l.split(": ", 1)
            if k in d:
                raise ValueError("label %r printed twice" % k)
            d[k] = v
    return d


def verdict(lines, cigar, text):
    """(None | explanation, number of float figures that needed the tie tolerance)"""
    try:
        rep = parse_report(text)
    except ValueError as e:
        return str(e), 0
    v, fl, cg, perfect = recompute(lines)
    for k in INT_LABELS:
        if k not in rep:
            return "report has no line %r" % k, 0
        if rep[k] != str(v[k]):
            return "%s: printed %s, recomputed %d" % (k, rep[k], v[k]), 0
    if int(rep["Primary"]) + int(rep["Secondary"]) != int(rep["Total alignments"]):
        return "primary %s + secondary %s != total %s" % (rep["Primary"], rep["Secondary"], rep["Total alignments"]), 0
    ties = 0
    for k, nd in FLOAT_LABELS:
        if k not in rep:
            return "report has no line %r" % k, 0
        if k not in fl:
            continue  # no primary record: the average over an empty set of reads is not defined by the property; the line must exist, any value
        acc, tie = accepted(fl[k], nd)
        if k == "Average mapping quality":
            acc, tie = {printed_single_division(fl[k], nd)}, False  # integer sums: no order or accumulation effects, exact prediction
        if rep[k] not in acc:
            return "%s: printed %s, recomputed %s = %s (%.6f)" % (k, rep[k], fl[k], "/".join(sorted(acc)), float(fl[k])), 0
        ties += tie
    if cigar:
        for k, op in CIGAR_LABELS:
            if k not in rep:
                return "report (--cigar) has no line %r" % k, 0
            want = "%d (%d >50bps)" % tuple(cg[op])
            if rep[k] != want:
                return "%s: printed %s, recomputed %s" % (k, rep[k], want), 0
        if PERFECT not in rep:
            return "report (--cigar) has no line %r" % PERFECT, 0
        if rep[PERFECT] != str(perfect):
            return "%s: printed %s, recomputed %d (primary records whose CIGAR is a single run)" % (PERFECT, rep[PERFECT], perfect), 0
    return None, ties


def same_report(lines, a, b):
    """reports of two orders of the same records: 'same' | 'tie' (differ only in float figures that sit on a rounding tie) | explanation"""
    if a == b:
        return "same"
    try:
        ra, rb = parse_report(a), parse_report(b)
    except ValueError as e:
        return str(e)
    _v, fl, _cg, _p = recompute(lines)
    diff = [k for k in set(ra) | set(rb) if ra.get(k) != rb.get(k)]
    if not diff:
        return "reports differ outside the figures (line order or unlabelled text)"
    for k in diff:
        nd = dict(FLOAT_LABELS).get(k)
        if nd is None or k not in fl:
            return "%s depends on the record order: %s vs %s" % (k, ra.get(k), rb.get(k))
        acc, tie = accepted(fl[k], nd)
        if not (tie and ra.get(k) in acc and rb.get(k) in acc):
            return "%s depends on the record order: %s vs %s" % (k, ra.get(k), rb.get(k))
    return "tie"


# ---------------------------------------------------------------- running the real tool ---------------------------------------------
def run_tool(d, lines, cigar, bgzf=False):
    from gaftools.cli.stat import run_stat
    gaf = os.path.join(d, "in.gaf" + (".gz" if bgzf else ""))
    out = os.path.join(d, "report.txt")
    if os.path.exists(out):
        os.unlink(out)
    write_lines(gaf, lines, bgzf=bgzf)
    with contextlib.redirect_stdout(io.StringIO()):
        run_stat(gaf, cigar_stat=cigar, output=out)
    with open(out) as f:
        return f.read()


def evaluate(ctx, section, d, lines, cigar, bgzf=False, base=None, nontrivial=True):
    """one run + comparison with the recomputation (+ with the report `base` = (lines, text) of another order).  Returns the report or None"""
    ctx.case(section, (tuple(lines), cigar, bgzf), nontrivial=nontrivial, sample={"gaf": lines[:4], "n_records": len(lines), "cigar": cigar})
    case = {"lines": list(lines), "cigar": cigar, "bgzf": bgzf}
    try:
        text = run_tool(d, lines, cigar, bgzf)
    except BaseException as e:  # noqa
        ctx.fail(section, "gaftools stat%s on %d records (first %r) raised %s: %s" % (" --cigar" if cigar else "", len(lines), lines[0][:50], type(e).__name__, e), case)
        return None
    what, ties = verdict(lines, cigar, text)
    if what:
        ctx.fail(section, "gaftools stat%s on %d records (first %r): %s" % (" --cigar" if cigar else "", len(lines), lines[0][:50], what), case)
        return None
    if ties:
        STATS["tie_figures"] += ties
    if base is not None:
        s = same_report(lines, base[1], text)
        if s == "tie":
            STATS["order_dependent_last_digit"] += 1
        elif s != "same":
            case["base"] = list(base[0])
            ctx.fail(section + "-order", "report of gaftools stat%s changes when the %d records are reordered: %s" % (" --cigar" if cigar else "", len(lines), s), case)
    return text


# ---------------------------------------------------------------- generators --------------------------------------------------------
def rec(name, qlen, qs, qe, matches, block, mapq, tags=(), path=">s1>s2", strand="+"):
    return "\t".join([name, str(qlen), str(qs), str(qe), strand, path, "100", "3", str(3 + min(block, 90)), str(matches), str(block), str(mapq)] + list(tags))


POOL = [
    rec("r1", 20, 0, 10, 10, 20, 60, ["tp:A:P", "cg:Z:10="]),
    rec("r1", 20, 0, 20, 19, 20, 1, ["NM:i:1", "cg:Z:5=1X50D3="]),
    rec("r1", 20, 0, 20, 20, 20, 60, ["tp:A:S", "cg:Z:50I"]),              # secondary: would raise both maxima of r1 if counted
    rec("r2", 30, 0, 30, 30, 30, 0, ["tp:A:P", "cg:Z:49=51X"]),            # MAPQ 0
    rec("r2", 30, 5, 15, 3, 7, 60, ["cg:Z:50=49D51I", "tp:A:P"]),
    rec("r3", 8, 0, 8, 8, 8, 0, ["tp:A:I"]),
    rec("r3", 8, 2, 4, 5, 8, 255, []),                                     # no optional field at all
    rec("r1", 20, 4, 19, 7, 9, 30, ["zz:Z:tp:A:S", "ts:A:S", "cg:Z:2=1I2=1D2=50X49I"]),
]

LENS = [1, 1, 2, 3, 7, 12, 49, 50, 51, 100, 1234]


def rand_cigar(rng):
    n = rng.choice([1, 1, 2, 3, 5, 9])
    ops, prev = [], None
    for _ in range(n):
        op = rng.choice([o for o in "==XIDM" if o != prev])
        prev = op
        ops.append("%d%s" % (rng.choice(LENS), op))
    return "".join(ops)


def rand_file(rng, n, n_reads):
    names = ["read%d" % i for i in range(n_reads)]
    qlens = {nm: rng.choice([1, 7, 100, 333, 4096]) for nm in names}
    lines = []
    for i in range(n):
        nm = rng.choice(names)
        ql = qlens[nm]
        qs = rng.randint(0, ql - 1)
        qe = rng.randint(qs + 1, ql)
        block = rng.choice([1, 3, 7, 9, 10, 64, 100, 999])
        matches = rng.randint(0, block)
        mapq = rng.choice([0, 0, 1, 13, 60, 60, 60, 255])
        tags = []
        tp = rng.choice([None, "P", "P", "P", "S", "I"])
        if tp:
            tags.append("tp:A:" + tp)
        if rng.random() < 0.4:
            tags.append(rng.choice(["NM:i:3", "zz:Z:tp:A:S", "ts:A:S", "AS:i:-7", "dv:f:0.01", "tq:A:P", "xx:Z:a b"]))
        if rng.random() < 0.85:
            tags.append("cg:Z:" + rand_cigar(rng))
        rng.shuffle(tags)
        lines.append(rec(nm, ql, qs, qe, matches, block, mapq, tags, path=rng.choice([">s1", "<s2>s3", ">s1<s4>s2"]), strand=rng.choice("+-")))
    return lines  # files with no primary record at all are part of the domain ("any mix of tp:A ..., mapping qualities including 0")


def is_secondary(l):
    f = l.split("\t")
    tp = [x[5:] for x in f[12:] if x[:5] == "tp:A:"]
    return (len(tp) > 0 and tp[0] != "P") or int(f[11]) <= 0


def run(ctx):
    rng = ctx.rng
    STATS.update(tie_figures=0, order_dependent_last_digit=0)
    for name, f in sorted(defects.for_property("C19").items()):
        ctx.case("regression", name)
        try:
            ok, detail = f()
        except BaseException as e:  # noqa
            ok, detail = False, "raised %s: %s" % (type(e).__name__, e)
        if not ok:
            ctx.fail("regression", "%s: %s" % (name, detail), {"type": "defect", "name": name})
    d = ctx.dir("c19")
    # ---- 1. exhaustive: every sequence of <= L records of a fixed pool ---------------------------------------------------------------
    L = 3 if ctx.quick else 4
    ctx.bound("exhaustive: every sequence of 1..%d records (with repetition, hence every order of every multiset) from a fixed pool of %d records "
              "(3 reads; tp:A:P/S/I/absent; MAPQ 0/1/30/60/255; CIGAR runs of 49/50/51; decoy fields such as zz:Z:tp:A:S), files without any "
              "primary record included, with and without --cigar" % (L, len(POOL)))
    by_multiset = {}
    for n in range(1, L + 1):
        for seq in itertools.product(range(len(POOL)), repeat=n):
            lines = [POOL[i] for i in seq]
            for cigar in (False, True):
                k = (tuple(sorted(seq)), cigar)
                text = evaluate(ctx, "exhaustive", d, lines, cigar, base=by_multiset.get(k))
                if text is not None and k not in by_multiset:
                    by_multiset[k] = (lines, text)
    # ---- 2. random files, all permutations up to 5 records ----------------------------------------------------------------------------
    n_small = 12 if ctx.quick else 500
    ctx.bound("random small: %d files of 1-5 records over 1-3 reads x all permutations (<= 120) x {plain, --cigar}; every 4th file BGZF" % n_small)
    for i in range(n_small):
        n = 1 + i % 5
        lines = rand_file(rng, n, rng.randint(1, 3))
        for cigar in (False, True):
            base = None
            for perm in itertools.permutations(range(n)):
                pl = [lines[j] for j in perm]
                text = evaluate(ctx, "random-small", d, pl, cigar, bgzf=(i % 4 == 3), base=base)
                if base is None and text is not None:
                    base = (pl, text)
        if ctx.out_of_time(40 if ctx.quick else 400):
            break
    # ---- 3. larger files, seeded shuffles ---------------------------------------------------------------------------------------------
    sizes = [6, 10, 25, 60, 150, 300]
    n_rounds = 6 if ctx.quick else 350
    n_shuf = 4 if ctx.quick else 8
    ctx.bound("random large: %d rounds x sizes %s records over 1..n/2 reads x %d seeded shuffles (+ the reversed order) x {plain, --cigar}; "
              "every 5th file BGZF" % (n_rounds, sizes, n_shuf))
    for rnd in range(n_rounds):
        for n in sizes:
            lines = rand_file(rng, n, rng.randint(1, max(1, n // 2)))
            orders = [list(lines), list(reversed(lines))]
            for _ in range(n_shuf):
                p = list(lines)
                rng.shuffle(p)
                orders.append(p)
            for cigar in (False, True):
                base = None
                for oi, pl in enumerate(orders):
                    text = evaluate(ctx, "random-large", d, pl, cigar, bgzf=(rnd % 5 == 4 and oi < 2), base=base)
                    if base is None and text is not None:
                        base = (pl, text)
        if ctx.out_of_time(70 if ctx.quick else 800):
            break
    return ("one case = one run of the real `gaftools stat [--cigar] -o` on a generated GAF (record sequence); every printed figure must equal the "
            "recomputation from the definitions (exact fractions; secondary = tp:A other than P or MAPQ <= 0; per-read maxima over primary records; "
            "CIGAR run counts, >= 50 variants, single-run = perfect; mapping quality = sum over primary / all records as the tool defines it) and the "
            "report must be identical for all orders of the same records; distinct = distinct (record sequence, --cigar, compression). "
            "In this run %d printed averages sat on an exact rounding tie (either neighbouring decimal accepted) and %d reports differed between "
            "orders in the last digit of such a figure (tolerated)" % (STATS["tie_figures"], STATS["order_dependent_last_digit"]))


def replay(ctx, rec_):
    import shutil
    c = rec_["case"]
    if c.get("type") == "defect":
        return defects.for_property("C19")[c["name"]]()
    sub = type(ctx)(ctx.pid, "quick", 0, ctx.dir("sub"))
    d = ctx.dir("replay")
    base = None
    if c.get("base"):
        try:
            base = (c["base"], run_tool(d, c["base"], c["cigar"], c.get("bgzf", False)))
        except BaseException as e:  # noqa
            return False, "raised %s: %s" % (type(e).__name__, e)
    evaluate(sub, "replay", d, c["lines"], c["cigar"], c.get("bgzf", False), base=base)
    shutil.rmtree(sub.tmp, ignore_errors=True)
    return not sub.failures, (sub.failures[0]["what"] if sub.failures else "all figures equal the recomputation")
