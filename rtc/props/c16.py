"""C16 bounded stand-in: optional fields survive parsing and re-serialisation verbatim.

Records with optional fields over the whole SAM/GAF grammar are pushed through every place where the REAL gaftools
re-emits a parsed record: gaftools.gaf.GAF(...).read_file() + str(alignment) (unit level), `view -n`, `view -r`,
`view --format stable|unstable` (whole file and combined with -n) and `realign`.  The oracle is the identity on the
TAB-separated fields up to the documented exceptions (read name cut at the first blank, ds:Z dropped, CIGAR value free
where a conversion / realignment rewrites it, columns that are being converted).  Repeated TAG:TYPE fields are a
recorded finding and live in their own section (`repeated-tags`, reported with known_finding="repeated-tag")."""
import itertools
import os

from rtc import taglib as T
from rtc import defects
from rtc.gen import make_rgfa, write_lines, gaf_record

BASE = ["q", "10", "0", "10", "+", ">r1>r2", "12", "1", "11", "9", "10", "60"]
KF = "repeated-tag"


# ---- comparison (independent oracle) ---------------------------------------------------------------
def compare(inp, got, mode):
    """inp / got: one record each as field lists. Returns a problem text or None."""
    exp = T.expect_reemit(inp)
    if mode == "exact":
        return T.describe_diff(exp, got)
    if len(got) < 12:
        return "output has %d columns: %r" % (len(got), got)
    fixed = {"convert": (0, 1, 2, 3, 9, 10, 11), "realign": (0, 1, 2, 3, 4, 5, 6, 7, 8, 11)}[mode]
    for i in fixed:
        if exp[i] != got[i]:
            return "column %d is %r, input has %r" % (i + 1, got[i], exp[i])
    eo, go = T.mask_cg(exp[12:]), T.mask_cg(got[12:])
    if eo == go:
        return None
    if mode == "realign" and "cg:Z:<cigar>" not in eo and go == eo + ["cg:Z:<cigar>"] and len(got[-1]) > 5 \
            and int(exp[3]) - int(exp[2]) <= 60000:
        # realign creates the CIGAR of a record that had none - a real (non-empty) one, and only for a record it does realign: a record
        # beyond 60000 read bases is copied, so a cg:Z: appearing there is an invented field (tightened after seeded change C16-6)
        return None
    return T.describe_diff(exp[:12] + eo, exp[:12] + go)


def recorded_finding_form(fields):
    """the behaviour written down in known_findings.json 'repeated-tag': a later field with the TAG:TYPE of an earlier one is
    dropped; for cg:Z the LAST value is printed at the place of the first"""
    out, seen, last_cg = list(fields[:12]), set(), None
    for f in fields[12:]:
        if f.startswith("cg:Z:"):
            last_cg = f
        if f[:5] in seen:
            continue
        seen.add(f[:5])
        out.append(f)
    return [last_cg if f.startswith("cg:Z:") else f for f in out]


def mode_of(case):
    return {"unit": "exact", "view-select": "convert" if case.get("format") else "exact", "view-format": "convert", "realign": "realign"}[case["kind"]]


def compare_files(inp_lines, out_lines, mode, by_name=False):
    """-> list of (index of the input record, problem, output fields)"""
    probs = []
    if by_name:
        idx = {T.cut_name(l.split("\t")[0]): i for i, l in enumerate(inp_lines)}
        for o in out_lines:
            got = o.split("\t")
            i = idx.get(got[0])
            if i is None:
                probs.append((-1, "output record %r has a read name that no input record has" % o, got))
                continue
            p = compare(inp_lines[i].split("\t"), got, mode)
            probs.append((i, p, got))
        return probs
    if len(inp_lines) != len(out_lines):
        return [(-1, "%d records in, %d records out" % (len(inp_lines), len(out_lines)), None)]
    return [(i, compare(a.split("\t"), b.split("\t"), mode), b.split("\t")) for i, (a, b) in enumerate(zip(inp_lines, out_lines))]


# ---- one function per way of driving the real code; each takes a JSON-able case ------------------------
def drive(d, case):
    """runs the real code on the case, returns (list of (input index, problem or None))"""
    kind = case["kind"]
    lines = case["gaf"]
    gaf = os.path.join(d, "in.gaf" + (".gz" if case.get("bgzf") else ""))
    for p in (gaf, gaf + ".gvi"):
        if os.path.exists(p):
            os.unlink(p)
    write_lines(gaf, lines, bgzf=bool(case.get("bgzf")))
    out = os.path.join(d, "out.gaf")
    if kind == "unit":
        return compare_files(lines, T.real_str_all(gaf), "exact")
    gfa = os.path.join(d, "g.gfa")
    with open(gfa, "w") as f:
        f.write("\n".join(case["gfa"]) + "\n")
    if kind == "view-select":  # view -n / -r, optionally with --format
        T.real_index(gaf, gfa)
        got = T.real_view(gaf, out, gfa=gfa if case.get("format") else None, fmt=case.get("format"),
                          nodes=case.get("nodes", ()), regions=case.get("regions", ()))
        return compare_files(lines, got, "convert" if case.get("format") else "exact", by_name=True)
    if kind == "view-format":
        got = T.real_view(gaf, out, gfa=gfa, fmt=case["format"])
        return compare_files(lines, got, "convert")
    if kind == "realign":
        fa = os.path.join(d, "reads.fa")
        T.write_fasta(fa, case["reads"])
        got = T.real_realign(gaf, gfa, fa, out)
        return compare_files(lines, got, "realign")
    raise ValueError(kind)


def evaluate(ctx, section, case, kf=None, d=None):
    d = d or ctx.dir("c16")
    try:
        res = drive(d, case)
    except BaseException as e:  # noqa
        res = [(-1, "gaftools raised %s: %s" % (type(e).__name__, e), None)]
    lines = case["gaf"]
    extra = (case["kind"], case.get("format"), bool(case.get("bgzf")))
    reported = False
    for i, p, got in res:
        this_kf = kf
        if p and kf and (i < 0 or compare(recorded_finding_form(lines[i].split("\t")), got, mode_of(case)) is not None):
            this_kf = None  # not the recorded behaviour (first occurrence kept, later ones dropped): a new violation
        key = (lines[i] if i >= 0 else tuple(lines), extra)
        ctx.case(section, key, nontrivial=i >= 0 and len(lines[i].split("\t")) > 12,
                 sample={"kind": case["kind"], "input": lines[i] if i >= 0 else lines[:2]})
        if p and not (this_kf and reported):  # one witness of a recorded finding per driver run is enough
            small = case
            if i >= 0 and case["kind"] in ("unit", "view-format") and len(lines) > 1:
                one = dict(case, gaf=[lines[i]])  # smaller replay file when the record fails on its own as well
                try:
                    r1 = drive(ctx.dir("c16min"), one)
                except BaseException:  # noqa
                    r1 = [(0, "raised", None)]
                if any(x[1] for x in r1):
                    small = one
            ctx.fail(section, "%s%s: input record %r: %s" % (case["kind"], " --format " + case["format"] if case.get("format") else "",
                                                           lines[i] if i >= 0 else "(file of %d records)" % len(lines), p), small, known_finding=this_kf)
            reported = True
    return res


# ---- generators --------------------------------------------------------------------------------------------
def rec(opt, name="q", **kw):
    f = list(BASE)
    f[0] = name
    for k, v in kw.items():
        f[int(k[1:])] = v
    return "\t".join(f + list(opt))


def unit_exhaustive():
    """every hand-picked field alone / with a CIGAR before or after / as ordered pairs of fields with distinct TAGs"""
    out = []
    E = T.EDGE_FIELDS
    for f in E:
        out += [rec([f]), rec(["cg:Z:3=1X6="] + [f]), rec([f, "cg:Z:3=1X6="]), rec([f, "ds:Z::3*at"]), rec(["ds:Z:", f, "cg:Z:10="])]
    for a, b in itertools.permutations(E, 2):
        if a[:2] != b[:2]:
            out.append(rec([a, b]))
    out += [rec([]), rec(["cg:Z:10="]), rec(["ds:Z::10"]), rec(["ds:Z::10", "cg:Z:10="]), rec(["cg:Z:"]),
            rec(["cg:Z:10="], name="read 1"), rec([], name="ab:Z:x"), rec(["NM:i:1"], name="r cg:Z:5="),
            rec([], c4="-", c5="<r2<r1"), rec(["NM:i:0"], c5="chr1", c11="255"), rec(["zt:Z:x "], c5=">chr1:0-3<hap1#chr1:5-14")]
    return out


def unit_random(rng, n):
    out = []
    for i in range(n):
        cg = None if rng.random() < 0.3 else T.rand_cigar(rng, 10)
        opt = T.rand_optional(rng, rng.randint(0, 8), cigar=cg, ds=rng.random() < 0.2)
        name = "q%d" % i + (rng.choice([" x", " a b", "  "]) if rng.random() < 0.2 else "")
        out.append(rec(opt, name=name, c4=rng.choice("+-"), c5=rng.choice([">r1>r2", "<s2", "chr1", ">chr1:0-5>h#1:2-9"]),
                       c11=str(rng.choice([0, 60, 255]))))
    return out


def repeated_records(rng, n):
    """records in which one TAG:TYPE occurs twice (the second one with a different value and somewhere later)"""
    out = []
    fixed = [["NM:i:1", "NM:i:2"], ["zz:Z:a", "cg:Z:10=", "zz:Z:b"], ["cg:Z:4=6X", "NM:i:0", "cg:Z:10="], ["xa:A:a", "xa:A:b", "xa:A:c"],
             ["NM:i:1", "NM:i:1"]]
    for opt in fixed:
        out.append(rec(opt, name="rep%d" % len(out)))
    while len(out) < n:
        opt = T.rand_optional(rng, rng.randint(1, 5), cigar=None if rng.random() < 0.5 else "10=")
        if not opt:
            continue
        src = rng.choice(opt)
        tag, ty = src[:2], src[3]
        dup = "%s:%s:%s" % (tag, ty, "7=3X" if tag == "cg" else T.rand_value(rng, ty))
        if dup == src:
            continue
        pos = rng.randint(opt.index(src) + 1, len(opt))
        opt.insert(pos, dup)
        out.append(rec(opt, name="rep%d" % len(out)))
    return out


def graph_case(rng, n_records, repeated=False, for_realign=False):
    g = make_rgfa(rng, n_ref=rng.randint(3, 5), max_len=6 if for_realign else 3, n_bubbles=rng.randint(1, 2),
                  hap_mode=rng.choice(["adjacent", "separated", "mixed"]), inversion=rng.random() < 0.5)
    recs = T.rand_records(rng, g, n_records, minus=0.0 if for_realign else 0.2)
    if repeated:
        for (_w, _s, _e, f) in recs:
            opt = f[12:] or ["NM:i:3"]
            src = rng.choice(opt)
            dup = src[:5] + ("9=" if src.startswith("cg:Z:") else T.rand_value(rng, src[3]) + "1")
            if src[3] in "AHB":
                dup = "NM:i:5"
                opt = ["NM:i:4"] + opt
            opt.append(dup)
            f[12:] = opt
    return g, recs


def stable_inputs(g, recs):
    """hand-made stable records: one interval per node, same optional fields"""
    out = []
    for w, s, e, f in recs:
        f2 = list(f)
        f2[5] = T.stable_per_node(g, w)
        out.append("\t".join(f2))
    return out


reads_for = T.reads_for


# ---- run ---------------------------------------------------------------------------------------------------
def run(ctx):
    rng = ctx.rng
    q = ctx.quick
    # 0. regressions of repaired defects
    for name, fn in sorted(defects.for_property("C16").items()):
        try:
            ok, detail = fn()
        except BaseException as e:  # noqa
            ok, detail = False, "raised %s: %s" % (type(e).__name__, e)
        ctx.case("regressions", name)
        if not ok:
            ctx.fail("regressions", "%s: %s" % (name, detail), {"kind": "defect", "name": name})

    # 1. unit level
    ex = unit_exhaustive()
    ctx.bound("unit level (GAF.read_file + str): %d hand-picked fields (all types; signs, exponents, leading dot, empty / blank / "
              "punctuation Z values, ':' as A value, empty H and B) alone, next to cg:Z / ds:Z and as all ordered pairs with distinct TAGs "
              "(%d records, exhaustive), plus %d random records with 0-8 random fields; plain and BGZF" % (len(T.EDGE_FIELDS), len(ex), 10000 if q else 100000))
    evaluate(ctx, "unit", {"kind": "unit", "gaf": ex})
    evaluate(ctx, "unit", {"kind": "unit", "gaf": ex[: 400 if q else len(ex)], "bgzf": True})
    n_rand = 10000 if q else 100000
    for chunk in range(0, n_rand, 500):
        if ctx.out_of_time(30 if q else 300):
            break
        evaluate(ctx, "unit", {"kind": "unit", "gaf": unit_random(rng, 500), "bgzf": chunk % 1000 == 500})

    # 2..5 over graphs
    n_graphs = 40 if q else 600
    ctx.bound("CLI level: %d random rGFAs (3-5 reference segments, 1-2 bubbles, optional inversion) x 12-30 records over walks of <= 4 steps "
              "with 0-5 random optional fields, with/without cg:Z, with ds:Z, names with blanks; view -n (every single node, all nodes), "
              "view -r, view -f stable / unstable (own output and hand-made one-interval-per-node paths), view -n -f; plain or BGZF" % n_graphs)
    for gi in range(n_graphs):
        g, recs = graph_case(rng, rng.randint(12, 30))
        lines = ["\t".join(r[3]) for r in recs]
        gfa = g.lines()
        bg = gi % 2 == 1
        used = sorted({n for r in recs for n, _ in r[0]})
        d = ctx.dir("c16g")
        evaluate(ctx, "view-node", {"kind": "view-select", "gfa": gfa, "gaf": lines, "nodes": used, "bgzf": bg}, d=d)
        for nd in (used if not q else rng.sample(used, min(2, len(used)))):
            evaluate(ctx, "view-node", {"kind": "view-select", "gfa": gfa, "gaf": lines, "nodes": [nd], "bgzf": bg}, d=d)
        nd = g.by_id[rng.choice(used)]
        evaluate(ctx, "view-region", {"kind": "view-select", "gfa": gfa, "gaf": lines, "regions": ["%s:%d-%d" % (nd.sn, nd.so, nd.end)], "bgzf": bg}, d=d)
        evaluate(ctx, "view-node-format", {"kind": "view-select", "gfa": gfa, "gaf": lines, "nodes": used[:2], "format": "stable", "bgzf": bg}, d=d)
        res = evaluate(ctx, "view-format", {"kind": "view-format", "gfa": gfa, "gaf": lines, "format": "stable", "bgzf": bg}, d=d)
        if not any(x[1] for x in res):
            st = T.lines_of(open(os.path.join(d, "out.gaf")).read())  # gaftools' own stable records, now an input
            evaluate(ctx, "view-format", {"kind": "view-format", "gfa": gfa, "gaf": st, "format": "unstable", "bgzf": bg}, d=d)
            evaluate(ctx, "view-node-format", {"kind": "view-select", "gfa": gfa, "gaf": st, "nodes": used, "format": "unstable", "bgzf": bg}, d=d)
            evaluate(ctx, "view-node", {"kind": "view-select", "gfa": gfa, "gaf": st, "nodes": used, "bgzf": bg}, d=d)
        evaluate(ctx, "view-format", {"kind": "view-format", "gfa": gfa, "gaf": stable_inputs(g, recs), "format": "unstable"}, d=d)
        if ctx.out_of_time(45 if q else 500):
            break

    # 6. realign
    n_re = 10 if q else 150
    ctx.bound("realign: %d runs (cores=1) over graphs with sequences, 10-25 '+' records each, reads = spelled path with an optional "
              "mismatch/deletion; one run carries a record with a query span > 60000 (copied without realignment)" % n_re)
    for ri in range(n_re):
        g, recs = graph_case(rng, rng.randint(10, 25), for_realign=True)
        lines = ["\t".join(r[3]) for r in recs]
        reads = reads_for(g, recs, rng)
        if ri == 0:
            w = recs[0][0]
            big = gaf_record(g, w, 0, 1, name="huge", qlen=60010, tags=["NM:i:-1", "zt:Z:x y "], cigar="")
            big[3] = "60005"
            lines.append("\t".join(big))
            reads.append(["huge", "ACGT" * 15003])
        evaluate(ctx, "realign", {"kind": "realign", "gfa": g.lines(), "gaf": lines, "reads": reads, "bgzf": ri % 2 == 1})
        if ctx.out_of_time(70 if q else 750):
            break

    # 7. repeated TAG:TYPE -- recorded finding, tagged
    rep = repeated_records(rng, 40 if q else 400)
    ctx.bound("repeated-tags (known finding): %d unit-level records where one TAG:TYPE occurs twice or three times, and 2 graph cases through "
              "view -n / view -f / realign" % len(rep))
    evaluate(ctx, "repeated-tags", {"kind": "unit", "gaf": rep}, kf=KF)
    for _ in range(2):
        g, recs = graph_case(rng, 10, repeated=True, for_realign=True)
        lines = ["\t".join(r[3]) for r in recs]
        used = sorted({n for r in recs for n, _ in r[0]})
        evaluate(ctx, "repeated-tags-view-node", {"kind": "view-select", "gfa": g.lines(), "gaf": lines, "nodes": used}, kf=KF)
        evaluate(ctx, "repeated-tags-view-format", {"kind": "view-format", "gfa": g.lines(), "gaf": lines, "format": "stable"}, kf=KF)
        evaluate(ctx, "repeated-tags-realign", {"kind": "realign", "gfa": g.lines(), "gaf": lines, "reads": reads_for(g, recs, rng)}, kf=KF)
    return ("each case = one GAF record re-emitted by the real code (GAF.read_file+str, view -n/-r/-f, realign) and compared field by field with "
            "the input (identity oracle up to: name cut at first blank, ds:Z dropped, CIGAR value and converted columns free); distinct = "
            "distinct (record line, driver, format, compression); non-trivial = the record has at least one optional field")


def replay(ctx, rec):
    c = rec["case"]
    if c.get("kind") == "defect":
        ok, detail = defects.ALL[c["name"]]()
        return ok, detail
    try:
        res = drive(ctx.dir("replay"), c)
    except BaseException as e:  # noqa
        return False, "gaftools raised %s: %s" % (type(e).__name__, e)
    bad = [x[1] for x in res if x[1]]
    return not bad, bad[0] if bad else "all %d re-emitted records carry the fields of their input" % len(res)
