"""C11 bounded stand-in: `gaftools realign` writes every record exactly once, in input order, identical to the
single-core output, under EVERY schedule.

(a) scripted schedules: the REAL realign_gaf runs against a fake `multiprocessing` (rtc.realignlib.World) in which every
    observation of the parent (queue.get -> item of worker k | timeout; is_alive -> still running | terminated) is a choice
    point; all scripts within a timeout budget are enumerated depth-first (exhaustive) or sampled at random.
(b) real worker processes: cores 1,2,4 x batch sizes 1,2,3 (hook GAFTOOLS_VERIF_BATCH_SIZE), the CLI in a subprocess, and
    runs in which an instrumented worker sleeps long enough for the parent's queue read to really time out.
The reference is the output of the real single-core run; independently of it every output is checked for 'one record per
input record, in input order' through a unique rc:i:<n> field of the generated records."""
import os
import subprocess
import sys
import time

from rtc import realignlib as L
from rtc import defects


def judge(case, ref_text, outcome, text, detail):
    if outcome != "ok":
        return "realign did not finish normally: %s" % (detail or outcome)
    err = L.check_exactly_once(case, text)
    if err:
        return err
    if text != ref_text:
        return "output differs from the single-core output although it has one record per input record in order"
    return None


def reference(ctx, case, paths, section):
    outcome, text, detail = L.call_realign(paths, 1)
    what = judge(case, text, outcome, text, detail)
    if what:
        ctx.fail(section, "single core, default batch size, %d records: %s" % (len(case["gaf"]), what),
                 dict(case, kind="real", cores=1, batch_size=None, delays={}))
        return None
    return text


fmt = L.fmt_script


def scripted(ctx, section, case, paths, ref, cores, bs, runs, budget, default_labels=None, deadline=None):
    """runs: iterable of (outcome, text, detail, labels, world) -> number of runs, or -number when cut by the deadline"""
    n = 0
    for outcome, text, detail, labels, w in runs:
        n += 1
        if deadline is not None and n % 128 == 0 and ctx.out_of_time(deadline):
            return -n
        if default_labels is not None and not default_labels:
            default_labels.extend(labels)
        ctx.case(section, (cores, bs, len(case["gaf"]), tuple(labels)), nontrivial=(default_labels is None or labels != default_labels),
                 sample={"cores": cores, "batch_size": bs, "records": len(case["gaf"]), "script": " ".join(labels)})
        what = judge(case, ref, outcome, text, detail)
        if what:
            ctx.fail(section, "cores=%d batch=%d records=%d schedule [%s]: %s" % (cores, bs, len(case["gaf"]), fmt(labels), what),
                     dict(case, kind="scripted", cores=cores, batch_size=bs, script=labels, budget=budget))
    return n


def sampled_runs(rng, paths, cores, bs, n, budget):
    for _ in range(n):
        ch = L.RandomChooser(rng, p_empty=rng.choice([0.1, 0.3, 0.5]), p_alive=rng.choice([0.2, 0.5, 0.8]))
        outcome, text, detail, ch, w = L.run_schedule(paths, cores, bs, chooser=ch, **budget)
        yield outcome, text, detail, ch.labels(), w


def delay_wrapper(delays):
    """instrumentation for real runs: the worker sleeps before putting the record with a given priority
    (key = str(priority)) or before its sentinel (key 's<first priority of the batch>')"""
    def wrap(real):
        def target(seq_batch, qu):
            first = seq_batch[0][3]

            class DelayQ:
                def put(self, x, *a, **kw):
                    key = ("s%d" % first) if x is None else str(x.priority)
                    if key in delays:
                        time.sleep(delays[key])
                    qu.put(x, *a, **kw)
            real(seq_batch, DelayQ())
        return target
    return wrap


def real_run(ctx, section, case, paths, ref, cores, bs, delays=None):
    outcome, text, detail = L.call_realign(paths, cores, bs, wrap_target=delay_wrapper(delays) if delays else None)
    ctx.case(section, (cores, bs, tuple(sorted((delays or {}).items())), hash(tuple(case["gaf"]))),
             sample={"cores": cores, "batch_size": bs, "records": len(case["gaf"]), "delays": delays})
    what = judge(case, ref, outcome, text, detail)
    if what:
        ctx.fail(section, "real processes, cores=%d batch=%s records=%d delays=%s: %s" % (cores, bs, len(case["gaf"]), delays, what),
                 dict(case, kind="real", cores=cores, batch_size=bs, delays=delays or {}))


def cli_run(ctx, section, case, paths, ref, cores, bs):
    d = os.path.dirname(paths[0])
    out = os.path.join(d, "cli-%d-%s.gaf" % (cores, bs))
    env = dict(os.environ, GAFTOOLS_VERIF="1", GAFTOOLS_VERIF_BATCH_SIZE=str(bs))
    try:
        p = subprocess.run([sys.executable, "-m", "gaftools", "realign", "-c", str(cores), "-o", out] + list(paths),
                           capture_output=True, text=True, timeout=120, env=env)
        rc, err = p.returncode, p.stderr.strip().splitlines()[-1:]
    except subprocess.TimeoutExpired:
        rc, err = "timeout", ["no exit within 120 s"]
    ctx.case(section, (cores, bs, hash(tuple(case["gaf"]))), sample={"cores": cores, "batch_size": bs, "records": len(case["gaf"])})
    text = open(out).read() if os.path.exists(out) else ""
    what = judge(case, ref, "ok" if rc == 0 else "exit:%s" % rc, text, "exit status %s %s" % (rc, err))
    if what:
        ctx.fail(section, "`gaftools realign -c %d` (batch %d, %d records): %s" % (cores, bs, len(case["gaf"]), what),
                 dict(case, kind="cli", cores=cores, batch_size=bs))


def run(ctx):
    rng = ctx.rng
    for name, f in sorted(defects.for_property("C11").items()):
        ok, detail = f()
        ctx.case("regression", name)
        if not ok:
            ctx.fail("regression", "%s: %s" % (name, detail), {"kind": "defect", "name": name})
    quick = ctx.quick
    t_budget = 60 if quick else 780
    # ---- (a) scripted schedules -----------------------------------------------------------------
    single = L.configs_single_group()
    two = L.configs_two_groups()
    big_lim = 10000 if quick else None
    grp_lim = 1500 if quick else 60000
    ctx.bound("scripted schedules, one group: (cores, batch, records) in %s i.e. <= 3 workers x <= 2 records, both collection loops of realign_gaf; "
              "every script over {d<k>, e, a<k>, x<k>} with at most T timeouts-while-items-remain (forced timeouts on an empty queue are free) "
              "and at most 6 'still alive' answers: T<=1 exhaustive for every configuration%s; %s random scripts per configuration with T<=4 and <= 8 "
              "'still alive' answers" % ([c[:3] for c in single], " except 3 workers x 2 records (first %d scripts in depth-first order)" % big_lim if quick else
                                       "; T<=2 exhaustive, smallest trees first, up to 150000 scripts per configuration, while time allows", 150 if quick else 3000))
    ctx.bound("scripted schedules, several groups: (cores, batch, records) in %s: T<=1 depth-first up to %d scripts each + %d random scripts each"
              % ([c[:3] for c in two], grp_lim, 100 if quick else 2000))
    prepared = []
    for cores, bs, n, loop in single + two:
        case = L.make_input(rng, n, cheap=True)
        paths = L.write_case(ctx.dir("c11"), case)
        ref = reference(ctx, case, paths, "single-core")
        if ref is not None:
            prepared.append({"cfg": (cores, bs, n), "case": case, "paths": paths, "ref": ref, "dl": [], "single": (cores, bs, n, loop) in single,
                             "big": cores == 3 and bs == 2 and n >= 5, "t1": 0})
    complete = len(prepared) == len(single + two)
    # phase 1: T <= 1, every configuration
    for c in prepared:
        cores, bs, n = c["cfg"]
        budget = {"max_empty": 1}
        lim = (big_lim if c["big"] else None) if c["single"] else grp_lim
        k = scripted(ctx, "scripted-exhaustive" if c["single"] else "scripted-groups", c["case"], c["paths"], c["ref"], cores, bs,
                     L.explore(c["paths"], cores, bs, limit=lim, **budget), budget, c["dl"], deadline=t_budget * 0.75)
        c["t1"] = abs(k)
        if c["single"] and (k < 0 or (lim is not None and k >= lim)):
            complete = False
    ctx.exhaustive = complete
    # phase 2 (thorough): T <= 2 on the one-group configurations, smallest trees first
    if not quick:
        for c in sorted([c for c in prepared if c["single"]], key=lambda c: c["t1"]):
            if ctx.out_of_time(t_budget * 0.6):
                break
            cores, bs, n = c["cfg"]
            budget = {"max_empty": 2}
            scripted(ctx, "scripted-exhaustive-T2", c["case"], c["paths"], c["ref"], cores, bs,
                     L.explore(c["paths"], cores, bs, limit=150000, **budget), budget, c["dl"], deadline=t_budget * 0.7)
    # phase 3: random scripts with more timeouts
    for c in prepared:
        if ctx.out_of_time(t_budget * 0.85):
            break
        cores, bs, n = c["cfg"]
        budget = {"max_empty": 4, "max_alive": 8}
        nrun = (150 if quick else 3000) if c["single"] else (100 if quick else 2000)
        scripted(ctx, "scripted-sampled" if c["single"] else "scripted-groups-sampled", c["case"], c["paths"], c["ref"], cores, bs,
                 sampled_runs(rng, c["paths"], cores, bs, nrun, budget), budget, c["dl"], deadline=t_budget * 0.9)
    # ---- (b) real processes ---------------------------------------------------------------------
    n_inputs = 1 if quick else 6
    ctx.bound("real worker processes: %d inputs of 7-13 records x cores {1,2,4} x batch size {1,2,3} in-process, the CLI in a subprocess, "
              "and %d runs with sleeping workers (0.15 s / 0.6 s before a record or a sentinel) so that queue reads really time out"
              % (n_inputs, 3 if quick else 12))
    for i in range(n_inputs):
        case = L.make_input(rng, rng.randint(7, 13))
        paths = L.write_case(ctx.dir("c11r"), case)
        ref = reference(ctx, case, paths, "single-core")
        if ref is None:
            continue
        for cores in (1, 2, 4):
            for bs in (1, 2, 3):
                real_run(ctx, "real-mp", case, paths, ref, cores, bs)
        cli_run(ctx, "real-cli", case, paths, ref, 2 if i % 2 == 0 else 4, 1 + i % 3)
    # sleeping workers: cores=2, batch=2, 5 records -> group of 2 workers (loop with 0.5 s timeout) + leftover worker (0.1 s timeout)
    slow = [{"0": 0.6, "4": 0.15}, {"s2": 0.6, "s4": 0.15}, {"3": 0.75, "1": 0.1}]
    if not quick:
        slow += [{"1": 0.6}, {"s0": 0.6, "s2": 0.7}, {"0": 0.3, "2": 0.6, "4": 0.25}, {"4": 0.35, "s4": 0.15}, {"2": 1.1}, {"s0": 1.1, "4": 0.15},
                 {"0": 0.55, "1": 0.55, "2": 0.55, "3": 0.55}, {"s4": 0.35}, {"1": 0.6, "s2": 0.6, "4": 0.12, "s4": 0.12}]
    case = L.make_input(rng, 5, cheap=True)
    paths = L.write_case(ctx.dir("c11s"), case)
    ref = reference(ctx, case, paths, "single-core")
    if ref is not None:
        for delays in slow:
            real_run(ctx, "real-mp-timeouts", case, paths, ref, 2, 2, delays)
        real_run(ctx, "real-mp-timeouts", case, paths, ref, 3, 2, {"0": 0.15, "s2": 0.25, "4": 0.12})
    return ("each case = one run of the real realign_gaf under one schedule: a script of parent observations against the fake multiprocessing "
            "(distinct = distinct (configuration, script); non-trivial = differs from the eager all-delivered schedule), or one run with real worker "
            "processes (configuration x batch size x injected delays); oracle = unique record ids in input order + byte equality with the real "
            "single-core run")


def replay(ctx, rec):
    c = rec["case"]
    if c.get("kind") == "defect":
        ok, detail = defects.ALL[c["name"]]()
        return ok, detail
    paths = L.write_case(ctx.dir("replay"), c)
    outcome, ref, detail = L.call_realign(paths, 1)
    what = judge(c, ref, outcome, ref, detail)
    if what:
        return False, "single core: " + what
    if c["kind"] == "scripted":
        outcome, text, detail, ch, w = L.run_schedule(paths, c["cores"], c["batch_size"], script=c["script"], **c.get("budget", {}))
        what = judge(c, ref, outcome, text, detail)
        return what is None, what or "schedule [%s]%s: one record per input record, in order, identical to single core" % (
            " ".join(ch.labels()), " (recorded script no longer fits the code's observations; continued with defaults)" if ch.diverged else "")
    if c["kind"] == "cli":
        sub = type(ctx)(ctx.pid, "quick", 0, ctx.dir("r"))
        cli_run(sub, "replay", c, paths, ref, c["cores"], c["batch_size"])
        return not sub.failures, sub.failures[0]["what"] if sub.failures else "CLI output identical to single core"
    outcome, text, detail = L.call_realign(paths, c["cores"], c["batch_size"], wrap_target=delay_wrapper(c["delays"]) if c.get("delays") else None)
    what = judge(c, ref, outcome, text, detail)
    return what is None, what or "real run identical to single core"
