"""C20 bounded stand-in: `gaftools phase` annotates every record without altering it.

The REAL gaftools.cli.phase.run is called in-process on generated GAF files (both strands, unstable / stable / bare-contig
paths, optional fields over the whole tag grammar, plain and BGZF) and haplotag TSVs (reads phased H1/H2, 'none', missing,
listed several times, optional header).  The oracle is written from the statement: one output record per input record in
order = the 12 columns of the input (name cut at its first blank) + ps:Z:<chromosome>-<phase set> + ht:Z:<haplotype> of the
FIRST TSV entry of the read (ps:Z:none ht:Z:none when the read is missing or its haplotype is 'none') + the optional fields
of the input in order (ds:Z dropped).  Independently of that, every output line must be a well-formed GAF line."""
import itertools
import os

from rtc import taglib as T
from rtc import defects
from rtc.gen import write_lines

HEADER = "#readname\thaplotype\tphaseset\tchromosome"
PATHS = [(">s1>s2", "+"), ("<s2<s1", "+"), (">s1<s3>s2", "-"), ("chr1", "+"), ("chr1", "-"), (">chr1:0-3>hap1#chr1:5-7", "+"),
         ("<chr1:3-8", "-"), (">s7", "-")]


def oracle(gaf_lines, tsv_lines):
    table = {}
    for l in tsv_lines:
        c = l.split("\t")
        if c[0] not in table:  # first entry of a read wins
            table[c[0]] = (c[1], c[2], c[3])
    out = []
    for l in gaf_lines:
        e = T.expect_reemit(l.split("\t"))
        ent = table.get(e[0])
        if ent is not None and ent[0] != "none":
            ann = ["ps:Z:%s-%s" % (ent[2], ent[1]), "ht:Z:%s" % ent[0]]
        else:
            ann = ["ps:Z:none", "ht:Z:none"]
        out.append(e[:12] + ann + e[12:])
    return out


def wellformed_problem(fields):
    if len(fields) < 14:
        return "only %d columns" % len(fields)
    if any(f == "" for f in fields):
        return "empty column"
    for i in (1, 2, 3, 6, 7, 8, 9, 10, 11):
        if not fields[i].isdigit():
            return "column %d (%r) is not a number" % (i + 1, fields[i])
    if fields[4] not in "+-":
        return "strand column is %r" % fields[4]
    for f in fields[12:]:
        if not T.wellformed(f):
            return "optional field %r is not TAG:TYPE:VALUE" % f
    tags = [f[:2] for f in fields[12:]]
    if tags.count("ps") != 1 or tags.count("ht") != 1:
        return "ps / ht do not occur exactly once: %r" % fields[12:]
    return None


def run_default_output(gaf, tsv):
    """`gaftools phase GAF TSV` without -o (documented: output goes to standard output); a real process, because the default
    is bound to sys.stdout when the module is imported"""
    import subprocess
    import sys
    import gaftools
    env = dict(os.environ)
    env["PYTHONPATH"] = os.path.dirname(os.path.dirname(os.path.abspath(gaftools.__file__)))
    p = subprocess.run([sys.executable, "-m", "gaftools", "phase", gaf, tsv], capture_output=True, text=True, timeout=120, env=env)
    if p.returncode != 0:
        raise RuntimeError("`gaftools phase GAF TSV` (no -o) exited with status %d: %s" % (p.returncode, (p.stderr.strip().splitlines() or [""])[-1]))
    return p.stdout


def drive(d, case):
    """-> list of (index, problem or None), one per input record"""
    gaf = os.path.join(d, "in.gaf" + (".gz" if case.get("bgzf") else ""))
    tsv = os.path.join(d, "h.tsv")
    out = os.path.join(d, "out.gaf")
    if os.path.exists(gaf):
        os.unlink(gaf)
    write_lines(gaf, case["gaf"], bgzf=bool(case.get("bgzf")))
    with open(tsv, "w") as f:
        f.write("".join(l + "\n" for l in case["tsv"]))
    got = T.lines_of(run_default_output(gaf, tsv) if case.get("kind") == "stdout" else T.real_phase(gaf, tsv, out))
    exp = oracle(case["gaf"], case["tsv"])
    if len(got) != len(exp):
        return [(-1, "%d records in, %d lines out (%r ...)" % (len(exp), len(got), got[:2]))]
    res = []
    for i, (e, gl) in enumerate(zip(exp, got)):
        gf = gl.split("\t")
        p = wellformed_problem(gf)
        if p:
            p = "output line %r is not a well-formed GAF line: %s" % (gl, p)
        elif gf != e:
            if gf[:12] != e[:12]:
                p = T.describe_diff(e[:12], gf[:12]) or "columns differ"
            elif gf[12:14] != e[12:14]:
                p = "annotation is %r, the TSV says %r" % (gf[12:14], e[12:14])
            else:
                p = T.describe_diff(e[:12] + e[14:], gf[:12] + gf[14:])
        res.append((i, p))
    return res


def evaluate(ctx, section, case, d):
    try:
        res = drive(d, case)
    except BaseException as e:  # noqa
        res = [(-1, "gaftools phase raised %s: %s" % (type(e).__name__, e))]
    lines = case["gaf"]
    table = {}
    for l in case["tsv"]:
        table.setdefault(l.split("\t")[0], []).append(l)
    if not lines and not any(p for _, p in res):
        ctx.case(section, ("empty", tuple(case["tsv"])), nontrivial=False)
    for i, p in res:
        ent = tuple(table.get(T.cut_name(lines[i].split("\t")[0]), ())) if i >= 0 else ()
        ctx.case(section, (lines[i] if i >= 0 else tuple(lines), ent, bool(case.get("bgzf"))),
                 sample={"record": lines[i] if i >= 0 else lines[:2], "tsv entries of the read": list(ent)})
        if p:
            small = case
            if i >= 0 and len(lines) > 1:
                one = dict(case, gaf=[lines[i]])
                try:
                    r1 = drive(d, one)
                except BaseException:  # noqa
                    r1 = [(0, "raised")]
                if any(x[1] for x in r1):
                    small = one
            ctx.fail(section, "record %r with TSV entries %r: %s" % (lines[i] if i >= 0 else "(file of %d records)" % len(lines), list(ent), p), small)


# ---- generators ------------------------------------------------------------------------------------------
def rec(name, path, strand, opt, mapq="60"):
    return "\t".join([name, "10", "0", "9", strand, path, "12", "1", "10", "8", "9", mapq] + list(opt))


TSV_STATES = {
    "absent": [],
    "H1": ["%s\tH1\t100\tchr1"],
    "H2": ["%s\tH2\t23755\thap1#chr1"],
    "none": ["%s\tnone\tnone\tchr1"],
    "H1-then-H2": ["%s\tH1\t100\tchr1", "%s\tH2\t7\tchr9"],
    "none-then-H1": ["%s\tnone\tnone\tchr1", "%s\tH1\t100\tchr1"],
    "H2-then-none": ["%s\tH2\t5\tchr2", "%s\tnone\tnone\tchr2"],
}
OPTS = [[], ["cg:Z:9="], ["tp:A:P", "NM:i:0", "cg:Z:4=1X4="], ["cg:Z:9=", "NM:i:-1"], ["zs:Z:has space and : colon", "ze:Z:"],
        ["ds:Z::9", "cg:Z:9=", "zt:Z:trailing "], ["dv:f:-1.5e-3", "A0:Z:.", "bb:B:i,1,-2", "xb:A::"]]


def exhaustive_cases():
    """every (path form / strand) x optional-field shape x TSV state of the read, one record per file and all in one file"""
    for (path, strand), opt, st in itertools.product(PATHS, OPTS, sorted(TSV_STATES)):
        for name in ("read1", "read1 extra words"):
            yield {"gaf": [rec(name, path, strand, opt)], "tsv": [HEADER] + [t % "read1" for t in TSV_STATES[st]] + ["other\tH1\t5\tchr1"]}


def random_case(rng, n):
    names = ["r%d" % i for i in range(max(1, n // 2 + 1))]
    tsv = []
    for nm in names:
        st = rng.choice(sorted(TSV_STATES))
        tsv += [t % nm for t in TSV_STATES[st]] if rng.random() < 0.5 else \
            [("%s\t%s\t%d\t%s" % (nm, rng.choice(["H1", "H2"]), rng.randint(1, 10 ** 6), rng.choice(["chr1", "chr2", "chrX", "hap2#chr3"])))
             for _ in range(rng.randint(0, 2))]
    if rng.random() < 0.5:
        rng.shuffle(tsv)
    tsv += ["stranger%d\tH%d\t%d\tchr5" % (i, 1 + i % 2, i) for i in range(rng.randint(0, 2))]
    if rng.random() < 0.6:
        tsv = [HEADER] + tsv
    gaf = []
    for i in range(n):
        nm = rng.choice(names + ["unlisted%d" % i])
        if rng.random() < 0.2:
            nm += rng.choice([" extra", " 1 2", "  "])
        path, strand = rng.choice(PATHS)
        cg = None if rng.random() < 0.3 else T.rand_cigar(rng, 9)
        opt = T.rand_optional(rng, rng.randint(0, 6), cigar=cg, ds=rng.random() < 0.15, forbid=("cg", "ds", "ps", "ht"))
        opt = [f for f in opt if f[:2] not in ("ps", "ht")]
        gaf.append(rec(nm, path, strand, opt, mapq=str(rng.choice([0, 60, 255]))))
    return {"gaf": gaf, "tsv": tsv, "bgzf": rng.random() < 0.3}


def run(ctx):
    rng, q = ctx.rng, ctx.quick
    for name, fn in sorted(defects.for_property("C20").items()):
        try:
            ok, detail = fn()
        except BaseException as e:  # noqa
            ok, detail = False, "raised %s: %s" % (type(e).__name__, e)
        ctx.case("regressions", name)
        if not ok:
            ctx.fail("regressions", "%s: %s" % (name, detail), {"kind": "defect", "name": name})
    d = ctx.dir("c20")
    ex = list(exhaustive_cases())
    ctx.bound("exhaustive: %d path/strand forms x %d optional-field shapes x %d TSV states of the read (absent, H1, H2, none, listed twice "
              "with differing entries) x read name with/without blank = %d single-record files, and all of them in one file"
              % (len(PATHS), len(OPTS), len(TSV_STATES), len(ex)))
    for c in ex:
        evaluate(ctx, "exhaustive", c, d)
    # the same records in one file (distinct read names so that each keeps its own TSV state)
    gaf, tsv = [], [HEADER]
    for i, ((path, strand), opt, st) in enumerate(itertools.product(PATHS, OPTS, sorted(TSV_STATES))):
        nm = "m%d" % i
        gaf.append(rec(nm + (" x" if i % 3 == 0 else ""), path, strand, opt))
        tsv += [t % nm for t in TSV_STATES[st]]
    evaluate(ctx, "one-file", {"gaf": gaf, "tsv": tsv}, d)
    evaluate(ctx, "one-file", {"gaf": gaf, "tsv": tsv, "bgzf": True}, d)
    evaluate(ctx, "one-file", {"gaf": [], "tsv": tsv}, d)
    # the documented default destination: no -o -> standard output (one real process)
    ctx.bound("default-output: one run of `python -m gaftools phase GAF TSV` without -o on 6 records; standard output must hold the same records")
    evaluate(ctx, "default-output", {"kind": "stdout", "gaf": gaf[:6], "tsv": tsv[:12]}, d)
    # a haplotag table larger than any read-ahead buffer (1.7 MB, 60000 reads): reads listed first, in the middle and last must all be found
    # (added after seeded change C20-6)
    n_big = 60000
    big = [HEADER] + ["read_%07d\tH%d\t%d\tchr%d" % (i, 1 + i % 2, 40000 + i, 1 + i % 7) for i in range(n_big)]
    picks = [0, 1, n_big // 2, n_big - 2, n_big - 1] + [rng.randrange(n_big) for _ in range(5)]
    gaf_big = [rec("read_%07d" % k, *PATHS[j % len(PATHS)], OPTS[j % len(OPTS)]) for j, k in enumerate(picks)] + [rec("unlisted", ">s1", "+", [])]
    ctx.bound("large-tsv: one haplotag TSV of %d reads (%d bytes) with %d records of reads listed first, in the middle, last and at random"
              % (n_big, sum(len(l) + 1 for l in big), len(gaf_big)))
    evaluate(ctx, "large-tsv", {"gaf": gaf_big, "tsv": big}, d)
    n_files = 400 if q else 8000
    ctx.bound("random: %d files of 0-40 records (several alignments per read, unlisted reads, names with blanks, 0-6 random optional fields "
              "over the whole tag grammar, cg:Z anywhere or absent, ds:Z), TSV with 0-2 entries per read in file or shuffled order, optional "
              "header, plain or BGZF; records never carry ps/ht or a repeated TAG themselves" % n_files)
    for i in range(n_files):
        evaluate(ctx, "random", random_case(rng, rng.choice([0, 1, 2, 3, 5, 8, 13, 21, 40])), d)
        if ctx.out_of_time(60 if q else 700):
            break
    return ("each case = one GAF record run through the real `gaftools phase` together with its TSV entries; expected line built from the "
            "statement (12 input columns, ps/ht from the first TSV entry or none/none, input optional fields in order) and compared exactly; "
            "every output line also checked for GAF well-formedness; distinct = distinct (record line, TSV entries of its read, compression)")


def replay(ctx, rec):
    c = rec["case"]
    if c.get("kind") == "defect":
        return defects.ALL[c["name"]]()
    try:
        res = drive(ctx.dir("replay"), c)
    except BaseException as e:  # noqa
        return False, "gaftools phase raised %s: %s" % (type(e).__name__, e)
    bad = [p for _, p in res if p]
    return not bad, bad[0] if bad else "all %d records annotated and otherwise unchanged" % len(res)
