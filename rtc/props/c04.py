"""C04 bounded stand-in: the REAL `gaftools index` + `gaftools view -n N1 -n N2 ... [-g rGFA -f fmt]` on tiny rGFAs x small GAF
files (unstable / stable, text / BGZF) x node lists (every single node, pairs, random lists with repeats in any order, lists with
and of unaligned nodes).  Oracle: the records that traverse at least one named node by definition, once each, in file order;
CommandLineError('No alignments found...') when there is none; content equal to the input record; with --format equal to the
whole-file conversion restricted to the same records; no selection and no format reproduces the file."""
import itertools
import os
import zlib

from rtc import viewlib as V
from rtc import defects


def _fkey(gf):
    return zlib.crc32(("\n".join(gf.g.lines()) + "\n##\n" + "\n".join(gf.lines)).encode()), gf.bgzf


class Indexed:
    """graph + GAF file + real index + cached whole-file conversion"""

    def __init__(self, d, g, gfa, gf):
        self.d, self.g, self.gfa, self.gf = d, g, gfa, gf
        self.fk = _fkey(gf)
        self.fmt = "unstable" if gf.stable else "stable"
        self._conv = None
        self.n_out = 0
        V.run_index(gf.path, gfa)

    def conv(self):
        if self._conv is None:
            self._conv = V.view(self.gf.path, gfa=self.gfa, fmt=self.fmt)
        return self._conv

    def out(self, use_file):
        if not use_file:
            return None
        self.n_out += 1
        return os.path.join(self.d, "out%d.gaf" % self.n_out)

    def kind(self):
        gf = self.gf
        return "%s %s GAF of %d records" % ("stable" if gf.stable else "unstable", "BGZF" if gf.bgzf else "text", len(gf.recs))


def expected_outcome(ix, nodes, fmt):
    """-> ("ok", [lines]) | ("cle",) | None (no expectation: the whole-file conversion itself fails)"""
    sel = ix.gf.select(nodes)
    if not sel:
        return ("cle",)
    if not fmt:
        return ("ok", [ix.gf.lines[i] for i in sel])
    conv = ix.conv()
    if conv[0] != "ok" or len(conv[1]) != len(ix.gf.recs):
        return None
    return ("ok", [conv[1][i] for i in sel])


def check_query(ctx, ix, nodes, fmt, section, use_file=False):
    nodes = list(nodes)
    case = ix.gf.to_case(nodes=nodes, format=fmt, to_file=use_file)
    want = expected_outcome(ix, nodes, fmt)
    if want is None:
        return True
    ctx.case(section, ix.fk + (tuple(nodes), fmt), sample={"file": ix.kind(), "nodes": nodes, "format": fmt,
                                                          "expected": want[0] if want[0] != "ok" else [l.split("\t")[0] for l in want[1]]})
    got = V.view(ix.gf.path, gfa=ix.gfa if fmt else None, fmt=fmt, nodes=nodes, out=ix.out(use_file))
    al = ix.gf.aligned_nodes()
    desc = "view %s%s on a %s (aligned nodes %s; paths %s)" % (" ".join("-n " + n for n in nodes), " -f " + fmt if fmt else "", ix.kind(),
                                                           sorted(al), [r[5] for r in ix.gf.recs][:12])
    if want[0] == "cle":
        if got[0] != "cle" or not got[1].startswith("No alignments found"):
            ctx.fail(section, "%s: none of the nodes has alignments, expected CommandLineError('No alignments found...'), got %s" % (desc, V.describe(got)), case)
            return False
        return True
    if got[0] != "ok":
        ctx.fail(section, "%s: expected records %s, got %s" % (desc, [l.split("\t")[0] for l in want[1]], V.describe(got)), case)
        return False
    if [l.split("\t") for l in got[1]] != [l.split("\t") for l in want[1]]:
        gn, wn = [l.split("\t")[0] for l in got[1]], [l.split("\t")[0] for l in want[1]]
        if gn != wn:
            what = "expected records %s (each once, file order), got %s" % (wn, gn)
        else:
            k = [i for i in range(len(wn)) if got[1][i] != want[1][i]][0]
            what = "record %s comes out as %r, expected %r" % (wn[k], got[1][k], want[1][k])
        ctx.fail(section, "%s: %s" % (desc, what), case)
        return False
    return True


def check_whole(ctx, ix, use_file):
    ctx.case("whole-file", ix.fk)
    got = V.view(ix.gf.path, out=ix.out(use_file))
    if got != ("ok", ix.gf.lines):
        ctx.fail("whole-file", "view without selection and format on a %s does not reproduce the file: got %s" % (ix.kind(), V.describe(got)),
                 ix.gf.to_case(nodes=[], format=None, to_file=use_file))


def node_lists(rng, g, gf, quick):
    """the node lists tried on one file"""
    ids = [s.id for s in g.segs]
    al = gf.aligned_nodes()
    un = [n for n in ids if n not in al]
    out = [[n] for n in ids]                                       # every single node
    pairs = list(itertools.permutations(ids, 2))
    out += rng.sample(pairs, min(len(pairs), 6 if quick else 40))  # ordered pairs
    out += [[n, n] for n in rng.sample(ids, min(2, len(ids)))]      # a repeated node
    if un:
        out.append(list(un))                                        # only unaligned nodes
        out.append(un[:1] * 2)
        for _ in range(3):
            a = rng.choice(sorted(al))
            lst = [a] + rng.sample(un, rng.randint(1, len(un)))
            rng.shuffle(lst)
            out.append(lst)                                         # aligned + unaligned, any order
    for _ in range(4 if quick else 25):                            # random lists with repeats
        out.append([rng.choice(ids) for _ in range(rng.randint(2, 6))])
    out.append(list(ids))
    out.append(list(reversed(ids)))
    return out


def run(ctx):
    for name, fn in sorted(defects.for_property("C04").items()):
        try:
            ok, detail = fn()
        except BaseException as e:  # noqa
            ok, detail = False, "raised %s: %s" % (type(e).__name__, e)
        ctx.case("regression", name)
        if not ok:
            ctx.fail("regression", "repaired defect %s is back: %s" % (name, detail), {"type": "defect", "name": name})
    rng = ctx.rng
    n_graphs = 150 if ctx.quick else 5000
    budget = 45 if ctx.quick else 700
    ctx.bound("<= %d random valid rGFAs (1-2 chromosomes of 2-5 reference segments of length 1-3, 0-3 bubbles with separated/adjacent/mixed "
              "haplotype segments, optional inversion / self link / back link / tip) x 2 GAF files each (unstable, stable; text or BGZF at "
              "random) of 1-12 records over walks of <= 4 steps (walks revisiting a node over-represented; few records so that unaligned "
              "nodes exist); read names without blanks, no ds:Z: tag, no repeated tag" % n_graphs)
    ctx.bound("node lists per file: every single node, %s ordered pairs, repeated node, all unaligned nodes, aligned+unaligned mixes, %s random "
              "lists of 2-6 nodes with repeats, all nodes in both orders; every list without --format, %s of them also with --format "
              "(stable for unstable input, unstable for stable input); output alternately captured from stdout and written to a file"
              % ("6" if ctx.quick else "40", "4" if ctx.quick else "25", "a third" if ctx.quick else "half"))
    ctx.bound("one multi-block BGZF file (> 64 KiB) per run with single-node and random queries")
    nq = 0
    for gi in range(n_graphs):
        g = V.random_graph(rng)
        d = ctx.dir("c04")
        gfa = V.write_graph(d, g)
        for stable in (False, True):
            n = rng.choice([1, 1, 2, 3, 4, 6, 12])
            recs = V.make_records(g, rng, n, stable, direct=rng.random() < 0.5)
            bg = rng.random() < 0.4
            gf = V.GafFile(os.path.join(d, "%s.gaf%s" % ("s" if stable else "u", ".gz" if bg else "")), g, recs, bg)
            try:
                ix = Indexed(d, g, gfa, gf)
            except BaseException as e:  # noqa
                ctx.case("index", _fkey(gf))
                ctx.fail("index", "gaftools index raised %s: %s" % (type(e).__name__, e), gf.to_case(nodes=[], format=None))
                continue
            check_whole(ctx, ix, use_file=gi % 2 == 0)
            sec = "%s-%s" % ("stable" if stable else "unstable", "bgzf" if bg else "text")
            for lst in node_lists(rng, g, gf, ctx.quick):
                nq += 1
                check_query(ctx, ix, lst, None, sec, use_file=nq % 3 == 0)
                if rng.random() < (0.34 if ctx.quick else 0.5):
                    check_query(ctx, ix, lst, ix.fmt, sec + "-format", use_file=nq % 4 == 0)
        if ctx.out_of_time(budget):
            break
    # text variants: byte offsets differ from character counts (UTF-8 read names / Z values), Z values with blanks, CR LF line ends
    # (added after seeded changes C04-5 and C04-6)
    n_tv = 2 if ctx.quick else 12
    ctx.bound("text variants: %d graphs x {multi-byte UTF-8 read names, Z values with blanks and UTF-8, CR LF line ends} x plain text and BGZF, "
              "unstable and stable, 3-12 records; whole file + the node lists of the main section, with and without --format" % n_tv)
    for ti in range(n_tv):
        g = V.random_graph(rng, hap_mode="separated")
        d = ctx.dir("c04text")
        gfa = V.write_graph(d, g)
        for stable in (False, True):
            recs = V.make_records(g, rng, rng.choice([3, 5, 12]), stable)
            variants = {
                "utf8-read-name": ([["r\u00e9ad\u4e2d%d" % i] + list(r[1:]) for i, r in enumerate(recs)], "\n"),
                "z-value-with-blanks": ([list(r) + ["co:Z:mapped with caf\u00e9 0.%d \u2713" % i, "rg:Z:sample %d" % i] for i, r in enumerate(recs)], "\n"),
                "crlf": ([list(r) for r in recs], "\r\n"),
            }
            for vname, (vrecs, eol) in variants.items():
                for bg in (False, True):
                    gf = V.GafFile(os.path.join(d, "%s-%s.gaf%s" % (vname, "s" if stable else "u", ".gz" if bg else "")), g, vrecs, bg, eol=eol)
                    try:
                        ix = Indexed(d, g, gfa, gf)
                    except BaseException as e:  # noqa
                        ctx.case("index", _fkey(gf))
                        ctx.fail("index", "gaftools index raised %s: %s on a %s file" % (type(e).__name__, e, vname), gf.to_case(nodes=[], format=None))
                        continue
                    check_whole(ctx, ix, use_file=bg)
                    for lst in node_lists(rng, g, gf, True)[:14]:
                        nq += 1
                        check_query(ctx, ix, lst, None, "text-variants", use_file=nq % 3 == 0)
                        if nq % 3 == 1:
                            check_query(ctx, ix, lst, ix.fmt, "text-variants-format", use_file=nq % 4 == 0)
    # one large BGZF file
    g = V.random_graph(rng, hap_mode="separated")
    d = ctx.dir("c04big")
    gfa = V.write_graph(d, g)
    for stable in ((False,) if ctx.quick else (False, True)):
        recs = V.pad_records(V.make_records(g, rng, 200, stable), rng, 90000, boundary_exact=True)
        gf = V.GafFile(os.path.join(d, "big%d.gaf.gz" % stable), g, recs, True)
        ix = Indexed(d, g, gfa, gf)
        check_whole(ctx, ix, use_file=True)
        for lst in [[s.id] for s in g.segs] + [[rng.choice(g.segs).id for _ in range(3)] for _ in range(5)]:
            check_query(ctx, ix, lst, None, "multi-block-bgzf")
            check_query(ctx, ix, lst, ix.fmt, "multi-block-bgzf-format", use_file=True)
    return ("each case = one (graph, indexed GAF file, node list, format) query answered by the real view code vs. the records that traverse a "
            "named node by definition (once, file order, content equal to the input / to the whole-file conversion); 'whole-file' = view "
            "without selection; distinct = distinct (graph text, GAF text, compression, node list, format)")


def replay(ctx, rec):
    c = rec["case"]
    if c.get("type") == "defect":
        return defects.ALL[c["name"]]()
    d, g, gfa, gf = V.load_case(ctx, c)
    sub = type(ctx)(ctx.pid, "quick", 0, d)
    try:
        ix = Indexed(d, g, gfa, gf)
    except BaseException as e:  # noqa
        return False, "gaftools index raised %s: %s" % (type(e).__name__, e)
    if c.get("nodes"):
        check_query(sub, ix, c["nodes"], c.get("format"), "replay", use_file=c.get("to_file", False))
    else:
        check_whole(sub, ix, c.get("to_file", False))
    return not sub.failures, (sub.failures[0]["what"] if sub.failures else "output equals the oracle")
