"""C01 bounded stand-in: the REAL `gaftools view --format stable|unstable` on tiny rGFAs x walks x offsets; an
independent speller checks that the converted record designates the same bases, that the path length is the
length of the converted path (contig length for a bare contig) and that the CIGAR is reversed iff the strand flips."""
import os

from rtc import convlib
from rtc.gen import make_rgfa, gaf_record, write_lines, all_ranges, colon_contigs, rename_ids


def cases(ctx, n_graphs, max_steps):
    for gi in range(n_graphs):
        g = make_rgfa(ctx.rng, n_ref=ctx.rng.randint(2, 5), max_len=3, n_bubbles=ctx.rng.randint(0, 2),
                      hap_mode=ctx.rng.choice(["adjacent", "separated", "mixed"]), inversion=ctx.rng.random() < 0.5,
                      self_link=ctx.rng.random() < 0.2, n_chrom=ctx.rng.choice([1, 1, 2]))
        if gi % 5 == 3:
            g = colon_contigs(g)  # contig names containing ':' (F18)
        if gi % 4 == 2:
            g = rename_ids(g, ("dash", "dot", "hash")[gi % 3])  # segment names with punctuation: utig4-12, ptg012l.2, n#12 (after seeded change C01-5)
        walks = g.walks(max_steps)
        if len(walks) > 60:
            walks = ctx.rng.sample(walks, 60)
        recs = []
        for w in walks:
            rs = all_ranges(g, w)
            if len(rs) > 6:
                rs = ctx.rng.sample(rs, 6)
            for (s, e) in rs:
                cg = "1=%dX" % (e - s - 1) if e - s > 1 else "1="
                recs.append((w, s, e, gaf_record(g, w, s, e, name="q%d" % len(recs), cigar=cg, tags=("NM:i:1",))))
        yield gi, g, recs


def run(ctx):
    n_graphs = 12 if ctx.quick else 150
    ctx.bound("%d random valid rGFAs (2-5 reference segments of length 1-3 per chromosome, 0-2 bubbles, adjacent/separated haplotype "
              "segments, optional inversion/self link, 1-2 chromosomes; every second file with its S / L lines shuffled) x walks of <= 4 steps (<= 60 sampled) x <= 6 (start,end) pairs" % n_graphs)
    for gi, g, recs in cases(ctx, n_graphs, 4):
        d = ctx.dir("c01")
        gfa = os.path.join(d, "g.gfa")
        order = None
        if gi % 2 == 1:
            # an rGFA need not list its lines in any order: shuffled S / L lines, so the segments of a contig are NOT in SO order in the file
            # (added after seeded change C01-4)
            order = list(range(len(g.lines())))
            ctx.rng.shuffle(order)
        g.write(gfa, order=order)
        g.written_lines = [g.lines()[i] for i in order] if order is not None else g.lines()
        ugaf = os.path.join(d, "u.gaf")
        write_lines(ugaf, [r[3] for r in recs])
        try:
            st = convlib.view(ugaf, gfa, "stable", os.path.join(d, "s.gaf"))
        except BaseException as e:  # noqa
            ctx.fail("to-stable", "view --format stable raised %s: %s" % (type(e).__name__, e), _case(g, [r[3] for r in recs]))
            continue
        if len(st) != len(recs):
            ctx.fail("to-stable", "%d records in, %d out" % (len(recs), len(st)), _case(g, [r[3] for r in recs]))
            continue
        for (w, s, e, f), line in zip(recs, st):
            check_pair(ctx, g, f, line.split("\t"), "to-stable")
        # and back: stable (gaftools' own output) -> unstable
        sgaf = os.path.join(d, "s.gaf")
        try:
            un = convlib.view(sgaf, gfa, "unstable", os.path.join(d, "u2.gaf"))
        except BaseException as e:  # noqa
            ctx.fail("to-unstable", "view --format unstable raised %s: %s" % (type(e).__name__, e), _case(g, st))
            continue
        if len(un) != len(st):
            ctx.fail("to-unstable", "%d records in, %d out" % (len(st), len(un)), _case(g, st))
            continue
        for sline, uline in zip(st, un):
            check_pair(ctx, g, sline.split("\t"), uline.split("\t"), "to-unstable")
        if ctx.out_of_time(120 if ctx.quick else 1500):
            break
    return ("each case = one (graph, walk, start, end) record converted by the real CLI code and its image converted back; non-trivial = "
            "distinct (graph, path, start, end); oracle = independent speller over the node / contig sequences")


def check_pair(ctx, g, before, after, section):
    key = (tuple(g.lines()[:3]), before[5], before[7], before[8], before[4])
    ctx.case(section, key, sample={"before": before[:9], "after": after[:9]})
    try:
        b_seq, b_len = convlib.designated(g, before)
        a_seq, a_len = convlib.designated(g, after)
    except Exception as e:  # noqa
        ctx.fail(section, "converted record is not spellable: %s: %s -> %s" % (e, before[4:9], after[4:9]), _case(g, ["\t".join(before)]))
        return
    what = None
    if b_seq != a_seq:
        what = "designated bases differ: %s (%s) -> %s (%s)" % (before[4:9], b_seq, after[4:9], a_seq)
    elif int(after[6]) != a_len:
        what = "path length field %s but the converted path has length %d: %s" % (after[6], a_len, after[4:9])
    else:
        cb, ca = convlib.get_cigar(before), convlib.get_cigar(after)
        flipped = before[4] != after[4]
        want = "".join(reversed(convlib.cigar_tokens(cb))) if flipped else cb
        if ca != want:
            what = "strand %s -> %s but CIGAR %s -> %s" % (before[4], after[4], cb, ca)
        elif before[:4] != after[:4] or before[9:12] != after[9:12]:
            what = "untouched columns changed: %s -> %s" % (before, after)
    if what:
        ctx.fail(section, what, _case(g, ["\t".join(before)], fmt="stable" if section == "to-stable" else "unstable"))


def _case(g, lines, fmt="stable"):
    return {"gfa": getattr(g, "written_lines", None) or g.lines(), "gaf": list(lines) if isinstance(lines[0], str) else ["\t".join(l) for l in lines], "format": fmt}


def replay(ctx, rec):
    from rtc.gen import Graph, Seg
    c = rec["case"]
    d = ctx.dir("replay")
    open(os.path.join(d, "g.gfa"), "w").write("\n".join(c["gfa"]) + "\n")
    segs = []
    for l in c["gfa"]:
        p = l.split("\t")
        if p[0] == "S":
            t = {x.split(":")[0]: x.split(":", 2)[2] for x in p[3:]}
            segs.append(Seg(p[1], p[2], t.get("SN"), int(t.get("SO", 0)), int(t.get("SR", 0))))
    g = Graph(segs, [])
    open(os.path.join(d, "in.gaf"), "w").write("\n".join(c["gaf"]) + "\n")
    try:
        out = convlib.view(os.path.join(d, "in.gaf"), os.path.join(d, "g.gfa"), c.get("format", "stable"), os.path.join(d, "o.gaf"))
    except BaseException as e:  # noqa
        return False, "raised %s: %s" % (type(e).__name__, e)
    sub = type(ctx)(ctx.pid, "quick", 0, d)
    for a, b in zip(c["gaf"], out):
        check_pair(sub, g, a.split("\t"), b.split("\t"), "to-" + c.get("format", "stable"))
    return not sub.failures, (sub.failures[0]["what"] if sub.failures else "conversion designates the same bases")
