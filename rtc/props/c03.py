"""C03 bounded stand-in: the REAL `gaftools index` on tiny rGFAs x small GAF files (unstable / stable coordinates, plain text /
BGZF, incl. files beyond one 64 KiB BGZF block, a record starting exactly on a block boundary and a line longer than a block).
For every node of the graph the pickled entry keyed (id, SN, SO, SO+LN) must list exactly the starting offsets of the records
that traverse the node (own definition of 'traverses', own offset computation with an own BGZF block reader), and the real
GAF.read_line at every listed offset must return precisely that record (also cross-checked with an own seek)."""
import os
import zlib

from rtc import viewlib as V
from rtc import defects


def _fkey(gf):
    return zlib.crc32(("\n".join(gf.g.lines()) + "\n##\n" + "\n".join(gf.lines)).encode()), gf.bgzf


def own_parse(fields):
    """the record as (name, 11 mandatory values, tags) parsed independently"""
    tags = {}
    for t in fields[12:]:
        tags.setdefault(t[:5], t[5:])
    return (fields[0], int(fields[1]), int(fields[2]), int(fields[3]), fields[4], fields[5], int(fields[6]), int(fields[7]),
            int(fields[8]), int(fields[9]), int(fields[10]), int(fields[11]), tags)


def aln_tuple(a):
    return (a.query_name, a.query_length, a.query_start, a.query_end, a.strand, a.path, a.path_length, a.path_start, a.path_end,
            a.residue_matches, a.alignment_block_length, a.mapping_quality, dict(a.tags))


def check_file(ctx, gf, gfa, section, per_node_cases=True):
    """index gf with the real code and compare with the oracle; returns number of problems reported"""
    case = gf.to_case()
    big = gf.size > 20000
    if big:  # keep replay files small: the padding is regenerated from (name, length)
        case = gf.to_case(gaf=[_squeeze(l) for l in gf.lines], squeezed=True)
    fk = _fkey(gf)
    kind = "%s %s GAF, %d records, %d bytes, %d BGZF block(s)" % ("stable" if gf.stable else "unstable", "BGZF" if gf.bgzf else "text",
                                                             len(gf.recs), gf.size, gf.n_blocks)
    try:
        ind = V.run_index(gf.path, gfa)
    except BaseException as e:  # noqa
        ctx.case(section, fk)
        ctx.fail(section, "gaftools index raised %s: %s on a %s; first record %s" % (type(e).__name__, e, kind, gf.recs[0][:9] if gf.recs else None), case)
        return 1
    bad = 0
    tab = V.node_table(gf.g)
    exp = gf.expected_index()
    valid_keys = {(n,) + tab[n] for n in tab}
    got_keys = [k for k in ind if isinstance(k, tuple)]
    for k in got_keys:
        if k not in valid_keys:
            ctx.fail(section, "index has the entry %r which is not (id, SN, SO, SO+LN) of a node of the graph (%s)" % (k, kind), case)
            bad += 1
    for n in sorted(tab):
        key = (n,) + tab[n]
        want = exp.get(key, set())
        raw = ind.get(key)
        ctx.case(section, fk + (n,), nontrivial=True,
                 sample={"node": key, "offsets": sorted(want), "file": kind})
        if raw is None:
            # the entry may be filed under a wrong key
            other = [k for k in got_keys if k[0] == n]
            if want:
                ctx.fail(section, "node %s is traversed by record(s) %s but has no entry keyed %r (entries of that node: %r) (%s)"
                         % (n, [gf.recs[gf.by_offset[o]][0][:20] for o in sorted(want)][:5], key, other, kind), case)
                bad += 1
            continue
        got = {gf.canonical(o) for o in raw}
        if got != want:
            false = sorted(got - want)
            missing = sorted(want - got)
            ctx.fail(section, "entry of node %s %r: false offsets %s (-> %s), missing offsets %s (records %s) (%s)"
                     % (n, key[1:], false[:5], [_short(gf.line_at(o)) for o in false[:3]], missing[:5],
                        [_rshort(gf.recs[gf.by_offset[o]]) for o in missing[:3]], kind), case)
            bad += 1
    # seeking
    from gaftools.gaf import GAF
    offs = sorted({o for k in got_keys for o in ind[k]}, key=lambda x: (str(type(x)), x))
    if offs:
        reader = GAF(gf.path)
        try:
            for o in offs:
                ctx.case(section + "-seek", fk + (o,))
                i = gf.by_offset.get(gf.canonical(o))
                if i is None:
                    ctx.fail(section + "-seek", "listed offset %r is not the start of a record; it points at %r (%s)" % (o, _short(gf.line_at(o)), kind), case)
                    bad += 1
                    continue
                try:
                    a = reader.read_line(o)
                    got = aln_tuple(a)
                except BaseException as e:  # noqa
                    ctx.fail(section + "-seek", "GAF.read_line(%r) raised %s: %s (%s)" % (o, type(e).__name__, e, kind), case)
                    bad += 1
                    continue
                if got != own_parse(gf.recs[i]) or gf.line_at(o) != gf.lines[i]:
                    ctx.fail(section + "-seek", "GAF.read_line(%r) returned %s, the record starting there is %s (%s)"
                             % (o, [str(x)[:24] for x in got[:9]], _rshort(gf.recs[i]), kind), case)
                    bad += 1
        finally:
            reader.close()
    return bad


def _rshort(r):
    return [x[:24] for x in r[:9]]


def _short(l):
    return None if l is None else (l[:80] + "..." if len(l) > 80 else l)


def _squeeze(line):
    f = line.split("\t")
    if len(f[0]) > 40:
        head, _, tail = f[0].partition("_")
        f[0] = "%s_*%d" % (head, len(tail))
    return "\t".join(f)


def _unsqueeze(line):
    f = line.split("\t")
    if "_*" in f[0]:
        head, n = f[0].split("_*")
        f[0] = head + "_" + "p" * int(n)
    return "\t".join(f)


def run(ctx):
    for name, fn in sorted(defects.for_property("C03").items()):
        try:
            ok, detail = fn()
        except BaseException as e:  # noqa
            ok, detail = False, "raised %s: %s" % (type(e).__name__, e)
        ctx.case("regression", name)
        if not ok:
            ctx.fail("regression", "repaired defect %s is back: %s" % (name, detail), {"type": "defect", "name": name})
    rng = ctx.rng
    n_graphs = 300 if ctx.quick else 20000
    budget = 45 if ctx.quick else 600
    ctx.bound("%s random valid rGFAs (1-2 chromosomes of 2-5 reference segments of length 1-3 (1-6 in a third of the thorough graphs), 0-3 "
              "bubbles whose alleles are haplotype contigs with separated/adjacent/mixed segments, optional inversion, self link, back link, tip) "
              "x 4 GAF files each (unstable and stable coordinates x plain text and BGZF) of 1-25 records over walks of <= 4 steps "
              "(walks revisiting a node over-represented); stable files are written by an own converter (bare contig / merged intervals / "
              "one interval per node) plus directly written records: intervals not aligned to node boundaries and bare paths of "
              "reference and haplotype contigs" % ("<= %d" % n_graphs))
    ctx.bound("large files per run: %s; one text file > 64 KiB; one empty text and one empty BGZF file; a record longer than one BGZF block"
              % ("2 multi-block BGZF files (70-140 KiB, one with a record starting exactly at the 65280-byte block boundary)" if ctx.quick
                 else "12 multi-block BGZF files (70-400 KiB, half with a record starting exactly at the 65280-byte block boundary)"))
    # --- many small files ----------------------------------------------------------------------------------
    for gi in range(n_graphs):
        wide = (not ctx.quick) and gi % 3 == 2
        g = V.random_graph(rng, hap_mode=rng.choice(["separated", "separated", "separated", "mixed", "adjacent"]), max_len=6 if wide else 3)
        d = ctx.dir("c03")
        gfa = V.write_graph(d, g)
        for stable in (False, True):
            n = rng.choice([1, 2, 3, 5, 8, 13, 25])
            recs = V.make_records(g, rng, n, stable)
            for bg in (False, True):
                gf = V.GafFile(os.path.join(d, "%s.gaf%s" % ("s" if stable else "u", ".gz" if bg else "")), g, recs, bg)
                sec = "%s-%s" % ("stable" if stable else "unstable", "bgzf" if bg else "text")
                check_file(ctx, gf, gfa, sec)
        if ctx.out_of_time(budget):
            break
    # --- the large files (the property demands at least one per run; not subject to the time budget) ------------------------------------
    n_big = 2 if ctx.quick else 12
    for bi in range(n_big):
        g = V.random_graph(rng, hap_mode="separated")
        d = ctx.dir("c03big")
        gfa = V.write_graph(d, g)
        stable = bi % 2 == 1
        size = rng.randint(70000, 140000 if ctx.quick else 400000)
        recs = V.make_records(g, rng, rng.randint(150, 500), stable)
        recs = V.pad_records(recs, rng, size, boundary_exact=(bi % 2 == 0))
        if bi == 0:
            k = rng.randint(0, len(recs) - 1)
            recs[k][0] = recs[k][0] + "p" * 70000  # a line longer than one block
        gf = V.GafFile(os.path.join(d, "big.gaf.gz"), g, recs, True)
        assert gf.n_blocks >= 2, gf.n_blocks
        check_file(ctx, gf, gfa, "multi-block-bgzf")
        if bi == 1:
            gf = V.GafFile(os.path.join(d, "big.gaf"), g, recs, False)
            check_file(ctx, gf, gfa, "large-text")
    # --- text variants: byte offsets differ from character counts (UTF-8), lines end in CR LF (added after seeded change C03-3) ----------
    ctx.bound("text variants: 3 graphs x {multi-byte UTF-8 read names, a UTF-8 Z value, CR LF line ends} x plain text and BGZF, unstable and stable, 3-12 records")
    for ti in range(3):
        g = V.random_graph(rng, hap_mode="separated")
        d = ctx.dir("c03text")
        gfa = V.write_graph(d, g)
        for stable in (False, True):
            recs = V.make_records(g, rng, rng.choice([3, 5, 12]), stable)
            variants = {
                "utf8-read-name": ([["r\u00e9ad\u4e2d%d" % i] + list(r[1:]) for i, r in enumerate(recs)], "\n"),
                "utf8-z-value": ([list(r) + ["co:Z:caf\u00e9 \u2713"] for r in recs], "\n"),
                "crlf": ([list(r) for r in recs], "\r\n"),
            }
            for vname, (vrecs, eol) in variants.items():
                for bg in (False, True):
                    gf = V.GafFile(os.path.join(d, "%s-%s.gaf%s" % (vname, "s" if stable else "u", ".gz" if bg else "")), g, vrecs, bg, eol=eol)
                    check_file(ctx, gf, gfa, "text-variants")
    # --- empty files ---------------------------------------------------------------------------------------
    g = V.random_graph(rng)
    d = ctx.dir("c03empty")
    gfa = V.write_graph(d, g)
    for bg in (False, True):
        gf = V.GafFile(os.path.join(d, "e.gaf" + (".gz" if bg else "")), g, [], bg)
        check_file(ctx, gf, gfa, "empty-file")
    return ("each case = one (graph, GAF file, node): the real index entry of the node vs. the set of starting offsets of the records that "
            "traverse it by definition (own BGZF virtual-offset computation); '-seek' cases = one (file, listed offset): the real "
            "GAF.read_line must return exactly the record that starts there; distinct = distinct (graph text, GAF text, compression, node/offset)")


def replay(ctx, rec):
    c = rec["case"]
    if c.get("type") == "defect":
        ok, detail = defects.ALL[c["name"]]()
        return ok, detail
    if c.get("squeezed"):
        c = dict(c, gaf=[_unsqueeze(l) for l in c["gaf"]])
    d, g, gfa, gf = V.load_case(ctx, c)
    sub = type(ctx)(ctx.pid, "quick", 0, d)
    check_file(sub, gf, gfa, "replay")
    return not sub.failures, (sub.failures[0]["what"] if sub.failures else "index entries and seeks agree with the oracle")
