"""C12 bounded stand-in: the REAL `gaftools realign` (realign_gaf + wfa_alignment in a real worker process) on tiny
graphs WITH sequences x walks with reverse steps x reads derived from the spelled walk slice by 0-3 random
substitutions / insertions / deletions x input CIGARs of several kinds (optimal, fragmented, random valid, runs written
in pieces, none, invalid).  An independent oracle (own speller, own CIGAR replayer, own gap-affine cost, own Gotoh
aligner for the optimal input CIGARs) checks every output record; records with > 60000 read bases must come out
byte-identical."""
import hashlib
import shutil

from rtc import realignlib as L


def _key(src, reads):
    f = src.split("\t")
    return hashlib.sha1((src + "|" + reads[f[0]]).encode()).hexdigest()


def _single_case(case, idx, reads):
    src = case["gaf"][idx]
    name = src.split("\t")[0]
    return {"gfa": case["gfa"], "gaf": [src], "fasta": [[name, reads[name]]], "cores": 1}


def check_file(ctx, case, section, localise=True):
    """run the real code on the whole file; evaluate every record -> number of failures reported"""
    d = ctx.dir("c12")
    paths = L.write_case(d, case, wrap=ctx.rng.choice([None, None, 50]) if section == "realigned" else None)
    reads = dict((a, b) for a, b in case["fasta"])
    segs = L.node_seqs(case)
    outcome, text, detail = L.call_realign(paths, 1)
    lines = text.split("\n")[:-1] if text.endswith("\n") else text.split("\n")
    nfail = 0
    if outcome != "ok" or len(lines) != len(case["gaf"]):
        what = "realign %s on a file of %d records (%d lines written)" % (
            "ended with " + detail if outcome != "ok" else "returned normally", len(case["gaf"]), len(lines))
        if localise and len(case["gaf"]) > 1:
            for i in range(len(case["gaf"])):
                sub = _single_case(case, i, reads)
                n = check_file(ctx, sub, section, localise=False)
                nfail += n
            if nfail:
                return nfail
        for i, src in enumerate(case["gaf"]):
            ctx.case(section, _key(src, reads))
        small = case if len(case["gaf"]) == 1 else dict(case, cores=1)
        ctx.fail(section, what + "; first record %s" % case["gaf"][0].split("\t")[:9], small)
        return 1
    for i, (src, out) in enumerate(zip(case["gaf"], lines)):
        f = src.split("\t")
        qs, qe, ps, pe = int(f[2]), int(f[3]), int(f[7]), int(f[8])
        read = reads[f[0]][qs:qe]
        nontrivial = "<" in f[5] or qe - qs > L.LONG or read != L.spell_path(segs, f[5])[ps:pe]
        ctx.case(section, _key(src, reads), nontrivial=nontrivial,
                 sample={"in": [x[:60] for x in f], "out": [x[:60] for x in out.split("\t")]})
        err = L.check_record(case, src, out, segs, reads)
        if err:
            nfail += 1
            ctx.fail(section, "record %s (read slice %s): %s" % (f[:9], read[:40], err), _single_case(case, i, reads))
    return nfail


def long_case(rng, n_read, n_extra_path, reverse, kind):
    """one record whose read slice has n_read bases on a walk through a long node"""
    g = L.make_graph(rng, max_len=8, long_node=n_read + 40)
    last = [s for s in g.segs if s.sr == 0][-1]
    walk = [("big", "<")] if reverse else [(last.id, ">"), ("big", ">")]
    if reverse and rng.random() < 0.5:
        walk = [("big", "<"), (last.id, "<")]
    assert g.is_walk(walk)
    reads = {}
    rec = L.make_record(rng, g, walk, 0, "longread", reads, kind=kind, max_edits=3, long_slice=(n_read, n_read + n_extra_path))
    return {"gfa": g.lines(), "gaf": ["\t".join(rec)], "fasta": [[k, v] for k, v in reads.items()]}


def indel_case(rng, n, gap, reverse):
    """one record with n read bases (20000 < n <= 60000) whose valid input CIGAR has a deletion of `gap` bases compensated further down by an
    insertion of `gap` bases: cost 2 * (6 + 2 * gap); the exact aligner cannot do worse, a band / adaptive heuristic can"""
    g = L.make_graph(rng, max_len=8, long_node=n + 200)
    last = [s for s in g.segs if s.sr == 0][-1]
    walk = [("big", "<")] if reverse else [(last.id, ">"), ("big", ">")]
    assert g.is_walk(walk)
    spelled = g.spell(walk)
    pl = len(spelled)
    ps = pl - n - rng.randint(0, 40)
    pe = ps + n
    ref = spelled[ps:pe]
    a, b = n // 4, (2 * n) // 3
    ins = "".join(rng.choice("ACGT") for _ in range(gap))
    core = ref[:a] + ref[a + gap:b] + ins + ref[b:]
    cg = "%d=%dD%d=%dI%d=" % (a, gap, b - a - gap, gap, n - b)
    left = "".join(rng.choice("ACGT") for _ in range(rng.randint(0, 4)))
    read = left + core + "AC"
    path = "".join(o + nid for nid, o in walk)
    rec = ["longindel", str(len(read)), str(len(left)), str(len(left) + len(core)), "+", path, str(pl), str(ps), str(pe), str(n - gap), str(n + gap),
           "60", "rc:i:0", "cg:Z:" + cg]
    return {"gfa": g.lines(), "gaf": ["\t".join(rec)], "fasta": [["longindel", read]]}


def run(ctx):
    rng = ctx.rng
    n_files = 500 if ctx.quick else 12000
    per_file = 30
    ctx.bound("%d random rGFAs with sequences (2-5 reference nodes + 0-2 bubbles + optional inversion/self link, node length 1..L with "
              "L in {5,12,30}) x %d records each: walk of <= 4 steps (half of them with a '<' step), any 0 <= pstart < pend <= path length, "
              "read slice = path slice after 0-3 edits (substitution / insertion of 1,2,5 / deletion of 1,2,5), 0-4 flanking read bases, "
              "strand '+', ACGT only, unique well-formed optional fields (no ds:Z:), input CIGAR kind in {optimal, fragmented once/twice, "
              "random valid path, runs split, none, invalid}; read and path slices non-empty" % (n_files, per_file))
    for fi in range(n_files):
        case = L.make_input(rng, per_file, max_len=rng.choice([5, 12, 12, 30]), max_steps=rng.randint(1, 4))
        check_file(ctx, case, "realigned")
        if ctx.out_of_time(55 if ctx.quick else 700):
            break
    # > 60000 read bases: pass-through; exactly 60000 and 59990: still realigned
    longs = [(60001, 0, False, "simple"), (60000, 3, True, "invalid"), (60002, 1, True, "none")]
    if not ctx.quick:
        longs += [(60001, 2, False, "none"), (60040, 0, True, "invalid"), (60013, 5, False, "simple"), (59990, 0, False, "simple"),
                  (60000, 0, False, "none")]
    ctx.bound("%d records on a 60 kb node with read slices of %s bases (> 60000: must pass through byte-identical whatever the input CIGAR; "
              "<= 60000: realigned)" % (len(longs), sorted({x[0] for x in longs})))
    for n_read, extra, reverse, kind in longs:
        case = long_case(rng, n_read, extra, reverse, kind)
        check_file(ctx, case, "passthrough" if n_read > L.LONG else "boundary-60000")
    # long reads (20001..60000 bases) with a large deletion compensated by a large insertion: the output may not cost more than the input CIGAR
    # (added after seeded change C12-6)
    indels = [(24000, 90, False), (20001, 150, True)] if ctx.quick else [(24000, 90, False), (20001, 150, True), (40000, 300, False), (59999, 60, True)]
    ctx.bound("%d records with %s read bases whose input CIGAR has a deletion of 60-300 bases compensated by an equal insertion 10 kb further on"
              % (len(indels), sorted({x[0] for x in indels})))
    for n, gap, reverse in indels:
        check_file(ctx, indel_case(rng, n, gap, reverse), "long-compensating-indels")
    return ("each case = one GAF record realigned by the real realign_gaf/wfa_alignment (real worker process, --cores 1); distinct = distinct "
            "(record line, read); non-trivial = the walk has a reverse step or the read slice differs from the path slice or the record is "
            "longer than 60000; oracle = own speller + CIGAR replay ('=' equal, 'X' unequal, both slices consumed exactly), columns 10/11 "
            "recomputed from the output CIGAR, gap-affine cost (4, 6+2L) <= cost of the input CIGAR when that is valid (optimal input CIGARs "
            "come from an own Gotoh aligner), other columns/optional fields compared verbatim")


def replay(ctx, rec):
    case = rec["case"]
    sub = type(ctx)(ctx.pid, "quick", 0, ctx.dir("replay"))
    shutil.rmtree(sub.tmp, ignore_errors=True)
    sub.tmp = ctx.tmp
    n = check_file(sub, case, "replay", localise=False)
    return n == 0, (sub.failures[0]["what"] if sub.failures else "every output record is a valid optimal-or-better alignment")
