"""C18 bounded stand-in: order_gfa isolates components it cannot order.

Inputs: rGFAs of 2-4 chromosomes of which a non-empty subset is NOT chain-shaped (branching tips, a tip on an allele, a cycle
with three articulation points, a single block without articulation point: cycle / 2-node component / one big bubble, two
references joined through a haplotype node at a middle node); the independent oracle (rtc.orderlib) confirms for every
component whether its collapsed bubble graph is a path.  For every permutation of the chromosomes (= every position of the
bad ones) the REAL order_gfa must: finish normally (no exception / exit status 0), emit a warning naming each bad chromosome,
write no file and no S line for a bad one, and write for the others exactly (byte for byte) what a run whose
--chromosome_order omits the bad ones writes; the good ones must also satisfy the C06 ordering relation."""
import itertools

from rtc import orderlib as ol


def make_mixed(rng, n_chrom=None, force_kind=None):
    n_chrom = n_chrom or rng.choice([2, 2, 3, 3, 4])
    names = list(rng.choice([["chr1", "chr2", "chr3", "chr4"], ["chrX", "chr1", "chr10", "chr11"], ["A", "B", "C", "D"]]))
    rng.shuffle(names)
    names = names[:n_chrom]
    n_bad = rng.randint(1, n_chrom)
    bad = set(rng.sample(names, n_bad))
    b = ol.Builder(rng, ol.Ids(rng, rng.choice(["s", "s", "alpha", "case"])), extra_tags=0.1, link_tags=0.1, header=rng.random() < 0.2)
    kinds = {}
    for c in names:
        if c in bad:
            kind = force_kind or rng.choice(ol.BAD_KINDS)
            kinds[c] = kind
            ol.add_bad(b, c, kind, other="ref" + c)
        else:
            kinds[c] = "chain"
            ol.add_chain(b, c, rng.randint(1, 6), rng.randint(0, 3), tips=(rng.random() < 0.3, rng.random() < 0.3))
    return b.lines(interleave=rng.random() < 0.5), names, kinds


def classify(lines, names):
    """-> (good, bad) chromosome names by the oracle, or None when some component is outside the domain of C18"""
    _s, _l, by_name, chains = ol.analyse(lines)
    if len(by_name) != len(chains):
        return None
    good, bad = [], []
    for c in names:
        ch = by_name.get(c)
        if ch is None or len(ch.comp) < 2:
            return None
        if ch.linear:
            if not ch.in_domain:
                return None
            good.append(c)
        else:
            if not ch.name_strict:
                return None
            bad.append(c)
    return good, bad


def compare(full, red, order, good, bad, by_chrom, by_name, reported=None):
    """full = run with the bad chromosomes in the order, red = run without them (None when nothing is left)"""
    probs = []
    if not full.ok():
        return ["order_gfa did not complete normally: " + full.describe()]
    reduced = [c for c in order if c in good]
    if by_chrom:
        want = sorted(sum([["g-%s.gfa" % c, "g-%s.csv" % c] for c in reduced], []))
    else:
        want = ["g-complete.csv", "g-complete.gfa"]
    if sorted(full.files) != want:
        probs.append("output files %s, expected %s (nothing for the skipped %s)" % (sorted(full.files), want, [c for c in order if c in bad]))
    bad_nodes = set().union(*[by_name[c].comp for c in order if c in bad])
    for fn, text in full.files.items():
        if fn.endswith(".gfa"):
            hit = [x[0] for x in ol.read_out_gfa(text)[0] if x[0] in bad_nodes]
        else:
            hit = [r[0] for r in ol.read_csv(text) if r[0] in bad_nodes]
        if hit:
            probs.append("%s contains nodes of a skipped component: %s" % (fn, hit[:5]))
    if reported is not None:
        for c in order:
            if c in bad and not any(c in msg for _lvl, msg in reported):
                probs.append("no warning names the skipped chromosome %s (warnings: %s)" % (c, [m for _l, m in reported][:3]))
    if red is not None:
        if not red.ok():
            return probs + ["(reference run without the bad chromosomes failed: %s)" % red.describe()]
        for fn in sorted(red.files):
            if full.files.get(fn) != red.files[fn]:
                probs.append("%s differs from the file written when --chromosome_order omits the skipped chromosome(s)" % fn)
        bono = ol.bono_from_files(full, reduced, by_chrom=by_chrom)
        probs += ol.expected_violations([by_name[c] for c in reduced], bono)
    else:
        for fn, text in full.files.items():
            if text.strip():
                probs.append("%s is not empty although every requested chromosome had to be skipped" % fn)
    return probs


def check(d, case):
    lines, order, by_chrom = case["lines"], case["order"], case["by_chrom"]
    cl = classify(lines, order)
    if cl is None or not cl[1]:
        return ["input outside the domain"]
    good, bad = cl
    by_name = ol.analyse(lines)[2]
    reduced = [c for c in order if c in good]
    if case.get("hashseed") is None:
        full = ol.run_inproc(d, lines, order, by_chrom=by_chrom)
        red = ol.run_inproc(d, lines, reduced, by_chrom=by_chrom) if reduced else None
        return compare(full, red, order, good, bad, by_chrom, by_name, reported=full.warnings)
    full = ol.run_cli(d, lines, order, by_chrom=by_chrom, hashseed=case["hashseed"])
    red = ol.run_cli(d, lines, reduced, by_chrom=by_chrom, hashseed=case["hashseed"]) if reduced else None
    rep = [("WARNING", l) for l in full.stderr.splitlines() if l.startswith("WARNING") or l.startswith("ERROR")]
    return compare(full, red, order, good, bad, by_chrom, by_name, reported=rep)


def run(ctx):
    from rtc import defects
    d = ctx.dir("c18")
    rng = ctx.rng
    quick = ctx.quick
    for name, f in defects.for_property("C18").items():
        ok, detail = f()
        ctx.case("regression", name)
        if not ok:
            ctx.fail("regression", "repaired defect %s is back: %s" % (name, detail), {"type": "defect", "name": name})
    n_graphs = 600 if quick else 20000
    ctx.bound("up to %d generated rGFAs of 2-4 chromosomes, 1..all of them not chain-shaped (kinds %s), the others chains (backbone 2-7, "
              "0-3 ears, tips); every permutation of the chromosomes as --chromosome_order (%s), alternately --by-chrom / complete file; "
              "plus one proper subset order per graph" % (n_graphs, ", ".join(ol.BAD_KINDS), "<= 6 sampled when 4 chromosomes" if quick else "all 24 for 4"))
    cli_cases = []
    seen_kinds = {}
    for gi in range(n_graphs):
        force = ol.BAD_KINDS[gi % len(ol.BAD_KINDS)] if gi < 40 else None
        lines, names, kinds = make_mixed(rng, force_kind=force)
        cl = classify(lines, names)
        if cl is None or not cl[1]:
            continue
        for c in cl[1]:
            k = "single block (whole-backbone ear)" if kinds[c] == "chain" else kinds[c]
            seen_kinds[k] = seen_kinds.get(k, 0) + 1
        perms = [list(p) for p in itertools.permutations(names)]
        if quick and len(perms) > 6:
            perms = rng.sample(perms, 6)
        sub = rng.sample(names, rng.randint(1, len(names)))
        if any(c in cl[1] for c in sub) and sub not in perms:
            perms.append(sub)
        for oi, order in enumerate(perms):
            case = {"lines": lines, "order": order, "by_chrom": (oi + gi) % 2 == 0, "hashseed": None}
            probs = check(d, case)
            ctx.case("skip-and-continue", ol.digest(lines, order, case["by_chrom"]),
                     sample={"order": order, "bad": cl[1], "kinds": kinds})
            if probs:
                ctx.fail("skip-and-continue", "graph #%d (%s), --chromosome_order %s%s: %s" % (
                    gi, ",".join("%s=%s" % kv for kv in sorted(kinds.items())), ",".join(order), " --by-chrom" if case["by_chrom"] else "", probs[0]), case)
        if len(cli_cases) < (4 if quick else 16) and len(names) >= 2:
            cli_cases.append((lines, perms[gi % len(perms)]))
        if ctx.out_of_time(40 if quick else 700):
            break
    ctx.bound("bad components seen per kind: %s" % sorted(seen_kinds.items()))
    ctx.bound("exit status: %d of the graphs through `python -m gaftools order_gfa` (PYTHONHASHSEED=0/1), run with and without the bad chromosomes" % len(cli_cases))
    for i, (lines, order) in enumerate(cli_cases):
        case = {"lines": lines, "order": order, "by_chrom": i % 2 == 0, "hashseed": i % 2}
        probs = check(d, case)
        ctx.case("exit-status", ol.digest(lines, order, case["by_chrom"], "cli"))
        if probs:
            ctx.fail("exit-status", "subprocess, --chromosome_order %s: %s" % (",".join(order), probs[0]), case)
    return ("case = (generated multi-chromosome rGFA with >= 1 non-chain component, --chromosome_order permutation, by-chrom?) through the "
            "real order_gfa, compared with the run that omits the non-chain chromosomes; the oracle decides chain / non-chain from "
            "articulation points and blocks computed by definition; distinct = distinct (file content, order, option)")


def replay(ctx, rec):
    c = rec["case"]
    if c.get("type") == "defect":
        from rtc import defects
        return defects.ALL[c["name"]]()
    probs = check(ctx.dir("replay"), c)
    return not probs, "; ".join(probs[:3]) or "bad components skipped, the others written as in the run without them"
