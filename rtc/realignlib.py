"""Shared harness of the `gaftools realign` bounded stand-ins (C11 exactly-once under every schedule, C12 valid
global alignment, C13 abort when a worker dies).

Independent of gaftools: input generator (graph with sequences, walks with reverse steps, mutated reads, valid
optimal / fragmented / random input CIGARs), an own gap-affine aligner (Gotoh), a CIGAR replayer, and a FAKE
`multiprocessing` module whose Queue / Process obey a schedule.  Only `call_realign*` touch gaftools: they run the
REAL `gaftools.cli.realign.realign_gaf` (and through it the real `wfa_alignment`).

The schedule model (what the collecting parent can observe)
-----------------------------------------------------------
`Process.start()` runs the real target (wfa_alignment) to completion into a PRIVATE buffer: the list of objects the
worker will put (its records, then the sentinel None; cut short at the kill point if the worker is to die).  Nothing
is visible to the parent yet.  Every observation the parent makes is a *choice point* of the world:

  queue.get(timeout)   'd<k>'  worker k's next buffered object has reached the queue and is returned
                       'e'     the read times out (queue.Empty) - whatever is still buffered is "in flight"
  p.is_alive()         'a<k>'  worker k is still running (returns True)
                       'x<k>'  worker k has terminated by now (returns False; from now on exitcode is 0, or the
                               kill code when the worker was killed; objects not yet read stay in the queue)
  p.join()             blocks until termination = same as 'x<k>' (no choice)

A *script* is the list of labels chosen at the successive choice points; after the script ends the default is
progress ('d' of the lowest worker / 'x').  Worker k is the k-th Process object created by realign_gaf (global
index over all groups).  Budgets bound the number of 'e' and 'a' answers so that every schedule is finite; within
the budget EVERY interleaving of parent reads with worker progress/termination is a script (enumerated by
`explore`, sampled by `RandomChooser`).
"""
import io
import itertools
import logging
import os
import queue as pyqueue
import re

from rtc.gen import make_rgfa, revcomp, parse_path, Graph, Seg

MISMATCH, GAP_OPEN, GAP_EXT = 4, 6, 2  # pywfa defaults used by WavefrontAligner(ref): gap of length L costs 6 + 2L
LONG = 60000


# ------------------------------------------------------------------------------------------------
# own gap-affine global aligner (Gotoh) and CIGAR utilities
# ------------------------------------------------------------------------------------------------
def rle(ops):
    out = []
    for op, grp in itertools.groupby(ops):
        out.append("%d%s" % (len(list(grp)), op))
    return "".join(out)


def label_columns(cols, read, ref):
    """cols: string over 'M' (diagonal), 'I' (read base only), 'D' (path base only) -> list of '=','X','I','D'"""
    i = j = 0
    out = []
    for c in cols:
        if c == "M":
            out.append("=" if read[i] == ref[j] else "X")
            i += 1
            j += 1
        elif c == "I":
            out.append("I")
            i += 1
        else:
            out.append("D")
            j += 1
    assert i == len(read) and j == len(ref)
    return out


def optimal_columns(read, ref):
    """optimal gap-affine global alignment (columns over M/I/D) and its cost; O(len(read)*len(ref))"""
    n, m = len(read), len(ref)
    INF = 10 ** 9
    # H: best ending in a diagonal column, E: ending in I (read consumed), F: ending in D (ref consumed)
    H = [[INF] * (m + 1) for _ in range(n + 1)]
    E = [[INF] * (m + 1) for _ in range(n + 1)]
    F = [[INF] * (m + 1) for _ in range(n + 1)]
    H[0][0] = 0
    for i in range(1, n + 1):
        E[i][0] = GAP_OPEN + GAP_EXT * i
    for j in range(1, m + 1):
        F[0][j] = GAP_OPEN + GAP_EXT * j
    for i in range(1, n + 1):
        ri = read[i - 1]
        Hi, Ei, Fi, Hp, Ep, Fp = H[i], E[i], F[i], H[i - 1], E[i - 1], F[i - 1]
        for j in range(1, m + 1):
            Hi[j] = min(Hp[j - 1], Ep[j - 1], Fp[j - 1]) + (0 if ri == ref[j - 1] else MISMATCH)
            Ei[j] = min(Ep[j] + GAP_EXT, min(Hp[j], Fp[j]) + GAP_OPEN + GAP_EXT)
            Fi[j] = min(Fi[j - 1] + GAP_EXT, min(Hi[j - 1], Ei[j - 1]) + GAP_OPEN + GAP_EXT)
    best = min(H[n][m], E[n][m], F[n][m])
    # traceback
    cols = []
    i, j = n, m
    st = "H" if H[n][m] == best else ("E" if E[n][m] == best else "F")
    while i > 0 or j > 0:
        if st == "H":
            v = H[i][j] - (0 if read[i - 1] == ref[j - 1] else MISMATCH)
            cols.append("M")
            i, j = i - 1, j - 1
            st = "H" if H[i][j] == v else ("E" if E[i][j] == v else "F")
        elif st == "E":
            v = E[i][j]
            cols.append("I")
            if i - 1 >= 0 and E[i - 1][j] + GAP_EXT == v:
                st = "E"
            elif H[i - 1][j] + GAP_OPEN + GAP_EXT == v:
                st = "H"
            else:
                st = "F"
            i -= 1
        else:
            v = F[i][j]
            cols.append("D")
            if j - 1 >= 0 and F[i][j - 1] + GAP_EXT == v:
                st = "F"
            elif H[i][j - 1] + GAP_OPEN + GAP_EXT == v:
                st = "H"
            else:
                st = "E"
            j -= 1
    cols.reverse()
    return "".join(cols), best


CIG_RE = re.compile(r"(\d+)([=XIDM])")


def parse_cigar(cg):
    """strict tokeniser: list of (len, op) or None when the string is not a sequence of <number><op> runs"""
    pos, out = 0, []
    for mt in CIG_RE.finditer(cg):
        if mt.start() != pos:
            return None
        pos = mt.end()
        out.append((int(mt.group(1)), mt.group(2)))
    if pos != len(cg) or not out:
        return None
    return out


def replay_cigar(cg, read, ref, allow_m=False):
    """-> (error or None, stats) ; checks that the CIGAR consumes both strings exactly, '=' pairs equal bases and
    'X' pairs unequal bases"""
    runs = parse_cigar(cg)
    if runs is None:
        return "CIGAR %r is not a sequence of <n><=XID> runs" % cg[:60], None
    i = j = 0
    n_eq = total = 0
    for ln, op in runs:
        if ln <= 0:
            return "zero-length run in %r" % cg[:60], None
        if op == "M" and not allow_m:
            return "operation M in %r" % cg[:60], None
        if op in "=XM":
            if i + ln > len(read) or j + ln > len(ref):
                return "run %d%s at read offset %d / path offset %d overruns (read slice %d, path slice %d)" % (ln, op, i, j, len(read), len(ref)), None
            for t in range(ln):
                same = read[i + t] == ref[j + t]
                if op == "=" and not same:
                    return "'=' column pairs read base %s (slice offset %d) with path base %s (slice offset %d)" % (read[i + t], i + t, ref[j + t], j + t), None
                if op == "X" and same:
                    return "'X' column pairs equal bases %s at read offset %d / path offset %d" % (read[i + t], i + t, j + t), None
            if op == "=":
                n_eq += ln
            i += ln
            j += ln
        elif op == "I":
            if i + ln > len(read):
                return "run %dI overruns the read slice" % ln, None
            i += ln
        else:
            if j + ln > len(ref):
                return "run %dD overruns the path slice" % ln, None
            j += ln
        total += ln
    if i != len(read) or j != len(ref):
        return "CIGAR consumes %d read bases and %d path bases, the slices have %d and %d" % (i, j, len(read), len(ref)), None
    return None, {"eq": n_eq, "total": total, "cost": cigar_cost(runs, read, ref)}


def cigar_cost(runs, read=None, ref=None):
    """gap-affine cost; adjacent runs of the same gap type are ONE gap (cost 6 + 2L)"""
    cost = 0
    prev = None
    i = j = 0
    for ln, op in runs:
        if op == "X":
            cost += MISMATCH * ln
        elif op == "M":
            cost += MISMATCH * sum(1 for t in range(ln) if read[i + t] != ref[j + t])
        elif op in "ID":
            cost += GAP_EXT * ln + (0 if prev == op else GAP_OPEN)
        if op in "=XM":
            i += ln
            j += ln
        elif op == "I":
            i += ln
        else:
            j += ln
        prev = op
    return cost


# ------------------------------------------------------------------------------------------------
# input generator
# ------------------------------------------------------------------------------------------------
TAG_POOL = ["NM:i:%d", "AS:f:%d.5", "dv:f:0.0%d", "id:f:0.9%d", "tp:A:P", "zz:Z:free text %d", "bq:B:c,1,%d", "x1:i:-%d"]


def mutate(rng, s, n_edits):
    s = list(s)
    for _ in range(n_edits):
        kind = rng.choice("SID")
        if kind == "S" and s:
            p = rng.randrange(len(s))
            s[p] = rng.choice([c for c in "ACGT" if c != s[p]])
        elif kind == "I":
            p = rng.randint(0, len(s))
            ins = [rng.choice("ACGT") for _ in range(rng.choice([1, 1, 2, 5]))]
            s[p:p] = ins
        elif kind == "D" and len(s) > 1:
            p = rng.randrange(len(s))
            ln = min(rng.choice([1, 1, 2, 5]), len(s) - 1)
            del s[p:p + ln]
    return "".join(s)


def random_columns(rng, n, m):
    """a random VALID alignment path from (0,0) to (n,m)"""
    i = j = 0
    cols = []
    while i < n or j < m:
        opts = []
        if i < n and j < m:
            opts += ["M"] * 8
        if i < n:
            opts.append("I")
        if j < m:
            opts.append("D")
        c = rng.choice(opts)
        cols.append(c)
        if c in "MI":
            i += 1
        if c in "MD":
            j += 1
    return "".join(cols)


def fragment_columns(rng, cols):
    """GraphAligner-like fragmentation: a gap run is cut in two and the second part moved behind 1-3 following
    diagonal columns (or, if there is no gap, an I/D pair is inserted in place of a diagonal column).  Any string over
    M/I/D with the right numbers of consumed bases is a valid alignment, so the result is valid by construction."""
    runs = [(k, len(list(g))) for k, g in itertools.groupby(cols)]
    gaps = [x for x, (k, ln) in enumerate(runs) if k in "ID" and ln >= 2 and x + 1 < len(runs) and runs[x + 1][0] == "M"]
    if gaps:
        x = rng.choice(gaps)
        k, ln = runs[x]
        a = rng.randint(1, ln - 1)
        t = rng.randint(1, min(3, runs[x + 1][1]))
        new = runs[:x] + [(k, a), ("M", t), (k, ln - a)] + ([("M", runs[x + 1][1] - t)] if runs[x + 1][1] > t else []) + runs[x + 2:]
        return "".join(k * ln for k, ln in new)
    ms = [p for p, c in enumerate(cols) if c == "M"]
    if not ms:
        return cols
    p = rng.choice(ms)
    return cols[:p] + rng.choice(["ID", "DI"]) + cols[p + 1:]


def split_runs(rng, cg):
    """same alignment, runs written in pieces: 5D -> 2D3D"""
    out = []
    for ln, op in parse_cigar(cg):
        if ln >= 2 and rng.random() < 0.5:
            a = rng.randint(1, ln - 1)
            out.append("%d%s%d%s" % (a, op, ln - a, op))
        else:
            out.append("%d%s" % (ln, op))
    return "".join(out)


def make_graph(rng, max_len=12, long_node=None):
    g = make_rgfa(rng, n_ref=rng.randint(2, 5), max_len=max_len, n_bubbles=rng.randint(0, 2),
                  hap_mode=rng.choice(["adjacent", "separated", "mixed"]), inversion=rng.random() < 0.7,
                  self_link=rng.random() < 0.2, n_chrom=1)
    if long_node:
        # one long extra node hanging off the last reference node
        last = [s for s in g.segs if s.sr == 0][-1]
        s = Seg("big", "".join(rng.choice("ACGT") for _ in range(long_node)), "bigc", 0, 3)
        g = Graph(g.segs + [s], [l for l in g.links] + [(last.id, "+", "big", "+", 0, ())])
    return g


CIGAR_KINDS = ["opt", "opt", "frag", "frag2", "random", "runsplit", "none", "invalid"]


def make_record(rng, g, walk, idx, read_name, reads, kind=None, max_edits=3, long_slice=None):
    """one GAF record (list of fields) over `walk`; registers/extends the read in `reads` (name -> sequence)"""
    spelled = g.spell(walk)
    pl = len(spelled)
    if long_slice is not None:
        ps = rng.randint(0, pl - long_slice[1]) if pl > long_slice[1] else 0
        pe = min(pl, ps + long_slice[1])
    else:
        ps = rng.randrange(pl)
        pe = rng.randint(ps + 1, pl)
        if rng.random() < 0.3:
            ps = 0
        if rng.random() < 0.3:
            pe = pl
    ref = spelled[ps:pe]
    core = mutate(rng, ref, rng.randint(0, max_edits))
    if long_slice is not None:
        # force the number of read bases
        want = long_slice[0]
        if len(core) > want:
            core = core[:want]
        else:
            core = core + "".join(rng.choice("ACGT") for _ in range(want - len(core)))
    left = "".join(rng.choice("ACGT") for _ in range(rng.randint(0, 4)))
    right = "".join(rng.choice("ACGT") for _ in range(rng.randint(0, 4)))
    read = left + core + right
    reads[read_name] = read
    qs, qe = len(left), len(left) + len(core)
    kind = kind or rng.choice(CIGAR_KINDS)
    if long_slice is not None and kind not in ("none", "invalid", "simple"):
        kind = "simple"
    if kind == "simple":
        # valid, cheap to build: diagonal as far as possible, then one gap
        k = min(len(core), len(ref))
        cols = "M" * k + "I" * (len(core) - k) + "D" * (len(ref) - k)
        cg = rle(label_columns(cols, core, ref))
    elif kind in ("opt", "frag", "frag2", "runsplit"):
        cols, _ = optimal_columns(core, ref)
        if kind == "frag":
            cols = fragment_columns(rng, cols)
        elif kind == "frag2":
            cols = fragment_columns(rng, fragment_columns(rng, cols))
        cg = rle(label_columns(cols, core, ref))
        if kind == "runsplit":
            cg = split_runs(rng, cg)
    elif kind == "random":
        cg = rle(label_columns(random_columns(rng, len(core), len(ref)), core, ref))
    elif kind == "invalid":
        cg = "%d=" % (len(ref) + 1)
    else:
        cg = None
    st = None
    if cg is not None:
        _err, st = replay_cigar(cg, core, ref)
    matches = st["eq"] if st else rng.randint(0, len(ref))
    block = st["total"] if st else len(ref)
    if rng.random() < 0.3:  # columns 10/11 of the INPUT may be anything (e.g. stale)
        matches, block = rng.randint(0, 5), rng.randint(5, 9)
    ntags = rng.randint(0, 3)
    tags = [t % rng.randint(0, 9) if "%d" in t else t for t in rng.sample(TAG_POOL, ntags)]
    tags.append("rc:i:%d" % idx)  # unique id of the record: lets the oracle recognise each record in the output
    if cg is not None:
        tags.insert(rng.randint(0, len(tags)), "cg:Z:" + cg)
    path = "".join(o + n for n, o in walk)
    return [read_name, str(len(read)), str(qs), str(qe), "+", path, str(pl), str(ps), str(pe), str(matches), str(block),
            str(rng.choice([0, 1, 30, 60, 255]))] + tags


def make_input(rng, n_records, max_len=12, max_steps=4, kinds=None, max_edits=3, cheap=False):
    """-> case dict {"gfa": lines, "gaf": lines, "fasta": [[name, seq]...]} with n_records records"""
    while True:
        g = make_graph(rng, max_len=max_len)
        walks = g.walks(max_steps)
        if walks:
            break
    rev = [w for w in walks if any(o == "<" for _, o in w)]
    reads = {}
    recs = []
    for i in range(n_records):
        w = rng.choice(rev) if rev and rng.random() < 0.5 else rng.choice(walks)
        kind = rng.choice(kinds) if kinds else (rng.choice(["simple", "none"]) if cheap else None)
        recs.append(make_record(rng, g, w, i, "read%d" % i, reads, kind=kind, max_edits=max_edits))
    return {"gfa": g.lines(), "gaf": ["\t".join(r) for r in recs], "fasta": [[k, v] for k, v in reads.items()]}


def write_case(d, case, wrap=None):
    """write g.gfa / in.gaf / reads.fa (+ .fai) into directory d -> (gaf, gfa, fasta) paths"""
    import pysam
    gfa, gaf, fa = os.path.join(d, "g.gfa"), os.path.join(d, "in.gaf"), os.path.join(d, "reads.fa")
    with open(gfa, "w") as f:
        f.write("\n".join(case["gfa"]) + "\n")
    with open(gaf, "w") as f:
        f.write("".join(l + "\n" for l in case["gaf"]))
    with open(fa, "w") as f:
        for name, seq in case["fasta"]:
            f.write(">%s\n" % name)
            if wrap:
                for p in range(0, len(seq), wrap):
                    f.write(seq[p:p + wrap] + "\n")
            else:
                f.write(seq + "\n")
    pysam.faidx(fa)
    return gaf, gfa, fa


# ------------------------------------------------------------------------------------------------
# independent oracles on the output
# ------------------------------------------------------------------------------------------------
def node_seqs(case):
    segs = {}
    for l in case["gfa"]:
        p = l.split("\t")
        if p[0] == "S":
            segs[p[1]] = p[2]
    return segs


def spell_path(segs, path):
    return "".join(segs[n] if o == ">" else revcomp(segs[n]) for n, o in parse_path(path))


def rec_id(fields):
    for t in fields[12:]:
        if t.startswith("rc:i:"):
            return int(t[5:])
    return None


def check_exactly_once(case, out_text):
    """None, or a description of how `out_text` is not 'one record per input record, in input order'"""
    lines = out_text.split("\n")
    if lines and lines[-1] == "":
        lines.pop()
    elif out_text:
        return "output does not end with a newline"
    want = [rec_id(l.split("\t")) for l in case["gaf"]]
    got = []
    for l in lines:
        f = l.split("\t")
        got.append(rec_id(f) if len(f) >= 12 else "?")
    if got != want:
        missing = [x for x in want if x not in got]
        dup = sorted({x for x in got if got.count(x) > 1}, key=str)
        return "output records %s, input records %s (missing %s, duplicated %s%s)" % (
            got, want, missing, dup, ", reordered" if not missing and not dup and sorted(got, key=str) == sorted(want, key=str) else "")
    for l, src in zip(lines, case["gaf"]):
        f, s = l.split("\t"), src.split("\t")
        if f[:9] != s[:9]:
            return "record rc:i:%s: columns 1-9 changed: %s -> %s" % (rec_id(s), s[:9], f[:9])
    return None


def check_record(case, src_line, out_line, segs=None, reads=None):
    """C12 oracle for one record -> None or a one-line description of the violation"""
    segs = segs or node_seqs(case)
    reads = reads or dict((a, b) for a, b in case["fasta"])
    s, f = src_line.split("\t"), out_line.split("\t")
    qs, qe, ps, pe = int(s[2]), int(s[3]), int(s[7]), int(s[8])
    if qe - qs > LONG:
        if out_line != src_line:
            k = [x for x in range(max(len(s), len(f))) if x >= len(s) or x >= len(f) or s[x] != f[x]]
            return "alignment of %d read bases (> 60000) must pass through unchanged; fields %s differ: %s -> %s" % (
                qe - qs, [x + 1 for x in k], [s[x][:40] for x in k if x < len(s)], [f[x][:40] for x in k if x < len(f)])
        return None
    if len(f) < 12:
        return "output record has %d columns" % len(f)
    if f[:9] != s[:9] or f[11] != s[11]:
        return "columns other than 10/11/cg changed: %s -> %s" % (s[:9] + [s[11]], f[:9] + f[11:12])
    s_opt = [t for t in s[12:] if not t.startswith("cg:Z:")]
    f_opt = [t for t in f[12:] if not t.startswith("cg:Z:")]
    if s_opt != f_opt:
        return "optional fields changed: %s -> %s" % (s_opt, f_opt)
    cgs = [t[5:] for t in f[12:] if t.startswith("cg:Z:")]
    if len(cgs) != 1:
        return "output record carries %d cg:Z: fields" % len(cgs)
    read = reads[s[0]][qs:qe]
    ref = spell_path(segs, s[5])[ps:pe]
    err, st = replay_cigar(cgs[0], read, ref)
    if err:
        return "output CIGAR %s is not a valid alignment of read[%d:%d]=%s against path[%d:%d]=%s: %s" % (
            cgs[0][:80], qs, qe, read[:60], ps, pe, ref[:60], err)
    if f[9] != str(st["eq"]):
        return "column 10 (matches) is %s, the output CIGAR %s has %d '=' bases" % (f[9], cgs[0][:80], st["eq"])
    if f[10] != str(st["total"]):
        return "column 11 (block length) is %s, the runs of the output CIGAR %s add up to %d" % (f[10], cgs[0][:80], st["total"])
    in_cg = [t[5:] for t in s[12:] if t.startswith("cg:Z:")]
    if in_cg:
        ierr, ist = replay_cigar(in_cg[0], read, ref)
        if ierr is None and st["cost"] > ist["cost"]:
            return "output CIGAR %s costs %d, the (valid) input CIGAR %s costs only %d (mismatch 4, gap 6+2L)" % (
                cgs[0][:80], st["cost"], in_cg[0][:80], ist["cost"])
    return None


# ------------------------------------------------------------------------------------------------
# running the real code
# ------------------------------------------------------------------------------------------------
class _Env:
    def __init__(self, batch_size):
        self.bs = batch_size

    def __enter__(self):
        self.old = {k: os.environ.get(k) for k in ("GAFTOOLS_VERIF", "GAFTOOLS_VERIF_BATCH_SIZE")}
        os.environ["GAFTOOLS_VERIF"] = "1"
        if self.bs is None:
            os.environ.pop("GAFTOOLS_VERIF_BATCH_SIZE", None)
        else:
            os.environ["GAFTOOLS_VERIF_BATCH_SIZE"] = str(self.bs)
        self.lvl = logging.getLogger("gaftools").level
        logging.getLogger("gaftools").setLevel(logging.CRITICAL + 1)

    def __exit__(self, *a):
        for k, v in self.old.items():
            if v is None:
                os.environ.pop(k, None)
            else:
                os.environ[k] = v
        logging.getLogger("gaftools").setLevel(self.lvl)


def call_realign(paths, cores, batch_size=None, fake_mp=None, wrap_target=None):
    """run the REAL realign_gaf in-process -> (outcome, output text, detail)
    outcome: 'ok' | 'exit:<code>' | 'hang' | 'exc:<Type>'.  fake_mp replaces the module's `mp`; wrap_target(real)
    returns a replacement for wfa_alignment (instrumentation only: delays)."""
    import gaftools.cli.realign as R
    gaf, gfa, fa = paths
    out = io.StringIO()
    real_mp, real_t = R.mp, R.wfa_alignment
    with _Env(batch_size):
        if fake_mp is not None:
            R.mp = fake_mp
        if wrap_target is not None:
            R.wfa_alignment = wrap_target(real_t)
        try:
            R.realign_gaf(gaf, gfa, fa, out, cores)
            res = ("ok", out.getvalue(), "")
        except SystemExit as e:
            res = ("exit:%s" % (e.code,), out.getvalue(), "SystemExit(%r)" % (e.code,))
        except Hang as e:
            res = ("hang", out.getvalue(), str(e))
        except BaseException as e:  # noqa
            res = ("exc:%s" % type(e).__name__, out.getvalue(), "%s: %s" % (type(e).__name__, e))
        finally:
            R.mp, R.wfa_alignment = real_mp, real_t
    return res


# ------------------------------------------------------------------------------------------------
# the fake multiprocessing module
# ------------------------------------------------------------------------------------------------
class Hang(BaseException):
    """the parent keeps reading a queue that can never deliver anything any more"""


class ScriptChooser:
    """follows `script` (labels) as long as it fits, afterwards (or on a label that is not on offer) the default =
    first option (progress)"""

    def __init__(self, script=()):
        self.script = list(script)
        self.trace = []  # (label, options)
        self.diverged = False

    def choose(self, options):
        i = len(self.trace)
        lab = options[0]
        if i < len(self.script) and not self.diverged:
            if self.script[i] in options:
                lab = self.script[i]
            else:
                self.diverged = True
        self.trace.append((lab, tuple(options)))
        return lab

    def labels(self):
        return [t[0] for t in self.trace]


class RandomChooser(ScriptChooser):
    def __init__(self, rng, p_empty=0.3, p_alive=0.5):
        ScriptChooser.__init__(self)
        self.rng, self.p_empty, self.p_alive = rng, p_empty, p_alive

    def choose(self, options):
        if "e" in options and (len(options) == 1 or self.rng.random() < self.p_empty):
            lab = "e"
        elif options[0][0] == "x":
            lab = options[1] if len(options) > 1 and self.rng.random() < self.p_alive else options[0]
        else:
            lab = self.rng.choice([o for o in options if o != "e"])
        self.trace.append((lab, tuple(options)))
        return lab


class World:
    """one run of realign_gaf against the fake mp.  kills: {worker index: (n_objects_before_death, exitcode)}"""

    def __init__(self, chooser, kills=None, max_empty=2, max_alive=6, max_gets=2000, max_futile=200):
        self.chooser = chooser
        self.kills = dict(kills or {})
        self.max_empty, self.max_alive, self.max_gets, self.max_futile = max_empty, max_alive, max_gets, max_futile
        self.procs = []
        self.n_empty = self.n_alive = self.n_gets = self.futile = 0
        self.kill_applied = {}
        world = self

        class FakeQueue:
            def __init__(self):
                self.workers = []

            def put(self, x):  # only workers put, and they do so into their private buffer
                raise AssertionError("parent put() on the result queue")

            def get(self, block=True, timeout=None):
                return world.get(self, timeout)

            def empty(self):
                return not any(w.started and w.delivered < len(w.items) for w in self.workers)

            def close(self):
                pass

            def join_thread(self):
                pass

            def cancel_join_thread(self):
                pass

        class FakeProcess:
            def __init__(self, group=None, target=None, name=None, args=(), kwargs=None, daemon=None):
                self.target, self.args, self.kwargs = target, tuple(args), dict(kwargs or {})
                self.k = len(world.procs)
                world.procs.append(self)
                self.items, self.delivered = [], 0
                self.started = self.exited = False
                self.code = 0
                self.queue = None
                self.daemon = daemon
                self.pid = 100000 + self.k
                self.name = name or "FakeProcess-%d" % self.k

            def start(self):
                assert not self.started, "process started twice"
                self.started = True
                buf = []

                class Buf:
                    def put(self_inner, x, *a, **kw):
                        buf.append(x)

                args = []
                for a in self.args:
                    if isinstance(a, FakeQueue):
                        self.queue = a
                        a.workers.append(self)
                        args.append(Buf())
                    else:
                        args.append(a)
                self.target(*args, **self.kwargs)  # the REAL wfa_alignment
                if self.k in world.kills:
                    n, code = world.kills[self.k]
                    n_items = len([x for x in buf if x is not None])
                    n = min(n, n_items)  # never lets the sentinel through
                    world.kill_applied[self.k] = (n, n_items)
                    buf = buf[:n]
                    self.code = code
                self.items = buf

            def is_alive(self):
                if not self.started or self.exited:
                    return False
                opts = ["x%d" % self.k]
                if world.n_alive < world.max_alive:
                    opts.append("a%d" % self.k)
                lab = world.chooser.choose(opts)
                if lab[0] == "a":
                    world.n_alive += 1
                    return True
                self.exited = True
                return False

            @property
            def exitcode(self):
                return self.code if self.exited else None

            def join(self, timeout=None):
                if self.started:
                    self.exited = True

            def terminate(self):
                self.exited = True

            kill = terminate

            def close(self):
                pass

        self.Queue, self.Process = FakeQueue, FakeProcess

    @staticmethod
    def cpu_count():
        return 16

    def get(self, q, timeout):
        self.n_gets += 1
        cands = [w for w in q.workers if w.started and w.delivered < len(w.items)]
        if not cands:
            self.futile += 1
            if timeout is None:
                raise Hang("blocking get() on a queue that will never receive anything")
        else:
            self.futile = 0
        if self.n_gets > self.max_gets or self.futile > self.max_futile:
            raise Hang("parent performed %d queue reads (%d in a row with every worker finished/dead and the queue empty)" % (self.n_gets, self.futile))
        opts = ["d%d" % w.k for w in cands]
        if timeout is not None and (self.n_empty < self.max_empty or not cands):
            opts.append("e")
        lab = self.chooser.choose(opts)
        if lab == "e":
            if cands:
                self.n_empty += 1
            raise pyqueue.Empty
        w = self.procs[int(lab[1:])]
        x = w.items[w.delivered]
        w.delivered += 1
        return x


def fmt_script(labels):
    """script with repeated labels compressed: e e e -> e*3"""
    out = []
    for lab in labels:
        if out and out[-1][0] == lab:
            out[-1][1] += 1
        else:
            out.append([lab, 1])
    return " ".join(l if c == 1 else "%s*%d" % (l, c) for l, c in out)


def run_schedule(paths, cores, batch_size, script=(), kills=None, chooser=None, **budget):
    """-> (outcome, out_text, detail, chooser, world)"""
    ch = chooser or ScriptChooser(script)
    w = World(ch, kills=kills, **budget)
    outcome, text, detail = call_realign(paths, cores, batch_size, fake_mp=w)
    return outcome, text, detail, ch, w


def explore(paths, cores, batch_size, kills=None, limit=None, **budget):
    """depth-first enumeration of ALL scripts within the budget: yields (outcome, text, detail, labels, world).
    Stateless search: each script is a fresh run of the real realign_gaf."""
    prefix = []
    n = 0
    while True:
        outcome, text, detail, ch, w = run_schedule(paths, cores, batch_size, script=prefix, kills=kills, **budget)
        n += 1
        yield outcome, text, detail, ch.labels(), w
        if limit is not None and n >= limit:
            return
        # next script: last choice point that still has an untried alternative (options are tried in order)
        tr = ch.trace
        nxt = None
        for i in range(len(tr) - 1, -1, -1):
            lab, opts = tr[i]
            p = opts.index(lab)
            if p + 1 < len(opts):
                nxt = [t[0] for t in tr[:i]] + [opts[p + 1]]
                break
        if nxt is None:
            return
        prefix = nxt


def configs_single_group():
    """(cores, batch size, n records) with ONE group of <= 3 workers x <= 2 records; the flag says which of the two
    collection loops of realign_gaf handles it"""
    return [
        (1, 1, 1, "full"), (1, 2, 2, "full"), (1, 2, 1, "leftover"),
        (2, 1, 2, "full"), (2, 2, 4, "full"), (2, 2, 3, "leftover"), (2, 2, 2, "leftover"),
        (3, 1, 3, "full"), (3, 1, 2, "leftover"), (3, 2, 6, "full"), (3, 2, 5, "leftover"), (3, 2, 4, "leftover"),
    ]


def configs_two_groups():
    return [(1, 1, 2, "full+full"), (1, 1, 3, "3xfull"), (2, 1, 3, "full+leftover"), (1, 2, 3, "full+leftover"), (2, 1, 4, "full+full"),
            (2, 2, 5, "full+leftover"), (2, 2, 7, "full+leftover2"), (3, 1, 4, "full+leftover")]
