"""Shared harness of the index/view properties C03, C04, C05.

Builds tiny rGFAs plus small GAF files over them (unstable or stable coordinates, plain text or BGZF, optionally
padded beyond one 64 KiB BGZF block), runs the REAL `gaftools index` / `gaftools view` in-process and offers the
independent oracles the three properties need:

* which nodes a record traverses (by definition: node ids of an unstable path; for a stable record the nodes whose
  stable interval [SO,SO+LN) overlaps one of the record's intervals, or [start,end) of a bare contig path),
* the starting offset of every record (byte offset for text; BGZF virtual offset computed with an own BGZF block
  reader, canonicalised so that "end of block k" and "start of block k+1" are the same position),
* the line stored at an offset (own seek / own BGZF decoder),
* an own unstable -> stable converter (used only to PRODUCE stable input files, never as an expected answer of a conversion).

Nothing here calls gaftools to compute an expected answer.
"""
import contextlib
import gc
import io
import os
import signal
import struct
import subprocess
import sys
import zlib

from rtc.gen import Graph, Seg, make_rgfa, gaf_record, parse_path, write_lines, colon_contigs, rename_ids

BGZF_BLOCK = 65280  # payload bytes per block written by bgzf_write


# ------------------------------------------------------------------------------------------------
# graphs
# ------------------------------------------------------------------------------------------------
def random_graph(rng, hap_mode=None, cyclic=None, n_chrom=None, max_len=3):
    """valid rGFA; optionally with a back link so that walks can revisit nodes"""
    hap_mode = hap_mode or rng.choice(["separated", "separated", "mixed", "adjacent"])
    g = make_rgfa(rng, n_ref=rng.randint(2, 5), max_len=max_len, n_bubbles=rng.randint(0, 3), hap_mode=hap_mode,
                  inversion=rng.random() < 0.4, self_link=rng.random() < 0.25,
                  n_chrom=n_chrom or rng.choice([1, 1, 2]), tips=rng.random() < 0.2)
    if cyclic is None:
        cyclic = rng.random() < 0.4
    if cyclic:
        refs = [s for s in g.segs if s.sn == "chr1"]
        if len(refs) >= 2:
            i = rng.randint(0, len(refs) - 2)
            j = rng.randint(i + 1, len(refs) - 1)
            have = {(l[0], l[1], l[2], l[3]) for l in g.links}
            if (refs[j].id, "+", refs[i].id, "+") not in have:
                g = Graph(g.segs, list(g.links) + [(refs[j].id, "+", refs[i].id, "+", 0, ())])
    if rng.random() < 0.2:
        g = colon_contigs(g)  # contig names containing ':' (F18)
    if rng.random() < 0.2:
        g = rename_ids(g, rng.choice(["dash", "dot", "hash"]))  # segment names with punctuation (after seeded change C01-5)
    return g


def graph_from_lines(lines):
    segs, links = [], []
    for l in lines:
        p = l.split("\t")
        if p[0] == "S":
            t = {x.split(":")[0]: x.split(":", 2)[2] for x in p[3:]}
            seq = p[2] if p[2] != "*" else "N" * int(t["LN"])
            segs.append(Seg(p[1], seq, t.get("SN"), int(t.get("SO", 0)), int(t.get("SR", 0))))
        elif p[0] == "L":
            links.append((p[1], p[2], p[3], p[4], int(p[5].rstrip("M") or 0), tuple(p[6:])))
    return Graph(segs, links)


def node_table(g):
    """id -> (SN, SO, SO+LN)"""
    return {s.id: (s.sn, s.so, s.so + s.ln) for s in g.segs}


def contig_extent(g):
    """contig -> one past the last base covered by a segment (the contig is at least that long)"""
    out = {}
    for s in g.segs:
        out[s.sn] = max(out.get(s.sn, 0), s.so + s.ln)
    return out


def contig_runs(g):
    """contig -> list of maximal runs [a,b) of bases covered by segments"""
    out = {}
    for c, segs in g.contigs().items():
        runs = []
        for s in segs:
            if runs and runs[-1][1] == s.so:
                runs[-1][1] = s.end
            else:
                runs.append([s.so, s.end])
        out[c] = [tuple(r) for r in runs]
    return out


def nodes_under_region(g, contig, a, b):
    """nodes whose stable interval [SO,SO+LN) on `contig` intersects the closed region [a,b]"""
    return sorted((s.id for s in g.segs if s.sn == contig and s.so <= b and a < s.so + s.ln),
                  key=lambda n: g.by_id[n].so)


# ------------------------------------------------------------------------------------------------
# records
# ------------------------------------------------------------------------------------------------
def is_stable_path(path):
    return ":" in path or path[0] not in "<>"


def stable_intervals(fields):
    """[(contig, a, b)] designated by a stable record (half open)"""
    path = fields[5]
    toks = parse_path(path)
    if toks is None:
        return [(path, int(fields[7]), int(fields[8]))]
    out = []
    for name, _o in toks:
        c, iv = name.rsplit(":", 1)
        a, b = iv.split("-")
        out.append((c, int(a), int(b)))
    return out


def traversed(g, fields):
    """set of node ids the record traverses, by definition"""
    path = fields[5]
    if not is_stable_path(path):
        return {n for n, _o in parse_path(path)}
    out = set()
    for c, a, b in stable_intervals(fields):
        for s in g.segs:
            if s.sn == c and max(a, s.so) < min(b, s.so + s.ln):
                out.add(s.id)
    return out


def stable_fields(g, f, style="merged"):
    """own unstable -> stable conversion of a record (list of fields).
    style: 'merged'   adjacent same-orientation nodes are merged; one rank-0 piece becomes a bare contig path
           'intervals' merged, but always written as intervals
           'pernode'  one interval per node"""
    walk = parse_path(f[5])
    pl, ps, pe = int(f[6]), int(f[7]), int(f[8])
    pieces = []
    for n, o in walk:
        s = g.by_id[n]
        cur = [s.sn, s.so, s.end, o]
        if style != "pernode" and pieces and pieces[-1][0] == s.sn and pieces[-1][3] == o and (
                (o == ">" and pieces[-1][2] == s.so) or (o == "<" and pieces[-1][1] == s.end)):
            if o == ">":
                pieces[-1][2] = s.end
            else:
                pieces[-1][1] = s.so
        else:
            pieces.append(cur)
    out = list(f)
    if style == "merged" and len(pieces) == 1 and g.by_id[walk[0][0]].sr == 0:
        c, a, b, o = pieces[0]
        out[5] = c
        out[6] = str(contig_extent(g)[c])
        if o == ">":
            out[7], out[8] = str(a + ps), str(a + pe)
        else:
            out[4] = "-" if f[4] == "+" else "+"
            out[7], out[8] = str(a + pl - pe), str(a + pl - ps)
            out = [x if not x.startswith("cg:Z:") else "cg:Z:" + _rev_cigar(x[5:]) for x in out]
    else:
        out[5] = "".join("%s%s:%d-%d" % (o, c, a, b) for c, a, b, o in pieces)
    return out


def _rev_cigar(cg):
    toks, num = [], ""
    for ch in cg:
        if ch.isdigit():
            num += ch
        else:
            toks.append(num + ch)
            num = ""
    return "".join(reversed(toks))


def direct_stable_records(g, rng, n, name0=0):
    """stable records written directly: intervals NOT aligned to node boundaries and bare contig paths (also of
    haplotype contigs) with arbitrary start/end inside a covered run"""
    runs = contig_runs(g)
    ext = contig_extent(g)
    out = []
    cs = sorted(runs)
    for k in range(n):
        c = rng.choice(cs)
        ra, rb = rng.choice(runs[c])
        a = rng.randint(ra, rb - 1)
        b = rng.randint(a + 1, rb)
        ln = b - a
        if rng.random() < 0.5:
            o = rng.choice("><")
            s = rng.randint(0, ln - 1)
            e = rng.randint(s + 1, ln)
            f = ["d%d" % (name0 + k), str(e - s), "0", str(e - s), "+", "%s%s:%d-%d" % (o, c, a, b), str(ln), str(s), str(e),
                 str(e - s), str(e - s), "60", "cg:Z:%d=" % (e - s)]
        else:
            f = ["d%d" % (name0 + k), str(ln), "0", str(ln), rng.choice("+-"), c, str(ext[c]), str(a), str(b), str(ln), str(ln),
                 "60", "cg:Z:%d=" % ln]
        out.append(f)
    return out


TAGSETS = [(), ("NM:i:0",), ("tp:A:P", "NM:i:2"), ("AS:f:12.5", "dv:f:0.01", "id:f:0.99"), ("zz:Z:a_b#c",)]


def unstable_records(g, rng, n, max_steps=4, prefer_revisit=True, name_pad=0):
    """n records over walks of g (walks that revisit a node are over-represented), aligned on a random sub-range"""
    walks = g.walks(max_steps)
    rev = [w for w in walks if len({x[0] for x in w}) < len(w)]
    recs = []
    for k in range(n):
        pool = rev if (prefer_revisit and rev and rng.random() < 0.3) else walks
        w = rng.choice(pool)
        pl = sum(g.by_id[x].ln for x, _ in w)
        s = rng.randint(0, pl - 1)
        e = rng.randint(s + 1, pl)
        name = "q%d" % k + ("_" + "x" * rng.randint(0, name_pad) if name_pad else "")
        cg = "%d=" % (e - s) if e - s < 2 or rng.random() < 0.5 else "1=%dX" % (e - s - 1)
        recs.append(gaf_record(g, w, s, e, name=name, strand=rng.choice("++-"), mapq=rng.choice([0, 7, 60]),
                               cigar=cg, tags=rng.choice(TAGSETS)))
    return recs


def make_records(g, rng, n, stable, name_pad=0, direct=True):
    recs = unstable_records(g, rng, n, name_pad=name_pad)
    if not stable:
        return recs
    out = [stable_fields(g, f, rng.choice(["merged", "merged", "intervals", "pernode"])) for f in recs]
    if direct:
        extra = direct_stable_records(g, rng, max(1, n // 4))
        for f in extra:
            out.insert(rng.randint(0, len(out)), f)
    return out


# ------------------------------------------------------------------------------------------------
# files, offsets
# ------------------------------------------------------------------------------------------------
def bgzf_blocks(path):
    """own BGZF reader: [(compressed offset of the block, payload bytes)]"""
    b = open(path, "rb").read()
    pos, out = 0, []
    while pos < len(b):
        if b[pos:pos + 4] != b"\x1f\x8b\x08\x04":
            raise ValueError("not a BGZF block at %d" % pos)
        xlen = struct.unpack("<H", b[pos + 10:pos + 12])[0]
        extra, p, bsize = b[pos + 12:pos + 12 + xlen], 0, None
        while p < len(extra):
            slen = struct.unpack("<H", extra[p + 2:p + 4])[0]
            if extra[p] == 66 and extra[p + 1] == 67:
                bsize = struct.unpack("<H", extra[p + 4:p + 6])[0]
            p += 4 + slen
        data = zlib.decompress(b[pos + 12 + xlen:pos + bsize + 1 - 8], -15)
        out.append((pos, data))
        pos += bsize + 1
    return out


class GafFile:
    """a written GAF file with its independent description"""

    def __init__(self, path, g, recs, bgzf, eol="\n"):
        self.path, self.g, self.bgzf, self.eol = path, g, bgzf, eol
        self.recs = [list(r) for r in recs]
        self.lines = ["\t".join(r) for r in self.recs]
        self.stable = bool(self.recs) and is_stable_path(self.recs[0][5])
        self.trav = [traversed(g, r) for r in self.recs]
        write_lines(path, self.recs, bgzf=bgzf, eol=eol)
        lens = [len(l.encode()) + len(eol) for l in self.lines]
        starts, t = [], 0
        for n in lens:
            starts.append(t)
            t += n
        self.size = t
        if not bgzf:
            self.blocks = None
            self.offsets = starts
        else:
            self.blocks = bgzf_blocks(path)
            self.offsets = [self._virtual(s) for s in starts]
        self.by_offset = {o: i for i, o in enumerate(self.offsets)}
        self.n_blocks = 1 if not bgzf else sum(1 for _c, d in self.blocks if d)

    def _virtual(self, upos):
        t = 0
        for c, d in self.blocks:
            if upos < t + len(d):
                return (c << 16) | (upos - t)
            t += len(d)
        raise ValueError("position %d past the end" % upos)

    def canonical(self, off):
        """text: unchanged; BGZF: (block, len(block)) == (next non-empty block, 0)"""
        if not self.bgzf or not isinstance(off, int):
            return off
        c, w = off >> 16, off & 0xFFFF
        for i, (bc, d) in enumerate(self.blocks):
            if bc == c:
                if w < len(d):
                    return off
                if w == len(d):
                    for nc, nd in self.blocks[i + 1:]:
                        if nd:
                            return nc << 16
                return off
        return off

    def line_at(self, off):
        """own seek: the line starting at `off` (None when off is not a position in the file)"""
        if not isinstance(off, int) or off < 0:
            return None
        if not self.bgzf:
            with open(self.path, "rb") as f:
                f.seek(off)
                return f.readline().decode("utf-8", "replace").rstrip("\r\n")  # a wrong offset may fall inside a multi-byte character
        c, w = off >> 16, off & 0xFFFF
        idx = [i for i, (bc, _d) in enumerate(self.blocks) if bc == c]
        if not idx:
            return None
        data = b"".join(d for _c, d in self.blocks[idx[0]:])[w:]
        return data.split(b"\n", 1)[0].decode("utf-8", "replace").rstrip("\r")

    def expected_index(self):
        """(id, SN, SO, SO+LN) -> set of canonical offsets, for the aligned nodes only"""
        tab = node_table(self.g)
        out = {}
        for i, tr in enumerate(self.trav):
            for n in tr:
                out.setdefault((n,) + tab[n], set()).add(self.offsets[i])
        return out

    def select(self, nodes):
        """indices of the records that traverse at least one of `nodes`, in file order"""
        ns = set(nodes)
        return [i for i, tr in enumerate(self.trav) if tr & ns]

    def aligned_nodes(self):
        return set().union(*self.trav)

    def to_case(self, **kw):
        c = {"gfa": self.g.lines(), "gaf": self.lines, "bgzf": self.bgzf, "eol": self.eol}
        c.update(kw)
        return c


def write_graph(d, g, name="g.gfa"):
    """every second graph (decided by a checksum of its text, so a replay writes the same file) is written with its S / L lines in a
    shuffled order: an rGFA need not be sorted, the segments of a contig then are NOT in SO order in the file"""
    import random
    import zlib
    p = os.path.join(d, name)
    ls = g.lines()
    crc = zlib.crc32("\n".join(ls).encode())
    order = None
    if crc % 2 == 1:
        order = list(range(len(ls)))
        random.Random(crc).shuffle(order)
    g.write(p, order=order)
    return p


def pad_records(recs, rng, total_bytes, boundary_exact=False):
    """lengthen the read names so that the file exceeds `total_bytes`; with boundary_exact the first k lines
    fill exactly one BGZF block (a record then starts exactly at a block boundary)"""
    recs = [list(r) for r in recs]
    cur = sum(len("\t".join(r)) + 1 for r in recs)
    need = max(0, total_bytes - cur)
    per = need // len(recs) + 1
    for r in recs:
        r[0] = r[0] + "_" + "p" * rng.randint(per // 2, per + per // 2)
    if boundary_exact:
        t = 0
        for i, r in enumerate(recs):
            n = len("\t".join(r)) + 1
            if t + n >= BGZF_BLOCK - 400 and i > 0:
                # make line i end exactly at the block boundary
                want = BGZF_BLOCK - t
                base = len("\t".join(r)) + 1 - len(r[0])
                if want - base >= 2:
                    r[0] = ("b%d_" % i + "p" * BGZF_BLOCK)[:want - base]
                break
            t += n
    return recs


# ------------------------------------------------------------------------------------------------
# running the real code
# ------------------------------------------------------------------------------------------------
class Timeout(BaseException):
    pass


@contextlib.contextmanager
def time_limit(seconds):
    def handler(signum, frame):
        raise Timeout()

    old = signal.signal(signal.SIGALRM, handler)
    signal.setitimer(signal.ITIMER_REAL, seconds)
    try:
        yield
    finally:
        signal.setitimer(signal.ITIMER_REAL, 0)
        signal.signal(signal.SIGALRM, old)


def run_index(gaf, gfa, output=None):
    """the real `gaftools index`, in-process; returns the unpickled index"""
    import pickle
    from gaftools.cli.index import run
    with contextlib.redirect_stdout(io.StringIO()):
        run(gaf, gfa, output=output)
    with open(output or gaf + ".gvi", "rb") as f:
        return pickle.load(f)


def view(gaf, gfa=None, fmt=None, nodes=(), regions=(), index=None, out=None, timeout=20):
    """the real `gaftools view`, in-process, under a time limit.
    -> ("ok", lines) | ("cle", message) | ("exc", "Type: message") | ("timeout", seconds)
    out=None captures standard output (the default writer); otherwise the output goes to the file `out`."""
    from gaftools.cli.view import run
    from gaftools.cli import CommandLineError
    buf = io.StringIO()
    try:
        with time_limit(timeout):
            with contextlib.redirect_stdout(buf):
                run(gaf, gfa=gfa, output=out, index=index, nodes=list(nodes), regions=list(regions), format=fmt)
    except Timeout:
        return ("timeout", timeout)
    except CommandLineError as e:
        return ("cle", str(e))
    except Exception as e:  # noqa
        return ("exc", "%s: %s" % (type(e).__name__, e))
    except SystemExit as e:
        return ("exc", "SystemExit: %s" % (e,))
    if out is None:
        return ("ok", buf.getvalue().splitlines())
    gc.collect()  # view.run never closes its writer
    with open(out) as f:
        return ("ok", f.read().splitlines())


def view_subprocess(gaf, args, timeout=60):
    """`python -m gaftools view GAF args...` -> (rc | 'timeout', stdout lines, stderr)"""
    try:
        p = subprocess.run([sys.executable, "-m", "gaftools", "view", gaf] + list(args), capture_output=True, text=True,
                           timeout=timeout)
    except subprocess.TimeoutExpired:
        return "timeout", [], ""
    return p.returncode, p.stdout.splitlines(), p.stderr


def load_case(ctx, c, pad=None):
    """rebuild graph + GAF file (+ real index) of a recorded case"""
    d = ctx.dir("replay")
    g = graph_from_lines(c["gfa"])
    gfa = write_graph(d, g)
    gf = GafFile(os.path.join(d, "in.gaf" + (".gz" if c.get("bgzf") else "")), g, [l.split("\t") for l in c["gaf"]], c.get("bgzf", False), eol=c.get("eol", "\n"))
    return d, g, gfa, gf


def describe(outcome):
    kind, val = outcome
    if kind == "ok":
        return "%d records %s" % (len(val), [l.split("\t")[0][:12] for l in val][:8])
    return "%s %s" % (kind, val)
