"""Native replay of decoded counter-models of function-level obligations on the REAL functions.

    python -m rtc.native <module:function> '<json inputs>'   -> prints one JSON line {"status": "fails"|"holds"|..., "detail": ...}
"""
import collections
import json
import sys

REPLAYERS = {}


def replayer(qual):
    def deco(f):
        REPLAYERS[qual] = f
        return f
    return deco


def _rec(t):
    A = collections.namedtuple("Alignment", ["offset", "BO", "NO", "start", "inv", "sn"])
    return A(*t)


@replayer("gaftools.cli.sort:compare_gaf")
def _compare_gaf(inp):
    from gaftools.cli.sort import compare_gaf
    names = [k for k in inp if isinstance(inp[k], (list, tuple))]
    recs = {k: _rec(inp[k]) for k in names}
    key = lambda x: (x.BO == -1, x.BO, x.NO, x.start, x.offset)
    bad = []
    items = list(recs.items())
    for ka, a in items:
        for kb, b in items:
            try:
                r = compare_gaf(a, b)
            except Exception as e:  # noqa
                bad.append("compare_gaf(%s,%s) raised %r" % (ka, kb, e))
                continue
            want = -1 if key(a) < key(b) else (1 if key(a) > key(b) else 0)
            got = None if r is None else (-1 if r < 0 else (1 if r > 0 else 0))
            if got != want:
                bad.append("compare_gaf(%s=%s, %s=%s) = %r, key order says %d" % (ka, tuple(a), kb, tuple(b), r, want))
    return ("fails", "; ".join(bad[:3])) if bad else ("holds", "sign agrees with the key on all pairs of the model")


def replay(qual, inputs):
    f = REPLAYERS.get(qual)
    if f is None:
        return {"status": "no-native-replayer", "detail": "no function-level replayer for %s" % qual}
    if inputs is None:
        return {"status": "no-model", "detail": ""}
    try:
        st, detail = f(inputs)
    except Exception as e:  # noqa
        return {"status": "error", "detail": "%s: %s" % (type(e).__name__, e)}
    return {"status": st, "detail": detail}


if __name__ == "__main__":
    print(json.dumps(replay(sys.argv[1], json.loads(sys.argv[2]))))
