"""Native replay of decoded counter-models of function-level obligations on the REAL functions.

    python -m rtc.native <module:function> '<json inputs>'   -> prints one JSON line {"status": "fails"|"holds"|..., "detail": ...}
"""
import collections
import json
import sys

REPLAYERS = {}


def replayer(qual):
    def deco(f):
        REPLAYERS[qual] = f
        return f
    return deco


def _rec(t):
    A = collections.namedtuple("Alignment", ["offset", "BO", "NO", "start", "inv", "sn"])
    return A(*t)


@replayer("gaftools.cli.sort:compare_gaf")
def _compare_gaf(inp):
    from gaftools.cli.sort import compare_gaf
    names = [k for k in inp if isinstance(inp[k], (list, tuple))]
    recs = {k: _rec(inp[k]) for k in names}
    key = lambda x: (x.BO == -1, x.BO, x.NO, x.start, x.offset)
    bad = []
    items = list(recs.items())
    for ka, a in items:
        for kb, b in items:
            try:
                r = compare_gaf(a, b)
            except Exception as e:  # noqa
                bad.append("compare_gaf(%s,%s) raised %r" % (ka, kb, e))
                continue
            want = -1 if key(a) < key(b) else (1 if key(a) > key(b) else 0)
            got = None if r is None else (-1 if r < 0 else (1 if r > 0 else 0))
            if got != want:
                bad.append("compare_gaf(%s=%s, %s=%s) = %r, key order says %d" % (ka, tuple(a), kb, tuple(b), r, want))
    return ("fails", "; ".join(bad[:3])) if bad else ("holds", "sign agrees with the key on all pairs of the model")


@replayer("gaftools.conversion:merge_nodes")
def _merge_nodes(inp):
    """independent oracle: two oriented stable intervals merge iff same contig, same orientation and they touch in travel order; the merged
    interval is their union, with that orientation; the arguments are left as they were"""
    from gaftools.conversion import merge_nodes, StableNode
    n1, n2 = inp["node1"], inp["node2"]
    o1, o2 = inp["orient1"], inp["orient2"]
    a = StableNode(n1["contig_id"], n1["start"], n1["end"])
    b = StableNode(n2["contig_id"], n2["start"], n2["end"])
    before = [(a.contig_id, a.start, a.end), (b.contig_id, b.start, b.end)]
    r = merge_nodes(a, b, o1, o2)
    after = [(a.contig_id, a.start, a.end), (b.contig_id, b.start, b.end)]
    touching = (a.end == b.start) if o1 == ">" else (a.start == b.end) if o1 == "<" else None
    mergeable = n1["contig_id"] == n2["contig_id"] and o1 == o2 and o1 in "<>" and bool(touching)
    call = "merge_nodes(%s, %s, %r, %r)" % (before[0], before[1], o1, o2)
    if before != after:
        return "fails", "%s changed its arguments: %s -> %s" % (call, before, after)
    if not mergeable:
        if r is not False:
            got = r if not isinstance(r, list) else [(r[0].contig_id, r[0].start, r[0].end), r[1]]
            return "fails", "%s = %r although the intervals are not mergeable (contig, orientation or adjacency differ)" % (call, got)
        return "holds", "not mergeable, returned False"
    if r is False or not isinstance(r, list):
        return "fails", "%s = %r although the intervals are mergeable" % (call, r)
    want = (n1["contig_id"], min(n1["start"], n2["start"]), max(n1["end"], n2["end"]))
    got = (r[0].contig_id, r[0].start, r[0].end)
    if got != want or r[1] != o1:
        return "fails", "%s = [%s, %r], expected [%s, %r]" % (call, got, r[1], want, o1)
    return "holds", "merged as expected"


@replayer("lemma:lemma_rev_comp")
def _rev_comp(inp):
    """the strings of the counter-model, then every string over a small alphabet up to length 4, against an independent reverse complement
    (A<->T, C<->G on upper case; for the other characters only: rev_comp twice is the identity, and it reverses concatenation)"""
    import itertools
    from gaftools.utils import rev_comp
    WC = {"A": "T", "T": "A", "C": "G", "G": "C"}
    cands = [v for k, v in inp.items() if isinstance(v, str)]
    alpha = "ACGTNacgt-"
    for n in range(0, 4):
        cands += ["".join(t) for t in itertools.product(alpha, repeat=n)]
    cands += ["ACGT" * 5 + "N", "GATTACA" * 9]
    for s in cands:
        r = rev_comp(s)
        if len(r) != len(s):
            return "fails", "rev_comp(%r) = %r has another length" % (s, r)
        for i, c in enumerate(s[::-1]):
            if c in WC and r[i] != WC[c]:
                return "fails", "rev_comp(%r) = %r: position %d should be %r, the complement of %r read from the other end" % (s, r, i, WC[c], c)
        if rev_comp(r) != s:
            return "fails", "rev_comp(rev_comp(%r)) = %r" % (s, rev_comp(r))
    small = [c for c in cands if len(c) <= 2] + [v for k, v in inp.items() if isinstance(v, str)]
    for p in small:
        for q in small:
            if rev_comp(p + q) != rev_comp(q) + rev_comp(p):
                return "fails", "rev_comp(%r + %r) = %r but rev_comp(q) + rev_comp(p) = %r" % (p, q, rev_comp(p + q), rev_comp(q) + rev_comp(p))
    return "holds", "length, complement on ACGT, involution and reversal of concatenation hold on %d strings" % len(cands)


def replay(qual, inputs):
    f = REPLAYERS.get(qual)
    if f is None:
        return {"status": "no-native-replayer", "detail": "no function-level replayer for %s" % qual}
    if inputs is None:
        return {"status": "no-model", "detail": ""}
    try:
        st, detail = f(inputs)
    except Exception as e:  # noqa
        return {"status": "error", "detail": "%s: %s" % (type(e).__name__, e)}
    return {"status": st, "detail": detail}


if __name__ == "__main__":
    print(json.dumps(replay(sys.argv[1], json.loads(sys.argv[2]))))
