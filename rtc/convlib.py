"""Shared harness for conversion properties (C01, C02): run the REAL `gaftools view --format` in-process and
compare with an independent speller."""
import io
import os
import contextlib

from rtc.gen import revcomp, parse_path, write_lines


def view(gaf, gfa, fmt, out, nodes=(), regions=(), index=None):
    from gaftools.cli.view import run
    with contextlib.redirect_stdout(io.StringIO()):
        run(gaf, gfa=gfa, output=out, index=index, nodes=list(nodes), regions=list(regions), format=fmt)
    # view.run never closes its writer; the data is flushed when the object is collected. Force it.
    import gc
    gc.collect()
    return open(out).read().splitlines()


def contig_seq(g, c, a, b):
    s = ""
    for sg in g.contigs()[c]:
        lo, hi = max(a, sg.so), min(b, sg.end)
        if lo < hi:
            s += sg.seq[lo - sg.so:hi - sg.so]
    if len(s) != b - a:
        raise ValueError("interval %s:%d-%d is not covered by segments" % (c, a, b))
    return s


def designated(g, fields):
    """the target bases a GAF record designates, read-oriented; plus the path length implied by the path"""
    strand, path, pl, s, e = fields[4], fields[5], int(fields[6]), int(fields[7]), int(fields[8])
    toks = parse_path(path)
    if toks is None:  # bare contig name
        segs = g.contigs()[path]
        total = segs[-1].end
        seq = contig_seq(g, path, s, e)
        return (seq if strand == "+" else revcomp(seq)), total
    full = ""
    for name, o in toks:
        if ":" in name:
            c, iv = name.rsplit(":", 1)
            a, b = iv.split("-")
            piece = contig_seq(g, c, int(a), int(b))
        else:
            piece = g.by_id[name].seq
        full += piece if o == ">" else revcomp(piece)
    sub = full[s:e]
    return (sub if strand == "+" else revcomp(full)[s:e]), len(full)


def cigar_tokens(cg):
    out, num = [], ""
    for ch in cg:
        if ch.isdigit():
            num += ch
        else:
            out.append(num + ch)
            num = ""
    return out


def get_cigar(fields):
    for f in fields[12:]:
        if f.startswith("cg:Z:"):
            return f[5:]
    return None
