#!/usr/bin/env python3
"""Regenerate baseline_obligations.json: names and statuses of every obligation on /repo's committed tree.
Run manually after changing contracts (python3-vt checks/baseline.py [Cxx ...]); never run by the checks."""
import json
import os
import sys

ROOT = os.path.dirname(os.path.dirname(os.path.abspath(__file__)))
sys.path.insert(0, ROOT)
from checks import plan as planmod  # noqa
from checks.deductive import verify_all  # noqa
from pyvc import solve  # noqa

path = os.path.join(ROOT, "baseline_obligations.json")
try:
    base = json.load(open(path))
except Exception:
    base = {}
pids = sys.argv[1:] or sorted(planmod.PLAN)
if len(pids) > 1:
    # one fresh process per property (as the checks themselves run): the in-process z3 context used for path pruning stays small
    import subprocess
    for pid in pids:
        subprocess.call([sys.executable, os.path.abspath(__file__), pid])
    sys.exit(0)
for pid in pids:
    outs = verify_all(planmod.PLAN[pid], os.environ.get("VERIF_REPO", "/repo"))
    d = {}
    for o in outs:
        for r in o["results"]:
            st = r["status"]
            if (r["time"] or 0) > 6:
                print("   slow: %.1fs %s %s" % (r["time"], r["status"], r["name"]))
            if st == "unknown":
                s3, _ = solve.relax_check(r["_oblig"].hyps, r["_oblig"].goal)
                if s3 == "discharged":
                    st = "discharged"
                else:
                    smt = "(set-option :smt.random_seed 7)\n" + solve.to_smt2(r["_oblig"].hyps, r["_oblig"].goal)
                    st4 = solve._z3_check(smt, 3 * solve.Z3_TIMEOUT_MS)[0]
                    if st4 == "discharged":
                        st = "discharged"
            d[r["name"]] = st
    base[pid] = d
    print(pid, len(d), "obligations;", sum(1 for v in d.values() if v == "discharged"), "discharged")
json.dump(base, open(path, "w"), indent=0, sort_keys=True)
