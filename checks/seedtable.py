#!/usr/bin/env python3
"""seedtable.py <dir with one seedtest log per seeded change>: markdown table 'which check catches which seeded change' (DESIGN 13.7).
The logs are produced by   checks/seedtest.py seeded/<id>/patch.diff <Cxx> > <dir>/<id>.log"""
import json
import os
import re
import sys

ROOT = os.path.dirname(os.path.dirname(os.path.abspath(__file__)))


def main():
    d = sys.argv[1]
    rows = []
    for sid in sorted(os.listdir(os.path.join(ROOT, "seeded"))):
        meta = json.load(open(os.path.join(ROOT, "seeded", sid, "meta.json")))
        what = meta.get("needs_to_manifest", "").split("\n")[0]
        what = re.sub(r"^Change \d+ \(([^)]*)\):\s*", r"\1: ", what)
        if len(what) > 230:
            what = what[:227] + "..."
        try:
            log = open(os.path.join(d, sid + ".log")).read()
        except OSError:
            rows.append((sid, what, "(not run)", "", ""))
            continue
        m = re.search(r"rc=(\d+) deductive_obligations_failed=(\d+) bounded_failures=(\d+)", log)
        if not m:
            rows.append((sid, what, "(no result)", "", ""))
            continue
        rc, nd, nb = int(m.group(1)), int(m.group(2)), int(m.group(3))
        obl = re.findall(r"obligation: (\S+)", log)
        und = re.findall(r"(?:NOTE \(undecided part\)|UNDECIDED) property=\S+ (.*)", log)
        if nd:
            ded = "%d obligation(s) fail, e.g. `%s`" % (nd, obl[0].split(":", 1)[1] if obl else "?")
        elif und:
            ded = "undecided: " + und[0][:110]
        else:
            ded = "all obligations still discharge (change outside the functions under contract, or not visible per call)"
        bnd = "%d failing case(s)" % nb if nb else "no failing case"
        verdict = {0: "MISSED", 1: "VIOLATION", 2: "undecided (exit 2)", 3: "checker crash"}.get(rc, str(rc))
        rows.append((sid, what, ded, bnd, verdict))
    print("| seeded change | what it does | deductive engine | bounded engine | check result |")
    print("|---|---|---|---|---|")
    for r in rows:
        print("| %s | %s | %s | %s | %s |" % tuple(x.replace("|", "\\|") for x in r))


if __name__ == "__main__":
    main()
