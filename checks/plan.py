"""Which functions, lemmas, mutations and bounded stand-ins decide each property."""
from contracts import sort_c

SORT = "gaftools/cli/sort.py"
CONV = "gaftools/conversion.py"
UTILS = "gaftools/utils.py"
INDEX = "gaftools/cli/index.py"
VIEW = "gaftools/cli/view.py"
GFA = "gaftools/gfa.py"
PLAN = {}

PLAN["C01"] = dict(
    level="proof",
    functions=[(CONV, "merge_nodes"), (CONV, "to_stable"), (UTILS, "search_intervals"), (CONV, "to_unstable#filter"), (INDEX, "convert_coord#filter")],
    explanation="Base-identity formulation (DESIGN 3.2): a record designates the map path-offset -> (contig, position, orientation). "
                "merge_nodes and the whole of to_stable (token loop, merge loop with ghost prefix arrays S/U/run_of, collapse branch, "
                "field-list output, tag loop) are verified for every path length; the postcondition states, over the OUTPUT LINE's own "
                "fields, that every input node's bases sit at the same path offset in the output segments (split form) or at "
                "start'+offset / end'-1-offset on the reference contig (bare form), that the total is the sum of the output segments / "
                "the contig length, and that the CIGAR is reversed iff the strand flips. search_intervals (window, safety, termination) "
                "and the 3-case overlap filter are verified; the rest of to_unstable is covered by the bounded stand-in only.",
    trusted_base=["meta-argument (not mechanised): equal identity maps => equal spellings (DESIGN 3.2)",
                  "ghost prefix arrays built by X[k+1] = X[k] + d are the prefix sums",
                  "to_unstable outside the overlap filter and search_intervals: BOUNDED stand-in only (not proved)"],
    not_applicable_clauses=[],
    mutations=[
        dict(name="merge across orientations", file=CONV, old="if (node1.contig_id != node2.contig_id) or (orient1 != orient2):", new="if (node1.contig_id != node2.contig_id):", expect="merge_nodes", functions=[(CONV, "merge_nodes")]),
        dict(name="touching test swapped", file=CONV, old='    if (orient1 == ">") and (node1.end != node2.start):', new='    if (orient1 == ">") and (node1.start != node2.end):', expect="merge_nodes", functions=[(CONV, "merge_nodes")]),
        dict(name="bisection mid+1 -> mid", file=UTILS, old="mid + 1, end)", new="mid, end)", expect="search_intervals::decreases", functions=[(UTILS, "search_intervals")]),
        dict(name="equivalent mutant mid-1 -> mid stays green", file=UTILS, old="start, mid - 1)", new="start, mid)", expect="green", functions=[(UTILS, "search_intervals")]),
        dict(name="filter case 2 <= -> <", file=CONV, old="elif s < int(query_end) <= e:", new="elif s < int(query_end) < e:", expect="filter-iff-overlap", functions=[(CONV, "to_unstable#filter")]),
        dict(name="collapse offset off by one", file=CONV, old="gaf_line.path_length - gaf_line.path_end\n", new="gaf_line.path_length - gaf_line.path_end - 1\n", expect="to_stable", functions=[(CONV, "to_stable")], quick=False),
        dict(name="harmless: rename-free reorder of independent inits", file=CONV, old="    reverse_flag = False\n    new_total = None\n", new="    new_total = None\n    reverse_flag = False\n", expect="green", functions=[(CONV, "to_stable")], quick=False),
    ],
)

PLAN["C08"] = dict(
    level="proof",
    functions=[(SORT, "compare_gaf")],
    extra={(SORT, "compare_gaf"): sort_c.relational_obligations},
    explanation="compare_gaf is verified against the lexicographic key (untagged, BO, NO, start, offset) on every path, and antisymmetry / "
                "transitivity / totality are proved directly on the code (three symbolic records).",
    trusted_base=["assumed: list.sort(key=cmp_to_key(f)) yields a permutation sorted w.r.t. f whenever f is a strict total order (CPython)"],
    not_applicable_clauses=[],
    mutations=[
        dict(name="NO compared via BO again", file=SORT, old="    if al1.NO > al2.NO:\n        return 1\n", new="    if al1.BO > al2.BO:\n        return 1\n", expect="compare_gaf"),
        dict(name="untagged sorted first", file=SORT, old="    if al1.BO == -1 and al2.BO != -1:\n        return 1\n", new="    if al1.BO == -1 and al2.BO != -1:\n        return -1\n", expect="compare_gaf"),
        dict(name="drop start comparison", file=SORT, old="    if al1.start < al2.start:\n        return -1\n", new="", expect="compare_gaf"),
        dict(name="harmless: elif->if after return", file=SORT, old="    if al2.BO == -1 and al1.BO != -1:\n        return -1\n", new="    elif al2.BO == -1 and al1.BO != -1:\n        return -1\n", expect="green"),
    ],
)
