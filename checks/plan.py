"""Which functions, lemmas, mutations and bounded stand-ins decide each property."""
from contracts import sort_c, gfa_c

SORT = "gaftools/cli/sort.py"
CONV = "gaftools/conversion.py"
UTILS = "gaftools/utils.py"
INDEX = "gaftools/cli/index.py"
VIEW = "gaftools/cli/view.py"
GFA = "gaftools/gfa.py"
PLAN = {}

PLAN["C01"] = dict(
    level="proof",
    functions=[(CONV, "merge_nodes"), (CONV, "to_stable"), (UTILS, "search_intervals"), (CONV, "to_unstable#filter"), (INDEX, "convert_coord#filter")],
    explanation="Base-identity formulation (DESIGN 3.2): a record designates the map path-offset -> (contig, position, orientation). "
                "merge_nodes and the whole of to_stable (token loop, merge loop with ghost prefix arrays S/U/run_of, collapse branch, "
                "field-list output, tag loop) are verified for every path length; the postcondition states, over the OUTPUT LINE's own "
                "fields, that every input node's bases sit at the same path offset in the output segments (split form) or at "
                "start'+offset / end'-1-offset on the reference contig (bare form), that the total is the sum of the output segments / "
                "the contig length, and that the CIGAR is reversed iff the strand flips. search_intervals (window, safety, termination) "
                "and the 3-case overlap filter are verified; the rest of to_unstable is covered by the bounded stand-in only.",
    trusted_base=["meta-argument (not mechanised): equal identity maps => equal spellings (DESIGN 3.2)",
                  "ghost prefix arrays built by X[k+1] = X[k] + d are the prefix sums",
                  "to_unstable outside the overlap filter and search_intervals: BOUNDED stand-in only (not proved)"],
    not_applicable_clauses=[],
    mutations=[
        dict(name="merge across orientations", file=CONV, old="if (node1.contig_id != node2.contig_id) or (orient1 != orient2):", new="if (node1.contig_id != node2.contig_id):", expect="merge_nodes", functions=[(CONV, "merge_nodes")]),
        dict(name="touching test swapped", file=CONV, old='    if (orient1 == ">") and (node1.end != node2.start):', new='    if (orient1 == ">") and (node1.start != node2.end):', expect="merge_nodes", functions=[(CONV, "merge_nodes")]),
        dict(name="bisection mid+1 -> mid", file=UTILS, old="mid + 1, end)", new="mid, end)", expect="search_intervals::decreases", functions=[(UTILS, "search_intervals")]),
        dict(name="equivalent mutant mid-1 -> mid stays green", file=UTILS, old="start, mid - 1)", new="start, mid)", expect="green", functions=[(UTILS, "search_intervals")]),
        dict(name="filter case 2 <= -> <", file=CONV, old="elif s < int(query_end) <= e:", new="elif s < int(query_end) < e:", expect="filter-iff-overlap", functions=[(CONV, "to_unstable#filter")]),
        dict(name="collapse offset off by one", file=CONV, old="gaf_line.path_length - gaf_line.path_end\n", new="gaf_line.path_length - gaf_line.path_end - 1\n", expect="to_stable", functions=[(CONV, "to_stable")], quick=False),
        dict(name="harmless: rename-free reorder of independent inits", file=CONV, old="    reverse_flag = False\n    new_total = None\n", new="    new_total = None\n    reverse_flag = False\n", expect="green", functions=[(CONV, "to_stable")], quick=False),
    ],
)

PLAN["C08"] = dict(
    level="proof",
    functions=[(SORT, "compare_gaf")],
    extra={(SORT, "compare_gaf"): sort_c.relational_obligations},
    explanation="compare_gaf is verified against the lexicographic key (untagged, BO, NO, start, offset) on every path, and antisymmetry / "
                "transitivity / totality are proved directly on the code (three symbolic records).",
    trusted_base=["assumed: list.sort(key=cmp_to_key(f)) yields a permutation sorted w.r.t. f whenever f is a strict total order (CPython)"],
    not_applicable_clauses=[],
    mutations=[
        dict(name="NO compared via BO again", file=SORT, old="    if al1.NO > al2.NO:\n        return 1\n", new="    if al1.BO > al2.BO:\n        return 1\n", expect="compare_gaf"),
        dict(name="untagged sorted first", file=SORT, old="    if al1.BO == -1 and al2.BO != -1:\n        return 1\n", new="    if al1.BO == -1 and al2.BO != -1:\n        return -1\n", expect="compare_gaf"),
        dict(name="drop start comparison", file=SORT, old="    if al1.start < al2.start:\n        return -1\n", new="", expect="compare_gaf"),
        dict(name="harmless: elif->if after return", file=SORT, old="    if al2.BO == -1 and al1.BO != -1:\n        return -1\n", new="    elif al2.BO == -1 and al1.BO != -1:\n        return -1\n", expect="green"),
    ],
)

PLAN["C05"] = dict(
    level="proof",
    functions=[(VIEW, "search")],
    explanation="view.search (bisection for the first indexed node ending after the region start, then forward scan) returns exactly the "
                "indexed nodes of the contig whose interval intersects the closed region [a,b], as a contiguous run of the sorted list; "
                "all list accesses in bounds; both loops terminate (decreases). get_unstable's glue (split of CONTIG:a-b, per-contig "
                "filter/sort of the index keys, concatenation over regions) and the composition with --node are covered by the bounded stand-in.",
    trusted_base=["precondition of search (keys of one contig sorted by start and pairwise disjoint) is established by get_unstable from a valid rGFA: checked at run time by the bounded stand-in only",
                  "get_unstable glue: BOUNDED stand-in only"],
    mutations=[
        dict(name="bisection <= -> <", file=VIEW, old="if node_list[m][3] <= q_s:", new="if node_list[m][3] < q_s:", expect="search"),
        dict(name="scan <= -> <", file=VIEW, old="node_list[pos][2] <= q_e:", new="node_list[pos][2] < q_e:", expect="search"),
        dict(name="e = m - 1", file=VIEW, old="            e = m\n", new="            e = m - 1\n", expect="search"),
    ],
)

PLAN["C14"] = dict(
    level="proof",
    functions=[(GFA, "GFA.path_exists")],
    lemmas=[gfa_c.lemma_reversal],
    explanation="path_exists (4-row orientation table, early return, inner scan over the adjacency set) returns True iff every consecutive "
                "pair of steps is a link of the graph in the matching orientations, stated against the GFA link semantics (leave a through "
                "its end for '>' / start for '<', enter b at its start for '>' / end for '<'); lemma: under the symmetric-adjacency "
                "invariant (C15) a step is a link iff the reversed step is, hence the reversed walk is accepted iff the walk is. "
                "extract_path's concatenation / reverse complement and find_path's record loop are covered by the bounded stand-in.",
    trusted_base=["re.findall('[><][^><]+', path) tokenises the path (assumed)", "str.translate / [::-1] implement reverse complement (assumed)",
                  "extract_path, rev_comp, find_path.run: BOUNDED stand-in only"],
    mutations=[
        dict(name="swap two table rows", file=GFA, old='            (">", "<"): ("end", 1),\n            ("<", ">"): ("start", 0),', new='            (">", "<"): ("start", 0),\n            ("<", ">"): ("end", 1),', expect="path_exists"),
        dict(name="row << wrong side", file=GFA, old='("<", "<"): ("start", 1)', new='("<", "<"): ("start", 0)', expect="path_exists"),
    ],
)

_NODE_METHODS = [(GFA, "Node." + m) for m in ("add_from_start", "add_from_end", "remove_from_start", "remove_from_end")]
PLAN["C15"] = dict(
    level="other",
    functions=_NODE_METHODS + [(GFA, "GFA.add_edge"), (GFA, "GFA.remove_edge")],
    explanation="PROVED (deductive, unbounded): the representation invariant of the adjacency (symmetric between the two ends of every link, no "
                "dangling ids) is preserved by add_edge and remove_edge, with whole-view postconditions (the adjacency changes by exactly "
                "that link at both ends, self-links included, node set unchanged); histories follow by induction over operations. "
                "BOUNDED only: biccs (iterative Hopcroft-Tarjan), all_components / find_component / dfs, remove_node, add_node: exhaustive "
                "comparison with the definitions on all small graphs (see coverage.bounded).",
    trusted_base=["biccs, components, dfs, remove_node, add_node: BOUNDED stand-in only (never counted as proved)"],
    not_applicable_clauses=["biccs beyond the enumerated bound; termination of the work-list loops"],
    mutations=[
        dict(name="add_edge second end on the wrong side", file=GFA, old="        if node2_dir == 0:\n            self[node2].add_from_start(node1, node1_dir, overlap)", new="        if node2_dir == 1:\n            self[node2].add_from_start(node1, node1_dir, overlap)", expect="add_edge", functions=[(GFA, "GFA.add_edge")]),
        dict(name="remove_edge forgets the second end", file=GFA, old="        if side2 == 0:\n            self.nodes[n2].remove_from_start(n1, side1, overlap)\n        else:\n            self.nodes[n2].remove_from_end(n1, side1, overlap)", new="        if side2 == 0:\n            self.nodes[n2].remove_from_start(n1, side1, overlap)", expect="remove_edge", functions=[(GFA, "GFA.remove_edge")], quick=False),
    ],
)

PLAN["C07"] = dict(
    level="other",
    functions=[(GFA, "GFA.write_gfa#L-line-from-start"), (GFA, "GFA.write_gfa#L-line-from-end"), (GFA, "GFA.add_edge")],
    explanation="PROVED: the L-line emitted by write_gfa for an adjacency entry carries orientation signs that decode through E_DIR (the table "
                "add_edge uses) to exactly the stored sides, with id, overlap and tags in place (both the start-side and the end-side branch); "
                "add_edge stores exactly the declared link at both ends. BOUNDED: exactly-once emission per declared link (edge_tags keying), "
                "S-before-L, (BO,NO) order, tag round trip, CSV rows, load->write->independent-reader equality.",
    trusted_base=["'\\t'.join / split round trip (assumed)", "exactly-once emission, S/L order, CSV, tags: BOUNDED stand-in only"],
    mutations=[
        dict(name="swap sign in one write_gfa branch", file=GFA, old='"\\t".join(["L", str(n1), "-", str(n[0]), "+", overlap] + tags)', new='"\\t".join(["L", str(n1), "-", str(n[0]), "-", overlap] + tags)', expect="write_gfa", functions=[(GFA, "GFA.write_gfa#L-line-from-start")]),
    ],
)

_SORT_FUNCS = [(SORT, "sort#passes"), (SORT, "process_alignment#body"), (SORT, "write_to_file")]
PLAN["C09"] = dict(
    level="proof",
    functions=_SORT_FUNCS,
    explanation="Both passes of sort() against the abstract reader/writer contract: pass 1 records exactly one (offset, keys) entry per input "
                "record with the offset taken before the read; list.sort yields a permutation (ghost maps both ways); pass 2 writes, for the "
                "t-th sorted entry, the input line at that offset (rstrip'ed) followed by exactly bo:i:<BO>, sn:Z:<sn>, iv:i:<inv>; hence the "
                "output is a permutation of the input records, each unchanged plus three tags. process_alignment's body is verified for every "
                "path length: anchor = last node iff strictly more tagged scaffold steps are '<' than '>', (BO,NO) of the anchor, start on the "
                "anchor side, iv = 1 iff both orientations occur among tagged scaffold steps, sn = SN of the first rank-0 node or 'unknown'.",
    trusted_base=["reader contract (tell/readline/seek with opaque strictly increasing offsets) for text files and BGZFile: assumed, exercised by the bounded stand-in",
                  "line.rstrip().split('\\t') = field list of the record (assumed)", "bytes branch (decode) equals the str branch: not modelled, bounded only"],
    mutations=[
        dict(name="write NO as bo:i", file=SORT, old="alignment.BO, alignment.sn, alignment.inv)", new="alignment.NO, alignment.sn, alignment.inv)", expect="sort#passes", functions=[(SORT, "sort#passes")]),
        dict(name="seek off+1", file=SORT, old="            reader.seek(off)", new="            reader.seek(off + 1)", expect="sort#passes", functions=[(SORT, "sort#passes")], quick=False),
        dict(name="anchor test < -> <=", file=SORT, old='    if orient_list.count(">") < orient_list.count("<"):', new='    if orient_list.count(">") <= orient_list.count("<"):', expect="process_alignment", functions=[(SORT, "process_alignment#body")]),
        dict(name="scaffold filter inverted", file=SORT, old="        if no_tag != 0:\n            continue", new="        if no_tag == 0:\n            continue", expect="process_alignment", functions=[(SORT, "process_alignment#body")]),
    ],
)
PLAN["C10"] = dict(
    level="proof",
    functions=[(SORT, "sort#passes")],
    explanation="Index bookkeeping of pass 2 (ghost first/last position per contig): the pickled dict has no 'unknown' key whether or not the bucket "
                "existed, an entry for exactly the contigs that occur among the written records, holding writer.tell() taken before the first and "
                "the last record of that contig; every record of the contig lies between them. The choice of the index path in run_sort and the "
                "resolution of the offsets in real plain/BGZF files are covered by the bounded stand-in.",
    trusted_base=["writer contract: tell() before the k-th write is the offset at which a reader finds the k-th record (assumed; exercised on real plain/BGZF output by the bounded stand-in)",
                  "pickle round trip (assumed)"],
    mutations=[
        dict(name="last offset only in else", file=SORT, old="                    index_dict[alignment.sn][0] = out_off\n                    index_dict[alignment.sn][1] = out_off", new="                    index_dict[alignment.sn][0] = out_off", expect="sort#passes"),
        dict(name="pop without default", file=SORT, old='index_dict.pop("unknown", None)', new='index_dict.pop("unknown")', expect="sort#passes"),
    ],
)

PLAN["C03"] = dict(
    level="proof",
    functions=[(INDEX, "run#index-loop"), (INDEX, "convert_coord#filter"), (UTILS, "search_intervals")],
    explanation="The indexing loop of index.run against the abstract reader contract, for files of any length: ghost witnesses make both "
                "directions explicit without existentials: (A) for every record j and every node p it traverses (convert_coord(record) for "
                "stable GAFs, the names of the path column otherwise), the entry keyed (id, SN, SO, SO+LN) of that node lists off(j); (B) every "
                "offset listed under a key is off(j) of a record j that traverses that key's node; no empty entry; the offset is the tell() taken "
                "BEFORE the readline() that returned the record. For stable records the set of traversed nodes is convert_coord's: its 3-case "
                "filter is proved equivalent to interval overlap and search_intervals returns a window containing every overlapping segment "
                "(never (-1,-1), in bounds, terminating); convert_coord's loop structure and the seek/pickle round trip on real plain/BGZF files "
                "are covered by the bounded stand-in.",
    trusted_base=["reader contract (tell/readline/seek) for text files and pysam BGZFile: assumed, exercised by the bounded stand-in",
                  "re.split('>|<', path)[1:] = node names of the path; line.rstrip().split('\\t') = fields (assumed)",
                  "convert_coord loop structure (outside the overlap filter and search_intervals): BOUNDED stand-in only",
                  "definitional extensions K(j,p) / NT(j) name the key / number of traversed nodes of record j"],
    mutations=[
        dict(name="tell() after readline()", file=INDEX, old="        offset = gaf_file.tell()\n        mapping = gaf_file.readline()", new="        mapping = gaf_file.readline()\n        offset = gaf_file.tell()", expect="run#index-loop", functions=[(INDEX, "run#index-loop")]),
        dict(name="drop first node of the path", file=INDEX, old='alignment = list(re.split(">|<", val[5]))[1:]', new='alignment = list(re.split(">|<", val[5]))[2:]', expect="run#index-loop", functions=[(INDEX, "run#index-loop")], quick=False),
        dict(name="filter case 1 <= -> <", file=INDEX, old='                <= int(query_start)\n                < int(node.tags["SO"][1]) + int(node.tags["LN"][1])', new='                < int(query_start)\n                < int(node.tags["SO"][1]) + int(node.tags["LN"][1])', expect="filter-iff-overlap", functions=[(INDEX, "convert_coord#filter")]),
    ],
)

PLAN["C04"] = dict(
    level="proof",
    functions=[(VIEW, "run#select-offsets")],
    explanation="Selection fragment of view.run (--node mode), given an index with C03's postcondition (one key per node id, no empty entry): the offset "
                "list is strictly increasing (so each selected record once, in file order, offsets being strictly increasing in the file), its elements "
                "are exactly the offsets listed for the named nodes that have an index entry, a node without entry contributes nothing and raises "
                "nothing, and CommandLineError is raised only when no named node has an entry. Rendering of the selected records (Alignment.__str__ / "
                "converters), equality with convert-then-select and the whole-file branch are covered by the bounded stand-in; tag verbatim-ness is C16.",
    trusted_base=["sorted(set) / sorted(list, key=) / dict iteration contracts (assumed)", "pickle.load returns the dict index.run dumped (assumed)",
                  "output loops (read_line + print) and --format composition: BOUNDED stand-in only"],
    mutations=[
        dict(name="unaligned-node guard removed", file=VIEW, old="            if nd in ind_dict:\n                offsets.update(ind[ind_dict[nd]])", new="            offsets.update(ind[ind_dict[nd]])", expect="run#select-offsets"),
        dict(name="first named node skipped", file=VIEW, old="        for nd in nodes:\n            # extracting", new="        for nd in nodes[1:]:\n            # extracting", expect="run#select-offsets", quick=False),
    ],
)
